package ref

import (
	"crypto/sha256"
	"encoding/hex"
	"fmt"
	"os"
	"path/filepath"
	"sort"
	"syscall"
)

// Entry is one file-system object in a snapshot.
type Entry struct {
	Type  string // f d l o(ther)
	Mode  uint32
	Size  int64
	Ino   uint64
	Mtime int64
	Hash  string // content hash (files), link target (symlinks)
}

// Snap maps paths (relative to the root) to entries.
type Snap map[string]Entry

// TakeSnap walks root without following symlinks.
func TakeSnap(root string) Snap {
	s := Snap{}
	filepath.Walk(root, func(p string, fi os.FileInfo, err error) error { //nolint:errcheck
		if err != nil {
			return nil
		}
		rel, _ := filepath.Rel(root, p)
		e := Entry{Mode: uint32(fi.Mode().Perm()), Size: fi.Size(), Mtime: fi.ModTime().UnixNano()}
		if st, ok := fi.Sys().(*syscall.Stat_t); ok {
			e.Ino = st.Ino
		}
		switch {
		case fi.Mode().IsRegular():
			e.Type = "f"
			if data, err := os.ReadFile(p); err == nil {
				h := sha256.Sum256(data)
				e.Hash = hex.EncodeToString(h[:12])
			} else {
				e.Hash = "unreadable"
			}
		case fi.IsDir():
			e.Type = "d"
			e.Size = 0
		case fi.Mode()&os.ModeSymlink != 0:
			e.Type = "l"
			e.Hash, _ = os.Readlink(p)
		default:
			e.Type = "o"
		}
		s[rel] = e
		return nil
	})
	return s
}

// DiffOpts selects what counts as a difference.
type DiffOpts struct {
	Inode      bool                  // compare inode numbers of files
	FileMtime  bool                  // compare mtimes of regular files
	DirMtime   bool                  // compare mtimes of directories (an entry was created or deleted in between)
	IgnorePath func(rel string) bool // paths to ignore entirely
}

// Diff lists differences between two snapshots.
func Diff(a, b Snap, o DiffOpts) []string {
	var out []string
	keys := map[string]bool{}
	for k := range a {
		keys[k] = true
	}
	for k := range b {
		keys[k] = true
	}
	var ks []string
	for k := range keys {
		ks = append(ks, k)
	}
	sort.Strings(ks)
	for _, k := range ks {
		if o.IgnorePath != nil && o.IgnorePath(k) {
			continue
		}
		ea, oka := a[k]
		eb, okb := b[k]
		switch {
		case !oka:
			out = append(out, fmt.Sprintf("created %s (%s)", k, eb.Type))
		case !okb:
			out = append(out, fmt.Sprintf("deleted %s (%s)", k, ea.Type))
		default:
			if ea.Type != eb.Type {
				out = append(out, fmt.Sprintf("type %s %s->%s", k, ea.Type, eb.Type))
				continue
			}
			if ea.Mode != eb.Mode {
				out = append(out, fmt.Sprintf("mode %s %o->%o", k, ea.Mode, eb.Mode))
			}
			if ea.Type != "d" && (ea.Hash != eb.Hash || ea.Size != eb.Size) {
				out = append(out, fmt.Sprintf("content %s", k))
			}
			if o.Inode && ea.Type == "f" && ea.Ino != eb.Ino {
				out = append(out, fmt.Sprintf("inode %s", k))
			}
			if o.FileMtime && ea.Type == "f" && ea.Mtime != eb.Mtime {
				out = append(out, fmt.Sprintf("mtime %s", k))
			}
			if o.DirMtime && ea.Type == "d" && ea.Mtime != eb.Mtime {
				out = append(out, fmt.Sprintf("directory-mtime %s", k))
			}
		}
	}
	return out
}

// IgnoreTmpDir ignores the existence of an (empty) .tmp directory itself.
func IgnoreTmpDir(rel string) bool { return rel == ".tmp" || rel == "." }
