package ref

import (
	"encoding/binary"
)

// saslauthd wire format reference (whole byte strings, no streaming).

const WireMax = 256

// EncodeParts encodes fields as 16-bit big-endian length + bytes each.
func EncodeParts(parts ...[]byte) []byte {
	var out []byte
	for _, p := range parts {
		var l [2]byte
		binary.BigEndian.PutUint16(l[:], uint16(len(p)))
		out = append(out, l[:]...)
		out = append(out, p...)
	}
	return out
}

// DecodeParts decodes n parts from the beginning of stream. ok=false if the
// stream ends early or a part announces more than WireMax bytes.
func DecodeParts(stream []byte, n int) (parts [][]byte, consumed int, ok bool, why string) {
	off := 0
	for i := 0; i < n; i++ {
		if len(stream)-off < 2 {
			return nil, off, false, "stream ends inside a length prefix or before all parts"
		}
		l := int(binary.BigEndian.Uint16(stream[off:]))
		if l > WireMax {
			return nil, off, false, "part longer than the limit"
		}
		if len(stream)-off-2 < l {
			return nil, off, false, "stream ends inside a part"
		}
		parts = append(parts, append([]byte{}, stream[off+2:off+2+l]...))
		off += 2 + l
	}
	return parts, off, true, ""
}

// ReqValid: the request prefix decodes and login/password are non-empty.
// exact reports that there are no trailing bytes.
func ReqValid(stream []byte) (fields [][]byte, consumed int, valid, exact bool, why string) {
	parts, n, ok, why := DecodeParts(stream, 4)
	if !ok {
		return nil, n, false, false, why
	}
	if len(parts[0]) == 0 {
		return nil, n, false, false, "empty login"
	}
	if len(parts[1]) == 0 {
		return nil, n, false, false, "empty password"
	}
	return parts, n, true, n == len(stream), ""
}

// RespValid decodes a reply: one part, at least 2 bytes, "OK" or "NO".
func RespValid(stream []byte) (result bool, message []byte, consumed int, valid bool, why string) {
	parts, n, ok, why := DecodeParts(stream, 1)
	if !ok {
		return false, nil, n, false, why
	}
	p := parts[0]
	if len(p) < 2 {
		return false, nil, n, false, "reply shorter than 2 bytes"
	}
	switch string(p[:2]) {
	case "OK":
		result = true
	case "NO":
	default:
		return false, nil, n, false, "reply is neither OK nor NO"
	}
	if len(p) > 3 {
		message = p[3:]
	}
	return result, message, n, true, ""
}
