// Package ref holds the reference models (oracles). They are written from
// doc/SCHEMA.md, the man pages and the property statements and share no code
// with the implementation under test.
package ref

import (
	"bytes"
	"crypto/hmac"
	"crypto/sha256"
	"encoding/base64"
	"fmt"
	"math/rand"
	"strconv"
	"strings"

	"golang.org/x/crypto/argon2"
	"golang.org/x/crypto/scrypt"
)

const (
	AlgoScrypt = "hmac_sha256_scrypt"
	AlgoArgon  = "argon2id"
)

// ParamSet is one parameter set as expressible in the store configuration.
type ParamSet struct {
	ID   uint
	Algo string
	// scrypt
	HmacKey []byte
	Cost    uint
	R, P    int  // 0 = omitted in YAML
	ROmit   bool // omit key r from YAML
	POmit   bool
	// argon2id
	Time    uint32
	Memory  uint32
	Threads uint8
	Length  uint32
}

func (p ParamSet) effRP() (int, int) {
	r, pp := p.R, p.P
	if r <= 0 {
		r = 8
	}
	if pp <= 0 {
		pp = 1
	}
	return r, pp
}

func (p ParamSet) SaltLen() int {
	if p.Algo == AlgoScrypt {
		return 32
	}
	return 16
}

// Digest recomputes the schema's function from first principles.
func (p ParamSet) Digest(pw, salt []byte) ([]byte, error) {
	switch p.Algo {
	case AlgoScrypt:
		r, pp := p.effRP()
		k, err := scrypt.Key(pw, salt, 1<<p.Cost, r, pp, 32)
		if err != nil {
			return nil, err
		}
		m := hmac.New(sha256.New, p.HmacKey)
		m.Write(k)
		return m.Sum(nil), nil
	case AlgoArgon:
		return argon2.IDKey(pw, salt, p.Time, p.Memory, p.Threads, p.Length), nil
	}
	return nil, fmt.Errorf("unknown algo")
}

// Record builds a canonical record line (without newline).
func (p ParamSet) Record(pw, salt []byte, t int64) string {
	d, err := p.Digest(pw, salt)
	if err != nil {
		panic(err)
	}
	return fmt.Sprintf("%s:%d:%d:%s:%s", p.Algo, t, p.ID, base64.URLEncoding.EncodeToString(salt), base64.URLEncoding.EncodeToString(d))
}

// YAML renders a store configuration document.
func YAML(base string, def uint, sets []ParamSet) string {
	var b strings.Builder
	fmt.Fprintf(&b, "basedir: %s\n", strconv.Quote(base))
	fmt.Fprintf(&b, "default: %d\n", def)
	if len(sets) > 0 {
		b.WriteString("params:\n")
	}
	for _, p := range sets {
		fmt.Fprintf(&b, "  - id: %d\n", p.ID)
		if p.Algo == AlgoScrypt {
			b.WriteString("    scryptauth:\n")
			fmt.Fprintf(&b, "      hmackey: %s\n", strconv.Quote(base64.StdEncoding.EncodeToString(p.HmacKey)))
			fmt.Fprintf(&b, "      cost: %d\n", p.Cost)
			if !p.ROmit {
				fmt.Fprintf(&b, "      r: %d\n", p.R)
			}
			if !p.POmit {
				fmt.Fprintf(&b, "      p: %d\n", p.P)
			}
		} else {
			b.WriteString("    argon2id:\n")
			fmt.Fprintf(&b, "      time: %d\n      memory: %d\n      threads: %d\n      length: %d\n", p.Time, p.Memory, p.Threads, p.Length)
		}
	}
	return b.String()
}

// Canon is the key equivalence inherent in PBKDF2-HMAC-SHA256 (used inside
// scrypt): keys longer than the 64-byte block are replaced by their SHA-256,
// shorter ones are zero-padded. Two passwords are indistinguishable for a
// scrypt parameter set iff their Canon values are equal.
func Canon(pw []byte) [64]byte {
	var out [64]byte
	if len(pw) > 64 {
		h := sha256.Sum256(pw)
		copy(out[:], h[:])
	} else {
		copy(out[:], pw)
	}
	return out
}

// SamePassword says whether a and b must be treated as the same credential
// under parameter set p.
func (p ParamSet) SamePassword(a, b []byte) bool {
	if p.Algo == AlgoScrypt {
		return Canon(a) == Canon(b)
	}
	return bytes.Equal(a, b)
}

// ---------------------------------------------------------------------------
// record parsing: strict (exactly what the schema writes) and permissive
// (everything a reasonable implementation might still accept).

type Parsed struct {
	Algo   string
	Time   int64
	ID     uint
	Salt   []byte
	Digest []byte
}

func firstLine(file []byte) (line []byte, hasNL bool) {
	if i := bytes.IndexByte(file, '\n'); i >= 0 {
		return file[:i], true
	}
	return file, false
}

// ParseStrict accepts only the canonical form.
func ParseStrict(file []byte) (Parsed, bool) {
	var z Parsed
	line, nl := firstLine(file)
	if !nl {
		return z, false
	}
	f := strings.Split(string(line), ":")
	if len(f) != 5 {
		return z, false
	}
	t, err := strconv.ParseInt(f[1], 10, 64)
	if err != nil || t < 0 || strconv.FormatInt(t, 10) != f[1] {
		return z, false
	}
	id, err := strconv.ParseUint(f[2], 10, 32)
	if err != nil || id == 0 || strconv.FormatUint(id, 10) != f[2] {
		return z, false
	}
	salt, err := base64.URLEncoding.Strict().DecodeString(f[3])
	if err != nil || len(salt) == 0 {
		return z, false
	}
	dig, err := base64.URLEncoding.Strict().DecodeString(f[4])
	if err != nil || len(dig) == 0 {
		return z, false
	}
	return Parsed{f[0], t, uint(id), salt, dig}, true
}

func lenientB64(s string) ([]byte, bool) {
	s = strings.Map(func(r rune) rune {
		if r == '\r' || r == '\n' {
			return -1
		}
		return r
	}, s)
	for _, enc := range []*base64.Encoding{base64.URLEncoding, base64.RawURLEncoding, base64.StdEncoding, base64.RawStdEncoding} {
		if b, err := enc.DecodeString(s); err == nil {
			return b, true
		}
	}
	return nil, false
}

// ParsePermissive accepts anything that could conceivably be read as a record:
// optional CR, missing trailing newline, leading '+'/zeros in numbers, any
// base64 alphabet and padding. It still requires five ':'-separated fields.
func ParsePermissive(file []byte) (Parsed, bool) {
	var z Parsed
	line, _ := firstLine(file)
	s := strings.TrimRight(string(line), "\r")
	f := strings.Split(s, ":")
	if len(f) != 5 {
		return z, false
	}
	t, err := strconv.ParseInt(strings.TrimSpace(f[1]), 10, 64)
	if err != nil {
		return z, false
	}
	id, err := strconv.ParseUint(strings.TrimPrefix(strings.TrimSpace(f[2]), "+"), 10, 64)
	if err != nil {
		return z, false
	}
	salt, ok := lenientB64(f[3])
	if !ok {
		return z, false
	}
	dig, ok := lenientB64(f[4])
	if !ok {
		return z, false
	}
	return Parsed{f[0], t, uint(id), salt, dig}, true
}

// MustAccept: the file is a canonical record of a configured set whose digest
// matches pw. An implementation has to authenticate it.
func MustAccept(sets map[uint]ParamSet, file, pw []byte) bool {
	p, ok := ParseStrict(file)
	if !ok {
		return false
	}
	ps, ok := sets[p.ID]
	if !ok || ps.Algo != p.Algo {
		return false
	}
	if len(p.Salt) != ps.SaltLen() {
		return false
	}
	d, err := ps.Digest(pw, p.Salt)
	return err == nil && len(d) > 0 && bytes.Equal(d, p.Digest)
}

// MayAccept: under the most permissive reading the first line names a
// configured set, the format id matches it and the FULL stored digest equals
// the recomputed one. If this is false an implementation must not authenticate.
func MayAccept(sets map[uint]ParamSet, file, pw []byte) bool {
	p, ok := ParsePermissive(file)
	if !ok {
		return false
	}
	ps, ok := sets[p.ID]
	if !ok || ps.Algo != p.Algo {
		return false
	}
	if len(p.Digest) == 0 {
		return false
	}
	d, err := safeDigest(ps, pw, p.Salt)
	return err == nil && len(d) > 0 && bytes.Equal(d, p.Digest)
}

func safeDigest(ps ParamSet, pw, salt []byte) (d []byte, err error) {
	defer func() {
		if r := recover(); r != nil {
			err = fmt.Errorf("panic: %v", r)
		}
	}()
	return ps.Digest(pw, salt)
}

// SupportedStrict / SupportedPermissive: the "holds a supported hash" predicate
// used by list, update and check (sandwich rule).
func SupportedStrict(sets map[uint]ParamSet, file []byte) bool {
	p, ok := ParseStrict(file)
	if !ok {
		return false
	}
	ps, ok := sets[p.ID]
	return ok && ps.Algo == p.Algo && len(p.Salt) == ps.SaltLen()
}

func SupportedPermissive(sets map[uint]ParamSet, file []byte) bool {
	p, ok := ParsePermissive(file)
	if !ok {
		return false
	}
	ps, ok := sets[p.ID]
	return ok && ps.Algo == p.Algo
}

// ---------------------------------------------------------------------------
// generators

// CheapSets returns n low-cost parameter sets with ids 1..n mixing both algorithms.
func CheapSets(rng *rand.Rand, n int) []ParamSet {
	var out []ParamSet
	for i := 1; i <= n; i++ {
		if i%2 == 1 {
			key := make([]byte, 32)
			rng.Read(key)
			ps := ParamSet{ID: uint(i), Algo: AlgoScrypt, HmacKey: key, Cost: uint(1 + rng.Intn(4))}
			switch rng.Intn(4) {
			case 0:
				ps.ROmit, ps.POmit = true, true
			case 1:
				ps.R, ps.P = 1, 1
			case 2:
				ps.R, ps.P = 2, 2
			case 3:
				ps.R, ps.POmit = 8, true
			}
			out = append(out, ps)
		} else {
			out = append(out, ParamSet{ID: uint(i), Algo: AlgoArgon, Time: uint32(1 + rng.Intn(2)), Memory: uint32(8 << rng.Intn(3)), Threads: uint8(1 + rng.Intn(2)), Length: []uint32{16, 32, 64}[rng.Intn(3)]})
		}
	}
	return out
}

func SetMap(sets []ParamSet) map[uint]ParamSet {
	m := map[uint]ParamSet{}
	for _, s := range sets {
		m[s.ID] = s
	}
	return m
}

// Password returns a password of a random class.
func Password(rng *rand.Rand) []byte {
	switch rng.Intn(14) {
	case 0:
		return []byte{}
	case 1:
		return []byte{byte(rng.Intn(256))}
	case 2:
		return randASCII(rng, 1+rng.Intn(20))
	case 3:
		b := randASCII(rng, 4+rng.Intn(10))
		b[rng.Intn(len(b))] = ':'
		return b
	case 4:
		b := randASCII(rng, 4+rng.Intn(10))
		b[rng.Intn(len(b))] = '\n'
		return b
	case 5:
		b := randASCII(rng, 4+rng.Intn(10))
		b[rng.Intn(len(b))] = 0
		return b
	case 6:
		b := make([]byte, 1+rng.Intn(40))
		rng.Read(b)
		return b
	case 7:
		return randASCII(rng, 63)
	case 8:
		return randASCII(rng, 64)
	case 9:
		return randASCII(rng, 65)
	case 10:
		b := make([]byte, 1024+rng.Intn(3072))
		rng.Read(b)
		return b
	case 11:
		return []byte("pässwörd-" + string(randASCII(rng, 4)) + "-\xff\xfe")
	case 12:
		b := randASCII(rng, 3+rng.Intn(8))
		return append(b, 0, 0)
	default:
		return randASCII(rng, 8+rng.Intn(24))
	}
}

const asciiSet = "abcdefghijklmnopqrstuvwxyzABCDEFGHIJKLMNOPQRSTUVWXYZ0123456789 !#$%&()*+,-./;<=>?@[]^_{|}~"

func randASCII(rng *rand.Rand, n int) []byte {
	b := make([]byte, n)
	for i := range b {
		b[i] = asciiSet[rng.Intn(len(asciiSet))]
	}
	return b
}

const nameFirst = "abcdefghijklmnopqrstuvwxyzABCDEFGHIJKLMNOPQRSTUVWXYZ0123456789"
const nameRest = nameFirst + "-_.@"

// ValidName generates a schema-valid user name.
func ValidName(rng *rand.Rand) string {
	n := 1 + rng.Intn(12)
	b := make([]byte, n)
	b[0] = nameFirst[rng.Intn(len(nameFirst))]
	for i := 1; i < n; i++ {
		b[i] = nameRest[rng.Intn(len(nameRest))]
	}
	return string(b)
}

// NameValid applies the schema grammar ^[A-Za-z0-9][-_.@A-Za-z0-9]*$ without regexp.
func NameValid(s string) bool {
	if len(s) == 0 {
		return false
	}
	for i := 0; i < len(s); i++ {
		c := s[i]
		alnum := (c >= 'a' && c <= 'z') || (c >= 'A' && c <= 'Z') || (c >= '0' && c <= '9')
		if i == 0 {
			if !alnum {
				return false
			}
		} else if !alnum && c != '-' && c != '_' && c != '.' && c != '@' {
			return false
		}
	}
	return true
}

// NearMisses returns passwords close to pw that must not authenticate unless
// the parameter set maps them to the same key.
func NearMisses(rng *rand.Rand, pw []byte, all bool) [][]byte {
	var out [][]byte
	add := func(b []byte) { out = append(out, append([]byte{}, b...)) }
	// prefixes
	if all || len(pw) <= 12 {
		for i := 0; i < len(pw); i++ {
			add(pw[:i])
		}
	} else {
		add(pw[:len(pw)-1])
		add(pw[:len(pw)/2])
		add(pw[:1])
		add(pw[:0])
		for k := 0; k < 3; k++ {
			add(pw[:rng.Intn(len(pw))])
		}
	}
	for _, cut := range []int{8, 16, 32, 55, 56, 64, 72, 128, 255, 256} {
		if len(pw) > cut {
			add(pw[:cut])
		}
	}
	// extensions
	for _, c := range []byte{0, ' ', '\n', '\t', 'a', 0xff, '\r'} {
		add(append(append([]byte{}, pw...), c))
	}
	for _, c := range []byte{' ', '\n', '\t', 0} {
		add(append([]byte{c}, pw...))
	}
	add(append(append([]byte{}, pw...), pw...))
	add(append(append([]byte{}, pw...), 0, 0, 0, 0))
	// case change
	for i, c := range pw {
		if (c >= 'a' && c <= 'z') || (c >= 'A' && c <= 'Z') {
			b := append([]byte{}, pw...)
			b[i] ^= 0x20
			add(b)
			break
		}
	}
	add(bytes.ToUpper(pw))
	add(bytes.ToLower(pw))
	// bit flip
	if len(pw) > 0 {
		b := append([]byte{}, pw...)
		b[rng.Intn(len(b))] ^= 1 << uint(rng.Intn(8))
		add(b)
		b = append([]byte{}, pw...)
		b[len(b)-1] ^= 0x80
		add(b)
	}
	// sha256 of the password (equivalent for scrypt if len>64), hex of it
	h := sha256.Sum256(pw)
	add(h[:])
	add(bytes.TrimRight(pw, "\x00"))
	add(bytes.TrimSpace(pw))
	return out
}
