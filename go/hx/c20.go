package main

import (
	"bufio"
	"bytes"
	"encoding/hex"
	"fmt"
	"io"
	"math/rand"
	"net"
	"os"
	"os/exec"
	"path/filepath"
	"strconv"
	"strings"
	"sync"
	"syscall"
	"time"

	"github.com/whawty/auth/sasl"
	"github.com/whawty/auth/zz_verif/ref"
	"github.com/whawty/auth/zz_verif/vr"
)

func init() {
	stages["c20"] = func() { c20(false) }
	stages["c13pam"] = func() { c20(true) }
}

const (
	pamSuccess = 0
)

type c20Script struct {
	Name       string
	NoListener string // "", "missing", "regular-file", "too-long"
	Read       string // full | none | half
	Reply      []byte
	Chunks     []int
	DelayMs    int // before the first reply byte
	BetweenMs  int
	End        string // close | hold
	CloseEarly string // "", "before-read", "after-read"
	HoldMs     int
}

type c20Case struct {
	ID      string
	Class   string
	User    []byte // nil => pam_get_user fails
	Pw      []byte
	PwSrc   string
	Opts    []string
	Script  c20Script
	Wcap    int
	Rcap    int
	Eintr   int
	Errno0  int // errno on entry (0: untouched); models what an unrelated earlier system call of the host left behind
	WDelay  int // ms to sleep before the first socket write (the process being descheduled)
	Timeout int // seconds, as configured (default 3)
	Timing  bool
	Prefail int // logins attempted earlier in the same process while the agent's socket did not exist (a long-lived application)
}

type c20Obs struct {
	Accepted  bool
	Request   []byte
	SentBytes int
	SentAt    time.Duration // when the last reply byte was handed to the kernel, since accept
	Closed    bool
}

type c20Out struct {
	RC, Selects, Reads, Writes, Unguarded, NonFinite int
	MaxSelTimeout                                    float64
	ElapsedMs                                        int
	AuthtokSet                                       int
	Overwait                                         int // selects entered after more than twice the timeout had been waited (signal storm cases)
	Prefail, PrefailOK, LeakedPre, LeakedCase        int // earlier unreachable-agent logins in the process: run, reported as success; descriptors left open by them / by the case
	Finished                                         bool
}

func c20Part(payload []byte, announced int) []byte {
	if announced < 0 {
		announced = len(payload)
	}
	return append([]byte{byte(announced >> 8), byte(announced)}, payload...)
}

func c20Cases(rng *rand.Rand, encoderOnly bool) []c20Case {
	var out []c20Case
	n := 0
	add := func(class string, c c20Case) {
		n++
		c.ID = fmt.Sprintf("k%d", n)
		c.Class = class
		if c.Timeout == 0 {
			c.Timeout = 3
		}
		if c.PwSrc == "" {
			c.PwSrc = "stack"
			if len(c.Opts) == 0 {
				c.Opts = []string{"try_first_pass"}
			}
		}
		if c.Script.Read == "" {
			c.Script.Read = "full"
		}
		if c.Script.End == "" {
			c.Script.End = "close"
		}
		out = append(out, c)
	}
	okReply := c20Script{Name: "ok", Reply: c20Part([]byte("OK successfully authenticated"), -1)}
	noReply := c20Script{Name: "no", Reply: c20Part([]byte("NO wrong credentials"), -1)}
	fill := func(n int, binary bool) []byte {
		b := make([]byte, n)
		for i := range b {
			if binary {
				b[i] = byte(1 + (i*31+7)%255)
			} else {
				b[i] = 'a' + byte(i%26)
			}
		}
		return b
	}
	// G: users / passwords of all lengths, request must be the wire encoding of the clipped fields
	for _, ul := range []int{0, 1, 5, 255, 256, 257, 300, 4096} {
		for _, pl := range []int{0, 1, 8, 255, 256, 257, 4096} {
			for _, bin := range []bool{false, true} {
				if bin && (ul == 0 || pl == 0) {
					continue
				}
				s := okReply
				if (ul+pl)%2 == 1 {
					s = noReply
				}
				add("lengths", c20Case{User: fill(ul, bin), Pw: fill(pl, bin), Script: s})
			}
		}
	}
	// I: short writes / reads / EINTR
	for _, w := range []int{1, 2, 3, 7, 100} {
		for _, r := range []int{0, 1, 2} {
			add("short-io", c20Case{User: fill(20, false), Pw: fill(256, true), Script: okReply, Wcap: w, Rcap: r})
			add("short-io", c20Case{User: fill(256, true), Pw: fill(3, false), Script: noReply, Wcap: w, Rcap: r})
		}
	}
	if encoderOnly {
		return out
	}
	for _, e := range []int{1, 2, 4, 3, 7} {
		add("eintr", c20Case{User: []byte("alice"), Pw: []byte("secret"), Script: okReply, Eintr: e})
	}
	// a signal interrupts the first wait, or errno still says EINTR from an unrelated earlier call of the host application,
	// and the server then answers short, not at all, or normally
	for _, e := range []int{1, 4, 0} {
		for _, en := range []int{0, 4} { // 4 = EINTR
			if e == 0 && en == 0 {
				continue
			}
			cl := "eintr-then-short-reply"
			if en != 0 {
				cl = "stale-errno"
			}
			for _, cut := range []int{0, 1, 2, 3, 10} {
				add(cl, c20Case{User: []byte("alice"), Pw: []byte("secret"), Eintr: e, Errno0: en, Script: c20Script{Name: fmt.Sprintf("cut%d-close", cut), Reply: okReply.Reply[:cut]}})
			}
			add(cl, c20Case{User: []byte("alice"), Pw: []byte("secret"), Eintr: e, Errno0: en, Script: okReply})
			add(cl, c20Case{User: []byte("alice"), Pw: []byte("secret"), Eintr: e, Errno0: en, Script: noReply})
			add(cl, c20Case{User: []byte("alice"), Pw: []byte("secret"), Eintr: e, Errno0: en, Script: c20Script{Name: "payload:\"\"", Reply: c20Part(nil, -1)}})
		}
	}
	// a signal storm: every wait is interrupted after 0.3 x the timeout, a dozen times in a row, while the server is silent,
	// slow or normal: the module may give up early (failing closed) but must not keep waiting beyond the timeout
	for _, sc := range []c20Script{{Name: "silence", End: "hold", HoldMs: 6000}, okReply, noReply, {Name: "ok-after-2500ms", Reply: okReply.Reply, DelayMs: 2500, HoldMs: 500}} {
		add("signal-storm", c20Case{User: []byte("alice"), Pw: []byte("secret"), Timeout: 1, Opts: []string{"try_first_pass", "timeout=1"}, Eintr: 112, Script: sc})
	}
	// A: reply grammar
	payloads := []string{"OK", "NO", "O", "", "OKAY", "ok", "Ok", "oK", "OK successfully authenticated", "NO wrong credentials", "OK\x00", "\x00OK", "KO", " OK", "NOOK", "OK ", "N", "NOK", "0K", "OK\n", "YES", "TRUE", "1", "OKO", "O\x00K"}
	for _, p := range payloads {
		add("reply-grammar", c20Case{User: []byte("alice"), Pw: []byte("secret"), Script: c20Script{Name: "payload:" + vr.Q(p), Reply: c20Part([]byte(p), -1)}})
		add("reply-grammar", c20Case{User: []byte("alice"), Pw: []byte("secret"), Opts: []string{"debug", "try_first_pass"}, Script: c20Script{Name: "payload:" + vr.Q(p), Reply: c20Part([]byte(p), -1)}})
	}
	// state left over from the previous authentication of the same process: a positive reply directly followed by
	// replies too short to say anything
	for rep := 0; rep < 2; rep++ {
		for _, p := range []string{"", "O", "N", "\x00"} {
			add("after-ok", c20Case{User: []byte("alice"), Pw: []byte("secret"), Script: okReply})
			add("after-ok", c20Case{User: []byte("alice"), Pw: []byte("secret"), Script: c20Script{Name: "payload-after-ok:" + vr.Q(p), Reply: c20Part([]byte(p), -1)}})
		}
	}
	for _, l := range []int{3, 255, 256, 257, 258, 300, 1024, 65535} {
		for _, pre := range []string{"OK", "NO", "XX"} {
			p := append([]byte(pre), fill(l-2, false)...)
			for _, opts := range [][]string{{"try_first_pass"}, {"debug", "try_first_pass"}} {
				add("reply-long", c20Case{User: []byte("alice"), Pw: []byte("secret"), Opts: opts, Script: c20Script{Name: fmt.Sprintf("len%d-%s", l, pre), Reply: c20Part(p, -1)}})
			}
		}
	}
	// announced length differs from what is sent
	for _, c := range []struct {
		ann  int
		sent string
		end  string
	}{{10, "OK", "close"}, {10, "OK", "hold"}, {2, "OKgarbage-after", "close"}, {0, "OK", "close"}, {1, "OK", "close"}, {3, "OK", "close"}, {65535, "OK", "close"}, {300, "OK", "close"}, {257, "NO", "hold"}, {2, "O", "close"}, {2, "O", "hold"}} {
		add("reply-length-mismatch", c20Case{User: []byte("alice"), Pw: []byte("secret"), Timeout: 1, Opts: []string{"try_first_pass", "timeout=1"}, Script: c20Script{Name: fmt.Sprintf("announced%d-sent%q-%s", c.ann, c.sent, c.end), Reply: c20Part([]byte(c.sent), c.ann), End: c.end, HoldMs: 2500}})
	}
	// B: reply cut at every byte, then close / then silence
	full := okReply.Reply
	for i := 0; i < len(full); i++ {
		add("reply-cut", c20Case{User: []byte("alice"), Pw: []byte("secret"), Script: c20Script{Name: fmt.Sprintf("cut%d-close", i), Reply: full[:i]}})
		if i < 6 || i%6 == 0 {
			add("reply-cut-silence", c20Case{User: []byte("alice"), Pw: []byte("secret"), Timeout: 1, Opts: []string{"try_first_pass", "timeout=1"}, Timing: true, Script: c20Script{Name: fmt.Sprintf("cut%d-hold", i), Reply: full[:i], End: "hold", HoldMs: 2500}})
		}
	}
	// C: dribble
	ones := make([]int, len(full))
	for i := range ones {
		ones[i] = 1
	}
	add("dribble", c20Case{User: []byte("alice"), Pw: []byte("secret"), Script: c20Script{Name: "1-byte-dribble", Reply: full, Chunks: ones, BetweenMs: 2}})
	add("dribble", c20Case{User: []byte("alice"), Pw: []byte("secret"), Rcap: 1, Script: c20Script{Name: "1-byte-dribble-rcap1", Reply: noReply.Reply, Chunks: ones[:len(noReply.Reply)], BetweenMs: 1}})
	add("dribble", c20Case{User: []byte("alice"), Pw: []byte("secret"), Script: c20Script{Name: "split-after-length", Reply: full, Chunks: []int{2, len(full) - 2}, BetweenMs: 20}})
	add("dribble", c20Case{User: []byte("alice"), Pw: []byte("secret"), Script: c20Script{Name: "split-inside-length", Reply: full, Chunks: []int{1, len(full) - 1}, BetweenMs: 20}})
	// D: early close / no read
	add("early-close", c20Case{User: []byte("alice"), Pw: fill(256, false), Script: c20Script{Name: "close-before-read", Read: "none", CloseEarly: "before-read"}})
	add("early-close", c20Case{User: fill(4096, false), Pw: fill(4096, false), Script: c20Script{Name: "close-before-read-long", Read: "none", CloseEarly: "before-read"}})
	add("early-close", c20Case{User: []byte("alice"), Pw: []byte("secret"), Script: c20Script{Name: "close-after-read", CloseEarly: "after-read"}})
	// the server has already closed when the module (descheduled for a moment) starts to write
	add("early-close-before-write", c20Case{User: []byte("alice"), Pw: []byte("secret"), WDelay: 300, Script: c20Script{Name: "close-before-read", Read: "none", CloseEarly: "before-read"}})
	add("early-close-before-write", c20Case{User: fill(256, true), Pw: fill(256, true), WDelay: 300, Opts: []string{"debug", "try_first_pass"}, Script: c20Script{Name: "close-before-read", Read: "none", CloseEarly: "before-read"}})
	add("early-close-mid-request", c20Case{User: fill(200, false), Pw: fill(200, false), Wcap: 3, WDelay: 200, Script: c20Script{Name: "read-half-then-close", Read: "half", CloseEarly: "after-read"}})
	add("early-close", c20Case{User: []byte("alice"), Pw: []byte("secret"), Script: c20Script{Name: "reply-ok-without-reading-request", Read: "none", Reply: full}})
	add("early-close", c20Case{User: []byte("alice"), Pw: []byte("secret"), Script: c20Script{Name: "read-half-then-reply-no", Read: "half", Reply: noReply.Reply}})
	// E: unreachable
	for _, k := range []string{"missing", "regular-file", "too-long", "directory"} {
		add("unreachable", c20Case{User: []byte("alice"), Pw: []byte("secret"), Script: c20Script{Name: k, NoListener: k}})
	}
	// E2: the application has lived through an outage: more failed logins (agent socket missing) than FD_SETSIZE, then the agent is back
	add("after-outage", c20Case{User: []byte("alice"), Pw: []byte("secret"), Prefail: 1100, Script: okReply})
	add("after-outage", c20Case{User: []byte("alice"), Pw: []byte("secret"), Prefail: 1100, Opts: []string{"debug", "try_first_pass"}, Script: noReply})
	add("after-outage", c20Case{User: fill(256, false), Pw: fill(256, false), Prefail: 1300, Script: c20Script{Name: "close-before-read", Read: "none", CloseEarly: "before-read"}})
	// F: timing on both sides of the timeout (timeout=1)
	for _, d := range []int{200, 400} {
		add("timing-inside", c20Case{User: []byte("alice"), Pw: []byte("secret"), Timeout: 1, Timing: true, Opts: []string{"try_first_pass", "timeout=1"}, Script: c20Script{Name: fmt.Sprintf("ok-after-%dms", d), Reply: full, DelayMs: d}})
	}
	for _, d := range []int{2200, 3000} {
		add("timing-outside", c20Case{User: []byte("alice"), Pw: []byte("secret"), Timeout: 1, Timing: true, Opts: []string{"try_first_pass", "timeout=1"}, Script: c20Script{Name: fmt.Sprintf("ok-after-%dms", d), Reply: full, DelayMs: d, HoldMs: 500}})
	}
	add("timing-silence", c20Case{User: []byte("alice"), Pw: []byte("secret"), Timeout: 1, Timing: true, Opts: []string{"try_first_pass", "timeout=1"}, Script: c20Script{Name: "silence", End: "hold", HoldMs: 3000}})
	add("timing-silence", c20Case{User: []byte("alice"), Pw: []byte("secret"), Timeout: 1, Timing: true, Opts: []string{"try_first_pass", "timeout=1"}, Script: c20Script{Name: "silence-without-reading", Read: "none", End: "hold", HoldMs: 3000}})
	// H: option combinations x password sources
	base := []string{"debug", "try_first_pass", "use_first_pass", "not_set_pass"}
	for mask := 0; mask < 16; mask++ {
		var opts []string
		for i, o := range base {
			if mask>>i&1 == 1 {
				opts = append(opts, o)
			}
		}
		for _, src := range []string{"stack", "conv", "conv-fail", "conv-null", "conv-again", "none"} {
			s := okReply
			if mask%2 == 1 {
				s = noReply
			}
			add("options", c20Case{User: []byte("alice"), Pw: []byte("secret"), PwSrc: src, Opts: append([]string{"unknown_option"}, opts...), Script: s})
		}
	}
	for _, t := range []string{"timeout=", "timeout=0", "timeout=-1", "timeout=abc", "timeout=1x", "timeout=86400", "timeout=2", "timeout=000001", "timeout=+2", "timeout= 2", "sock=", "sock", "PAM_SILENT", "debug,PAM_SILENT", "sock=/nonexistent/first", "timeout=1,timeout=0", "=", ",,"} {
		add("options-values", c20Case{User: []byte("alice"), Pw: []byte("secret"), PwSrc: "stack", Opts: append([]string{"try_first_pass"}, strings.Split(t, ",")...), Script: okReply})
	}
	add("no-user", c20Case{User: nil, Pw: []byte("secret"), Script: okReply})
	return out
}

// c20EffectivePw: which password the module obtains in this harness (nil, false = acquisition fails).
// pwsrc: stack = PAM_AUTHTOK holds the password, conversation would return "";
//
//	conv = nothing on the stack, conversation returns the password; none = nothing on the stack, conversation returns "".
func c20EffectivePw(c c20Case) ([]byte, bool) {
	use, try := false, false
	for _, o := range c.Opts {
		if o == "use_first_pass" {
			use = true
		}
		if o == "try_first_pass" {
			try = true
		}
	}
	if (use || try) && c.PwSrc == "stack" {
		return c.Pw, true
	}
	if use {
		return nil, false
	}
	switch c.PwSrc {
	case "conv":
		return c.Pw, true
	case "stack", "none":
		return []byte{}, true
	}
	return nil, false // conv-fail, conv-null, conv-again
}

// c20Expect computes from the script what the module must do.
func c20Expect(c c20Case) (success bool, pwFail bool) {
	if c.User == nil {
		return false, true
	}
	if _, ok := c20EffectivePw(c); !ok {
		return false, true
	}
	s := c.Script
	if s.NoListener != "" || s.CloseEarly != "" {
		return false, false
	}
	r := s.Reply
	if len(r) < 2 {
		return false, false
	}
	L := int(r[0])<<8 | int(r[1])
	l := L
	if l > 256 {
		l = 256
	}
	if len(r)-2 < l {
		return false, false
	}
	if s.DelayMs >= c.Timeout*1000 {
		return false, false
	}
	return l >= 2 && r[2] == 'O' && r[3] == 'K', false
}

func c20(encoderOnly bool) {
	prop, stage, pfx := "C20", "module", "c20"
	if encoderOnly {
		prop, stage, pfx = "C13", "pam-encoder", "c13:pam"
	}
	R := vr.New(prop, stage, "pam_whawty.c compiled unmodified with clang ASan+UBSan against stub PAM headers, driven by a scripted unix-socket server: users/passwords of length 0..4096 (binary), all 16 combinations of {debug,try_first_pass,use_first_pass,not_set_pass} x 6 password sources, invalid option values, every reply from a grammar (OK/NO/O/OKAY/ok/NUL..., lengths 0..65535, announced length != sent), positive replies directly followed in the same process by replies of 0-1 bytes, a reply cut at every byte (then close / then silence), 1-byte dribble, early close, no listener, replies on both sides of the timeout, short writes/reads and EINTR injected through syscall wrappers, EINTR or a stale errno==EINTR on entry combined with cut / empty / normal replies (a spin guard stops a case after 200000 select calls). Oracle: the return code is PAM_SUCCESS exactly when the bytes the module can have read as the reply begin with OK; the bytes the server received equal the saslauthd encoding of (user[:256], password[:256], '', ''); every socket read/write is preceded by a select with a finite timeout that reported readiness and the number of selects is bounded by the bytes transferred. Non-trivial: every case other than a plain OK reply to a short user/password; distinct by (user, password, options, script, caps)")
	defer R.Write()
	rng := R.Rand("c20")
	pamh := filepath.Join(os.Getenv("VERIF_BIN"), "pamh")
	if _, err := os.Stat(pamh); err != nil {
		R.Fatal = "pamh not built: " + pamh
		return
	}
	dir := filepath.Join(workDir(), "c20")
	os.RemoveAll(dir)                          //nolint:errcheck
	os.MkdirAll(filepath.Join(dir, "s"), 0700) //nolint:errcheck
	cases := c20Cases(rng, encoderOnly)
	valgrind := os.Getenv("VERIF_PAMH_VALGRIND") == "1"
	if valgrind {
		// memcheck pass: uninstrumented build, no timing-dependent cases
		pamh = filepath.Join(os.Getenv("VERIF_BIN"), "pamh-plain")
		R.Stage = "memcheck"
		var keep []c20Case
		for _, c := range cases {
			if !c.Timing && c.Script.End != "hold" && c.Script.DelayMs == 0 && len(c.User) <= 300 && len(c.Pw) <= 300 {
				keep = append(keep, c)
			}
		}
		cases = keep
	}
	obs := map[string]*c20Obs{}
	var omu sync.Mutex
	var listeners []net.Listener
	sockOf := map[string]string{}
	for i := range cases {
		c := &cases[i]
		o := &c20Obs{}
		obs[c.ID] = o
		p := filepath.Join(dir, "s", c.ID+".sock")
		switch c.Script.NoListener {
		case "missing":
			sockOf[c.ID] = p
			continue
		case "regular-file":
			os.WriteFile(p, []byte("x"), 0600) //nolint:errcheck
			sockOf[c.ID] = p
			continue
		case "directory":
			os.Mkdir(p, 0700) //nolint:errcheck
			sockOf[c.ID] = p
			continue
		case "too-long":
			sockOf[c.ID] = filepath.Join(dir, strings.Repeat("x", 200)+".sock")
			continue
		}
		ln, err := net.Listen("unix", p)
		if err != nil {
			R.Fatal = err.Error()
			return
		}
		listeners = append(listeners, ln)
		sockOf[c.ID] = p
		go c20Serve(ln, c.Script, o, &omu)
	}
	defer func() {
		for _, l := range listeners {
			l.Close() //nolint:errcheck
		}
	}()
	// batches: non-timing cases in chunks of 40, timing cases one per process; 8 processes at a time
	var batches [][]c20Case
	var cur []c20Case
	for _, c := range cases {
		if c.Timing || c.Script.End == "hold" {
			batches = append(batches, []c20Case{c})
			continue
		}
		cur = append(cur, c)
		if len(cur) == 40 {
			batches = append(batches, cur)
			cur = nil
		}
	}
	if len(cur) > 0 {
		batches = append(batches, cur)
	}
	results := map[string]*c20Out{}
	vgMsg := map[string]string{}
	spun := map[string]string{}
	died := map[string]string{}
	diedCode := map[string]int{}
	var rmu sync.Mutex
	sem := make(chan struct{}, 12)
	var wg sync.WaitGroup
	var runBatch func(name string, b []c20Case)
	runBatch = func(name string, b []c20Case) {
		f := filepath.Join(dir, name+".txt")
		var sb strings.Builder
		for _, c := range b {
			u := "-"
			if c.User != nil {
				u = hex.EncodeToString(c.User)
			}
			fmt.Fprintf(&sb, "%s\t%s\t%s\t%s\t%s\t%s\t%d\t%d\t%d\t%d\t%d\t%d\n", c.ID, u, hex.EncodeToString(c.Pw), c.PwSrc, strings.Join(c.Opts, ","), sockOf[c.ID], c.Wcap, c.Rcap, c.Eintr, c.WDelay, map[bool]int{true: c.Errno0, false: -1}[c.Errno0 > 0], map[bool]int{true: 0, false: c.Prefail}[valgrind])
		}
		os.WriteFile(f, []byte(sb.String()), 0600) //nolint:errcheck
		cmd := exec.Command("timeout", "-s", "KILL", "120", pamh, f)
		if valgrind {
			cmd = exec.Command("timeout", "-s", "KILL", "900", "valgrind", "-q", "--log-fd=1", "--error-exitcode=97", "--leak-check=full", "--errors-for-leak-kinds=definite,indirect", "--track-origins=yes", pamh, f)
		}
		cmd.Env = append(os.Environ(), "ASAN_OPTIONS=abort_on_error=0:detect_leaks=1:exitcode=99", "UBSAN_OPTIONS=print_stacktrace=1:halt_on_error=1:exitcode=98")
		var stderr bytes.Buffer
		cmd.Stderr = &stderr
		stdout, _ := cmd.Output()
		rmu.Lock()
		last := ""
		finished := map[string]bool{}
		sc := bufio.NewScanner(bytes.NewReader(stdout))
		sc.Buffer(make([]byte, 1<<20), 1<<24)
		for sc.Scan() {
			if valgrind && strings.HasPrefix(sc.Text(), "==") {
				// memcheck reports go to the same stream as the BEGIN/END lines, so they are attributed to the running case
				who := last
				if who == "" {
					who = "at-exit:" + name
				}
				if len(vgMsg[who]) < 6000 {
					vgMsg[who] += sc.Text() + "\n"
				}
				continue
			}
			f := strings.Split(sc.Text(), "\t")
			if f[0] == "SPIN" && len(f) >= 3 {
				spun[f[1]] = f[2]
			}
			if f[0] == "BEGIN" {
				last = f[1]
				results[last] = &c20Out{}
			}
			if f[0] == "END" && len(f) >= 11 {
				o := results[f[1]]
				o.Finished = true
				finished[f[1]] = true
				o.RC, _ = strconv.Atoi(f[2])
				o.Selects, _ = strconv.Atoi(f[3])
				o.Reads, _ = strconv.Atoi(f[4])
				o.Writes, _ = strconv.Atoi(f[5])
				o.Unguarded, _ = strconv.Atoi(f[6])
				o.NonFinite, _ = strconv.Atoi(f[7])
				o.MaxSelTimeout, _ = strconv.ParseFloat(f[8], 64)
				o.ElapsedMs, _ = strconv.Atoi(f[9])
				o.AuthtokSet, _ = strconv.Atoi(f[10])
				if len(f) >= 12 {
					o.Overwait, _ = strconv.Atoi(f[11])
				}
				if len(f) >= 16 {
					o.Prefail, _ = strconv.Atoi(f[12])
					o.PrefailOK, _ = strconv.Atoi(f[13])
					o.LeakedPre, _ = strconv.Atoi(f[14])
					o.LeakedCase, _ = strconv.Atoi(f[15])
				}
				last = ""
			}
		}
		var rest []c20Case
		if st := cmd.ProcessState; st != nil && st.ExitCode() != 0 && last != "" {
			msg := stderr.String()
			if len(msg) > 3000 {
				msg = msg[:3000]
			}
			died[last] = msg
			diedCode[last] = st.ExitCode()
			if ws, ok := st.Sys().(syscall.WaitStatus); ok && ws.Signaled() {
				diedCode[last] = -int(ws.Signal())
			}
			after := false
			for _, c := range b {
				if after {
					rest = append(rest, c)
				}
				if c.ID == last {
					after = true
				}
			}
		}
		rmu.Unlock()
		if len(rest) > 0 {
			runBatch(name+"r", rest) // the process died in the middle of the batch: run the remaining cases in a fresh one
		}
	}
	for bi, b := range batches {
		wg.Add(1)
		sem <- struct{}{}
		go func(bi int, b []c20Case) {
			defer wg.Done()
			defer func() { <-sem }()
			runBatch(fmt.Sprintf("batch%d", bi), b)
		}(bi, b)
	}
	wg.Wait()
	time.Sleep(100 * time.Millisecond)
	// judge
	for who, msg := range vgMsg {
		if strings.HasPrefix(who, "at-exit:") {
			R.Violate(pfx+":memcheck:at-exit:"+c20VgKind(msg), "valgrind memcheck reported at process exit: "+c20VgKind(msg), who, msg)
		}
	}
	for _, c := range cases {
		if msg := vgMsg[c.ID]; msg != "" {
			R.Violate(pfx+":memcheck:"+c20VgKind(msg)+":"+c.Class, "valgrind memcheck reported while this case ran: "+c20VgKind(msg), c.ID, map[string]any{"class": c.Class, "server_script": c.Script.Name, "reply": vr.Hex(c.Script.Reply), "options": c.Opts, "memcheck": msg})
		}
		o := results[c.ID]
		omu.Lock()
		so := *obs[c.ID]
		omu.Unlock()
		key := fmt.Sprintf("%x|%x|%s|%v|%s|%x|%v|%d|%d|%d", c.User, c.Pw, c.PwSrc, c.Opts, c.Script.Name, c.Script.Reply, c.Script.Chunks, c.Wcap, c.Rcap, c.Eintr*100+c.Errno0)
		R.Case(key, !(c.Class == "lengths" && len(c.User) < 10 && len(c.Pw) < 10))
		R.Count("class:"+c.Class, 1)
		wit := map[string]any{"class": c.Class, "user_len": len(c.User), "password_len": len(c.Pw), "password_source": c.PwSrc, "options": c.Opts, "server_script": c.Script.Name, "reply": vr.Hex(c.Script.Reply), "wcap": c.Wcap, "rcap": c.Rcap, "eintr": c.Eintr, "server_received": vr.Hex(so.Request)}
		if msg, d := died[c.ID]; d {
			sig := pfx + ":process-died"
			switch {
			case strings.Contains(msg, "AddressSanitizer") || strings.Contains(msg, "LeakSanitizer"):
				sig = pfx + ":asan:" + c20AsanKind(msg)
			case strings.Contains(msg, "runtime error"):
				sig = pfx + ":ubsan"
			case spun[c.ID] != "":
				sig = pfx + ":busy-loop"
				msg = "the module made more than " + spun[c.ID] + " select calls in this one authentication (no case transfers more than 70000 bytes): it spins instead of returning; harness stopped the process"
			case diedCode[c.ID] == 97:
				sig = pfx + ":memcheck"
			case diedCode[c.ID] == 137 || diedCode[c.ID] == -int(syscall.SIGKILL):
				sig = pfx + ":no-return-within-watchdog"
			case diedCode[c.ID] == -int(syscall.SIGPIPE):
				sig = pfx + ":process-killed-by-SIGPIPE"
			case diedCode[c.ID] < 0:
				sig = fmt.Sprintf("%s:process-killed-by-signal-%d", pfx, -diedCode[c.ID])
			}
			wit["stderr"] = msg
			if strings.HasSuffix(sig, ":no-return-within-watchdog") {
				R.Inconcl("pam process killed by the 120 s watchdog in case " + c.ID)
			}
			R.Violate(sig+":"+c.Class, fmt.Sprintf("the module's process died (exit code %d) while executing this case: %s", diedCode[c.ID], strings.SplitN(msg, "\n", 3)[0]), c.ID, wit)
			continue
		}
		if o == nil || !o.Finished {
			R.Inconcl("no result for case " + c.ID)
			continue
		}
		wit["rc"] = o.RC
		wit["selects"], wit["reads"], wit["writes"], wit["elapsed_ms"] = o.Selects, o.Reads, o.Writes, o.ElapsedMs
		want, pwFail := c20Expect(c)
		// timing cases: decide only when the server's own record is clearly on one side
		if c.Timing && c.Script.DelayMs > 0 {
			if c.Script.DelayMs*2 <= c.Timeout*1000 {
				if so.SentAt > time.Duration(c.Timeout)*time.Second/2+300*time.Millisecond {
					R.Inconcl("server was late in a timing-inside case")
					continue
				}
			} else if c.Script.DelayMs < 2*c.Timeout*1000 {
				R.Inconcl("timing case inside the undecided band")
				continue
			}
		}
		if (c.Eintr != 0 || c.Script.Read != "full") && want && o.RC != pamSuccess {
			// an interrupted system call, or a server that answers and closes without reading the request
			// (the module's own write may then fail), may make the module give up: failing closed is allowed
			R.Count("eintr_gave_up", 1)
		} else if (o.RC == pamSuccess) != want {
			kind := "success-without-ok"
			if want {
				kind = "ok-reply-not-accepted"
			}
			R.Violate(fmt.Sprintf(pfx+":%s:%s", kind, c.Class), fmt.Sprintf("return code %d; the reply the module can have read %s begin with OK (script %s, password source %s, options %v)", o.RC, map[bool]string{true: "does", false: "does not"}[want], c.Script.Name, c.PwSrc, c.Opts), c.ID, wit)
		}
		if want {
			R.Count("expected_success", 1)
		} else {
			R.Count("expected_failure", 1)
		}
		// request bytes
		if !pwFail && c.Eintr == 0 && c.Script.NoListener == "" && c.Script.Read == "full" && c.Script.CloseEarly == "" && so.Accepted {
			clip := func(b []byte) []byte {
				if len(b) > 256 {
					return b[:256]
				}
				return b
			}
			pw, _ := c20EffectivePw(c)
			wantReq := ref.EncodeParts(clip(c.User), clip(pw), nil, nil)
			R.Count("requests_compared", 1)
			if !bytes.Equal(so.Request, wantReq) {
				R.Violate(pfx+":request-bytes-differ:"+c.Class, fmt.Sprintf("the bytes the server received (%d) are not the saslauthd encoding of (user[:256], password[:256], '', '') (%d bytes)", len(so.Request), len(wantReq)), c.ID, wit)
			} else if len(c.User) <= 256 && len(pw) <= 256 {
				// same bytes as the Go encoder for the same fields
				q := sasl.Request{Login: string(clip(c.User)), Password: string(clip(pw))}
				if g, err := q.Marshal(); err == nil && !bytes.Equal(g, so.Request) {
					R.Violate("c13:pam-encoder-differs-from-go-encoder", "bytes differ", c.ID, wit)
				}
				R.Count("encoder_comparisons", 1)
			}
		}
		// a long-lived application: the earlier logins without a reachable agent
		if o.Prefail > 0 {
			R.Count("earlier_unreachable_logins_in_process", o.Prefail)
			R.Count("cases_after_many_unreachable_logins", 1)
			if o.PrefailOK > 0 {
				R.Violate(pfx+":success-without-reachable-agent", fmt.Sprintf("%d of %d logins succeeded although the agent's socket does not exist", o.PrefailOK, o.Prefail), c.ID, wit)
			}
		}
		if o.LeakedPre > 0 || o.LeakedCase > 0 {
			R.Count("descriptors_left_open_by_the_module", o.LeakedPre+o.LeakedCase) // evidence only: decided by the sanitizers once the numbers reach FD_SETSIZE
		}
		// bounded time, logically
		transferred := len(so.Request) + so.SentBytes
		if o.Unguarded > 0 {
			R.Violate(pfx+":socket-io-without-select:"+c.Class, fmt.Sprintf("%d socket reads/writes were not preceded by a select that reported readiness", o.Unguarded), c.ID, wit)
		}
		if o.NonFinite > 0 {
			R.Violate(pfx+":select-without-finite-timeout:"+c.Class, "select called with no or an absurd timeout", c.ID, wit)
		}
		if o.Overwait > 0 {
			R.Violate(pfx+":wait-restarted-beyond-timeout:"+c.Class, fmt.Sprintf("with signals interrupting every wait after 0.3 x the timeout the module entered select %d more times after it had already waited more than twice the timeout for the same transfer (each interruption restarts the full timeout)", o.Overwait), c.ID, wit)
		}
		if o.Selects > 2*transferred+2*len(c.User)+2*len(c.Pw)+16 {
			R.Violate(pfx+":select-spin:"+c.Class, fmt.Sprintf("%d select calls for %d bytes transferred", o.Selects, transferred), c.ID, wit)
		}
		// the select timeout is the configured one (valid positive integer), else the default of 3 s
		confT := 3.0
		for _, op := range c.Opts {
			if strings.HasPrefix(op, "timeout=") {
				if v, err := strconv.Atoi(strings.TrimSpace(strings.TrimPrefix(op, "timeout="))); err == nil && v > 0 {
					confT = float64(v)
				}
			}
		}
		if o.Selects > 0 && o.MaxSelTimeout > confT+0.001 && !(confT == 3.0 && o.MaxSelTimeout <= 3.001) {
			R.Violate(pfx+":select-timeout-exceeds-configured:"+c.Class, fmt.Sprintf("select timeout %.0f s, configured/default %.0f s (options %v)", o.MaxSelTimeout, confT, c.Opts), c.ID, wit)
		}
		// not_set_pass honoured / AUTHTOK set after a conversation
		hasNSP := false
		for _, op := range c.Opts {
			if op == "not_set_pass" {
				hasNSP = true
			}
		}
		if hasNSP && o.AuthtokSet > 0 {
			R.Violate(pfx+":not-set-pass-ignored", "PAM_AUTHTOK was set although not_set_pass is given", c.ID, wit)
		}
		if len(R.Samples) < 6 && (c.Class == "reply-grammar" || c.Class == "reply-cut" || c.Class == "options") && len(R.Samples)%2 == 0 {
			R.Sample(wit)
		}
	}
	R.Set("cases", len(cases))
}

func c20AsanKind(msg string) string {
	for _, k := range []string{"stack-buffer-overflow", "heap-buffer-overflow", "heap-use-after-free", "global-buffer-overflow", "stack-use-after", "double-free", "LeakSanitizer", "SEGV"} {
		if strings.Contains(msg, k) {
			return k
		}
	}
	return "other"
}

func c20Serve(ln net.Listener, s c20Script, o *c20Obs, mu *sync.Mutex) {
	for {
		conn, err := ln.Accept()
		if err != nil {
			return
		}
		t0 := time.Now()
		mu.Lock()
		o.Accepted = true
		mu.Unlock()
		func() {
			defer conn.Close() //nolint:errcheck
			if s.CloseEarly == "before-read" {
				return
			}
			var req []byte
			switch s.Read {
			case "full":
				req = c20ReadRequest(conn, 4)
			case "half":
				req = c20ReadRequest(conn, 2)
			}
			mu.Lock()
			o.Request = req
			mu.Unlock()
			if s.CloseEarly == "after-read" {
				return
			}
			if s.DelayMs > 0 {
				time.Sleep(time.Duration(s.DelayMs) * time.Millisecond)
			}
			rest := s.Reply
			chunks := s.Chunks
			if len(chunks) == 0 {
				chunks = []int{len(rest)}
			}
			sent := 0
			for _, n := range chunks {
				if n > len(rest) {
					n = len(rest)
				}
				if n == 0 {
					continue
				}
				if _, err := conn.Write(rest[:n]); err != nil {
					break
				}
				sent += n
				rest = rest[n:]
				if s.BetweenMs > 0 {
					time.Sleep(time.Duration(s.BetweenMs) * time.Millisecond)
				}
			}
			mu.Lock()
			o.SentBytes = sent
			o.SentAt = time.Since(t0)
			mu.Unlock()
			if s.End == "hold" {
				// keep the connection open and silent; return when the client goes away or after HoldMs
				conn.SetReadDeadline(time.Now().Add(time.Duration(s.HoldMs) * time.Millisecond)) //nolint:errcheck
				io.Copy(io.Discard, conn)                                                        //nolint:errcheck
			}
		}()
	}
}

// c20ReadRequest reads n length-prefixed parts (no limit on part length) or until EOF / 5 s.
func c20ReadRequest(conn net.Conn, n int) []byte {
	conn.SetReadDeadline(time.Now().Add(5 * time.Second)) //nolint:errcheck
	defer conn.SetReadDeadline(time.Time{})               //nolint:errcheck
	var out []byte
	hdr := make([]byte, 2)
	for i := 0; i < n; i++ {
		if _, err := io.ReadFull(conn, hdr); err != nil {
			return out
		}
		out = append(out, hdr...)
		l := int(hdr[0])<<8 | int(hdr[1])
		b := make([]byte, l)
		k, err := io.ReadFull(conn, b)
		out = append(out, b[:k]...)
		if err != nil {
			return out
		}
	}
	return out
}

// c20VgKind: the first report line of a memcheck message, as a slug.
func c20VgKind(msg string) string {
	for _, l := range strings.Split(msg, "\n") {
		if i := strings.Index(l, "== "); i >= 0 {
			t := strings.TrimSpace(l[i+3:])
			if t == "" {
				continue
			}
			t = strings.ToLower(t)
			var sb strings.Builder
			for _, r := range t {
				switch {
				case r >= 'a' && r <= 'z':
					sb.WriteRune(r)
				case r == ' ' || r == '-':
					sb.WriteByte('-')
				}
			}
			s := sb.String()
			if len(s) > 60 {
				s = s[:60]
			}
			return s
		}
	}
	return "report"
}
