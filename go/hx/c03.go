package main

import (
	"encoding/json"
	"fmt"
	"math/rand"
	"os"
	"path/filepath"
	"runtime"
	"strings"
	"syscall"
	"time"
	"unicode/utf8"

	"github.com/whawty/auth/store"
	"github.com/whawty/auth/zz_verif/ref"
	"github.com/whawty/auth/zz_verif/vr"
)

func init() {
	stages["c03"] = c03
	stages["c03drv"] = c03drv
}

type c03Box struct {
	root, base, sibling string
	cfg                 string
	sets                []ref.ParamSet
	d                   *store.Dir
}

func c03Pw(user string) string { return "pw-of-" + user }

// c03Build creates root/{base,sibling,decoys}: two valid stores and decoy files.
func c03Build(rng *rand.Rand, root string) (*c03Box, error) {
	os.RemoveAll(root) //nolint:errcheck
	b := &c03Box{root: root, base: filepath.Join(root, "base"), sibling: filepath.Join(root, "sibling")}
	b.sets = ref.CheapSets(rng, 2)
	now := time.Now().Unix() - 1000
	plant := func(dir, file, user string) {
		ps := b.sets[rng.Intn(2)]
		salt := make([]byte, ps.SaltLen())
		rng.Read(salt)
		os.WriteFile(filepath.Join(dir, file), []byte(ps.Record([]byte(c03Pw(user)), salt, now)+"\n"), 0600) //nolint:errcheck
	}
	for _, d := range []string{b.base, b.sibling, filepath.Join(root, "decoys"), filepath.Join(b.base, ".tmp"), filepath.Join(b.sibling, ".tmp")} {
		if err := os.MkdirAll(d, 0700); err != nil {
			return nil, err
		}
	}
	plant(b.base, "root.admin", "root")
	plant(b.base, "alice.user", "alice")
	plant(b.base, "bob.admin", "bob")
	plant(b.sibling, "root.admin", "root")
	plant(b.sibling, "victim.user", "victim")
	plant(b.sibling, "boss.admin", "boss")
	plant(filepath.Join(root, "decoys"), "decoy.user", "decoy")
	plant(filepath.Join(root, "decoys"), "decoy.admin", "decoy")
	os.WriteFile(filepath.Join(root, "decoys", "plain.txt"), []byte("decoy\n"), 0600) //nolint:errcheck
	plant(root, "top.user", "top")
	plant(root, "base.user", "base") // <root>/base.user : sibling of the base dir itself
	b.cfg = filepath.Join(root, "store.yml")
	os.WriteFile(b.cfg, []byte(ref.YAML(b.base, 1, b.sets)), 0600) //nolint:errcheck
	var err error
	b.d, err = store.NewDirFromConfig(b.cfg)
	return b, err
}

type c03Name struct {
	Name   string
	Class  string
	AuthPw string // password that would succeed if the name were resolved as a path
}

// c03Names builds the hostile name corpus plus a control group of valid names.
func c03Names(b *c03Box) (hostile []c03Name, control []string) {
	add := func(class, name, alias string) {
		hostile = append(hostile, c03Name{Name: name, Class: class, AuthPw: c03Pw(alias)})
	}
	add("dotdot-sibling", "../sibling/victim", "victim")
	add("dotdot-sibling", "../sibling/boss", "boss")
	add("dotdot-sibling", "../sibling/root", "root")
	add("dotdot-decoy", "../decoys/decoy", "decoy")
	add("dotdot-top", "../top", "top")
	add("dotdot-base-itself", "../base", "base")
	add("absolute", b.sibling+"/victim", "victim")
	add("absolute", b.base+"/alice", "alice")
	add("absolute", "/"+b.base+"/alice", "alice")
	add("cleans-to-valid", "./alice", "alice")
	add("cleans-to-valid", "x/../alice", "alice")
	add("cleans-to-valid", "alice/", "alice")
	add("cleans-to-valid", "alice/.", "alice")
	add("cleans-to-valid", "//alice", "alice")
	add("cleans-to-valid", ".tmp/../alice", "alice")
	add("cleans-to-valid", "alice.user/../bob", "bob")
	add("cleans-to-valid", "./root", "root")
	add("deep-dotdot", "../../"+filepath.Base(b.root)+"/sibling/victim", "victim")
	add("alnum-start-then-path", "x/../../sibling/victim", "victim")
	add("alnum-start-then-path", "alice/../../sibling/boss", "boss")
	add("alnum-start-then-path", "a/../../decoys/decoy", "decoy")
	add("alnum-start-then-path", "sub/eve", "alice")
	add("alnum-start-then-path", "alice/../bob", "bob")
	add("alnum-start-then-path", "0/../../top", "top")
	add("alnum-start-then-path", "a/"+b.sibling+"/victim", "victim")
	add("empty", "", "alice")
	add("dot", ".", "alice")
	add("dotdot", "..", "alice")
	add("tmpdir", ".tmp", "alice")
	add("tmpdir-entry", ".tmp/x", "alice")
	for _, c := range []string{"-", ".", "_", "@"} {
		add("leading-"+c, c+"alice", "alice")
		add("leading-"+c, c, "alice")
	}
	add("nul", "alice\x00", "alice")
	add("nul", "alice\x00.user", "alice")
	add("nul", "\x00", "alice")
	add("nul", "../sibling/victim\x00", "victim")
	for _, c := range []string{"\n", " ", "\t", "\r", "\x7f", "\x01"} {
		add("control-or-space", "alice"+c, "alice")
		add("control-or-space", c+"alice", "alice")
		add("control-or-space", "al"+c+"ice", "alice")
	}
	add("percent-encoded", "%2e%2e/sibling/victim", "victim")
	add("percent-encoded", "..%2fsibling%2fvictim", "victim")
	add("backslash", "..\\sibling\\victim", "victim")
	add("non-ascii", "älice", "alice")
	add("non-ascii", "аlice", "alice") // cyrillic а
	add("non-ascii", "alice​", "alice")
	// characters that Unicode simple case folding / digit classes map onto the ASCII grammar
	for _, n := range []string{"\u017fam", "\u212aim", "alice\u017f", "a\u212a", "\u017f", "\u212a", "\uff41lice", "\uff21", "\u0663user", "bob\u0660", "\u0131d", "\u0130D"} {
		add("unicode-lookalike", n, "alice")
	}
	add("special-chars", "al:ice", "alice")
	add("special-chars", "alice:", "alice")
	add("special-chars", "al*ce", "alice")
	add("special-chars", "alice?", "alice")
	add("special-chars", "al,ice", "alice")
	add("special-chars", "al=ice", "alice")
	add("special-chars", "a+b", "alice")
	add("special-chars", "~alice", "alice")
	add("special-chars", "$HOME", "alice")
	add("longer-than-NAME_MAX", strings.Repeat("a", 251)+"/", "alice")
	add("longer-than-NAME_MAX", "-"+strings.Repeat("a", 300), "alice")
	add("longer-than-NAME_MAX", strings.Repeat("a", 5000)+" ", "alice")
	add("longer-than-NAME_MAX", strings.Repeat("../", 1500)+"etc/passwd", "alice")
	add("etc", "../../../../../../../../etc/passwd", "alice")
	add("etc", "/etc/passwd", "alice")
	add("etc", "/dev/null", "alice")
	add("etc", "/tmp/verif-c03-canary", "alice")
	control = []string{"carol", "a.user", "x@y.z", "A", "0", "u-_.@", "a..b", "a.admin", "Z9", strings.Repeat("n", 200)}
	return
}

type c03Call struct {
	Op  string
	Run func(d *store.Dir, n c03Name) (failed bool, detail string)
}

func c03Ops() []c03Call {
	return []c03Call{
		{"add-user", func(d *store.Dir, n c03Name) (bool, string) {
			err := d.AddUser(n.Name, "new-password-1", false)
			return err != nil, fmt.Sprint(err)
		}},
		{"add-admin", func(d *store.Dir, n c03Name) (bool, string) {
			err := d.AddUser(n.Name, "new-password-2", true)
			return err != nil, fmt.Sprint(err)
		}},
		{"update", func(d *store.Dir, n c03Name) (bool, string) {
			err := d.UpdateUser(n.Name, "new-password-3")
			return err != nil, fmt.Sprint(err)
		}},
		{"set-admin-true", func(d *store.Dir, n c03Name) (bool, string) {
			err := d.SetAdmin(n.Name, true)
			return err != nil, fmt.Sprint(err)
		}},
		{"set-admin-false", func(d *store.Dir, n c03Name) (bool, string) {
			err := d.SetAdmin(n.Name, false)
			return err != nil, fmt.Sprint(err)
		}},
		{"exists", func(d *store.Dir, n c03Name) (bool, string) {
			ex, adm, err := d.Exists(n.Name)
			return !ex, fmt.Sprintf("exists=%v admin=%v err=%v", ex, adm, err)
		}},
		{"authenticate", func(d *store.Dir, n c03Name) (bool, string) {
			ok, adm, _, _, err := d.Authenticate(n.Name, n.AuthPw)
			return !ok, fmt.Sprintf("ok=%v admin=%v err=%v", ok, adm, err)
		}},
		{"remove", func(d *store.Dir, n c03Name) (bool, string) {
			d.RemoveUser(n.Name)
			return true, "" // remove reports nothing; only the tree comparison decides
		}},
		// the same operations through the package's other exported entry point (store.NewUserHash)
		{"userhash-add", func(d *store.Dir, n c03Name) (bool, string) {
			err := store.NewUserHash(d, n.Name).Add("new-password-4", n.Class[0]%2 == 0)
			return err != nil, fmt.Sprint(err)
		}},
		{"userhash-update", func(d *store.Dir, n c03Name) (bool, string) {
			err := store.NewUserHash(d, n.Name).Update("new-password-5")
			return err != nil, fmt.Sprint(err)
		}},
		{"userhash-set-admin", func(d *store.Dir, n c03Name) (bool, string) {
			err := store.NewUserHash(d, n.Name).SetAdmin(true)
			return err != nil, fmt.Sprint(err)
		}},
		{"userhash-authenticate", func(d *store.Dir, n c03Name) (bool, string) {
			ok, _, _, _, err := store.NewUserHash(d, n.Name).Authenticate(n.AuthPw)
			return !ok, fmt.Sprintf("ok=%v err=%v", ok, err)
		}},
		{"userhash-remove", func(d *store.Dir, n c03Name) (bool, string) {
			store.NewUserHash(d, n.Name).Remove()
			return true, ""
		}},
	}
}

func c03() {
	R := vr.New("C03", "snapshot", "hostile user names ('..' segments, absolute paths, names that clean to an existing user, empty, leading - . _ @, NUL/control bytes, > NAME_MAX, percent-encoded, non-ASCII look-alikes, special characters) x the store entry points add/update/set-admin/exists/authenticate/remove (Dir methods and the exported UserHash methods) on a sandbox root/{base,sibling store,decoys}; whole-tree snapshots (type, mode, inode, content) before/after each call; planted files with invalid names and valid hashes; control group of valid names that must keep working. Non-trivial: every (name, operation) pair with a grammar-violating name; distinct by (name, op)")
	defer R.Write()
	rng := R.Rand("c03")
	root := filepath.Join(workDir(), "c03", "root")
	b, err := c03Build(rng, root)
	if err != nil {
		R.Fatal = "sandbox: " + err.Error()
		return
	}
	hostile, control := c03Names(b)
	ops := c03Ops()
	for ni, n := range hostile {
		if ref.NameValid(n.Name) {
			R.Fatal = "corpus bug: hostile name is valid: " + n.Name
			return
		}
		for _, op := range ops {
			id := fmt.Sprintf("n%d/%s", ni, op.Op)
			if !R.Want(id) {
				continue
			}
			R.Mark(id)
			before := ref.TakeSnap(root)
			var failed bool
			var detail string
			pan := vr.Safe(func() { failed, detail = op.Run(b.d, n) })
			after := ref.TakeSnap(root)
			diff := ref.Diff(before, after, ref.DiffOpts{Inode: true})
			R.Case(n.Name+"\x00"+op.Op, true)
			R.Count("class:"+n.Class, 1)
			wit := map[string]any{"name": vr.Q(n.Name), "class": n.Class, "op": op.Op, "result": detail, "tree_diff": diff}
			if pan != "" {
				R.Violate("c03:panic:"+op.Op+":"+n.Class, "panic: "+pan, id, wit)
			}
			if !failed {
				R.Violate("c03:invalid-name-accepted:"+op.Op+":"+n.Class, fmt.Sprintf("%s with a name outside the grammar did not fail: %s", op.Op, detail), id, wit)
			}
			if len(diff) > 0 {
				R.Violate("c03:invalid-name-changed-tree:"+op.Op+":"+n.Class, fmt.Sprintf("%s with a name outside the grammar changed the file system: %v", op.Op, diff), id, wit)
				// rebuild so that later cases start from a known tree
				if b, err = c03Build(rng, root); err != nil {
					R.Fatal = "sandbox rebuild: " + err.Error()
					return
				}
			}
			if ni < 2 && op.Op == "authenticate" {
				R.Sample(wit)
			}
		}
	}
	// control group: valid names keep working end to end
	for _, name := range control {
		if !ref.NameValid(name) {
			R.Fatal = "corpus bug: control name invalid"
			return
		}
		id := "control/" + name
		var steps []string
		ok := true
		step := func(what string, good bool) {
			steps = append(steps, fmt.Sprintf("%s=%v", what, good))
			ok = ok && good
		}
		pan := vr.Safe(func() {
			step("add", b.d.AddUser(name, "pw1", false) == nil)
			a, _, _, _, _ := b.d.Authenticate(name, "pw1")
			step("auth", a)
			step("update", b.d.UpdateUser(name, "pw2") == nil)
			a, _, _, _, _ = b.d.Authenticate(name, "pw2")
			step("auth2", a)
			step("setadmin", b.d.SetAdmin(name, true) == nil)
			ex, adm, _ := b.d.Exists(name)
			step("exists-admin", ex && adm)
			l, _ := b.d.List()
			_, in := l[name]
			step("listed", in)
			b.d.RemoveUser(name)
			ex, _, _ = b.d.Exists(name)
			step("removed", !ex)
		})
		R.Case("control\x00"+name, false)
		R.Count("control_names", 1)
		if !ok || pan != "" {
			R.Violate("c03:valid-name-refused", fmt.Sprintf("valid name %s no longer works: %v %s", vr.Q(name), steps, pan), id, steps)
		}
	}
	// grammar-valid names longer than NAME_MAX: the OS refuses them; nothing may change or succeed
	for _, l := range []int{251, 256, 300, 5000} {
		n := c03Name{Name: strings.Repeat("a", l), Class: "valid-but-longer-than-NAME_MAX", AuthPw: c03Pw("alice")}
		for _, op := range ops {
			id := fmt.Sprintf("toolong%d/%s", l, op.Op)
			before := ref.TakeSnap(root)
			var failed bool
			var detail string
			pan := vr.Safe(func() { failed, detail = op.Run(b.d, n) })
			diff := ref.Diff(before, ref.TakeSnap(root), ref.DiffOpts{Inode: true})
			R.Case(n.Name+"\x00"+op.Op, true)
			if pan != "" || !failed || len(diff) > 0 {
				R.Violate("c03:too-long-name:"+op.Op, fmt.Sprintf("%s with a %d-byte name: failed=%v panic=%q diff=%v (%s)", op.Op, l, failed, pan, diff, detail), id, nil)
			}
		}
	}
	c03Planted(R, rng)
	// hash files (valid names) that are symbolic links to files outside the base directory: operations on such a
	// user may read through the link and may replace / rename / remove the LINK, never the object it points to
	for _, tg := range []struct{ name, ext, target, pw string }{
		{"linked", ".user", filepath.Join(b.sibling, "victim.user"), c03Pw("victim")},
		{"linkadm", ".admin", filepath.Join(b.sibling, "root.admin"), c03Pw("root")},
		{"linktop", ".user", filepath.Join(root, "top.user"), c03Pw("top")},
	} {
		for _, opn := range []string{"authenticate", "update", "set-admin", "remove", "update-then-remove"} {
			if b, err = c03Build(rng, root); err != nil {
				R.Fatal = "sandbox rebuild: " + err.Error()
				return
			}
			link := filepath.Join(b.base, tg.name+tg.ext)
			os.Symlink(tg.target, link) //nolint:errcheck
			before := ref.TakeSnap(root)
			pan := vr.Safe(func() {
				switch opn {
				case "authenticate":
					b.d.Authenticate(tg.name, tg.pw) //nolint:errcheck
				case "update":
					b.d.UpdateUser(tg.name, "new-pw-through-link") //nolint:errcheck
				case "set-admin":
					b.d.SetAdmin(tg.name, tg.ext == ".user") //nolint:errcheck
				case "remove":
					b.d.RemoveUser(tg.name)
				case "update-then-remove":
					b.d.UpdateUser(tg.name, "new-pw-through-link") //nolint:errcheck
					b.d.RemoveUser(tg.name)
				}
			})
			var outside []string
			for _, l := range ref.Diff(before, ref.TakeSnap(root), ref.DiffOpts{Inode: true}) {
				f := strings.Fields(l)
				if len(f) >= 2 && !strings.HasPrefix(f[1], "base/") && f[1] != "base" {
					outside = append(outside, l)
				}
			}
			id := "symlinked-hash-file/" + tg.name + "/" + opn
			R.Case("symlink\x00"+tg.name+"\x00"+opn, true)
			R.Count("symlinked_hash_file_calls", 1)
			if pan != "" {
				R.Violate("c03:panic:symlinked-hash-file:"+opn, pan, id, nil)
			}
			if len(outside) > 0 {
				R.Violate("c03:object-outside-base-changed-through-symlinked-hash-file:"+opn, fmt.Sprintf("%s of user %s, whose hash file is a link to %s, changed objects outside the base directory: %v", opn, tg.name, tg.target, outside), id, map[string]any{"link": link, "target": tg.target, "changes": outside})
			}
		}
	}
}

// c03Planted: files with invalid names but valid hashes planted in a store.
func c03Planted(R *vr.Result, rng *rand.Rand) {
	root := filepath.Join(workDir(), "c03", "planted")
	planted := []string{"-x", ".hidden", "_u", "@at", "a b", "ä", "x:y", "a\nb", "tab\tname", "a*", "-"}
	for _, onlyAdmin := range []bool{false, true} {
		b, err := c03Build(rng, root)
		if err != nil {
			R.Fatal = err.Error()
			return
		}
		ps := b.sets[0]
		for i, p := range planted {
			ext := ".user"
			if i%2 == 0 {
				ext = ".admin"
			}
			salt := make([]byte, ps.SaltLen())
			rng.Read(salt)
			if err := os.WriteFile(filepath.Join(b.base, p+ext), []byte(ps.Record([]byte(c03Pw(p)), salt, time.Now().Unix())+"\n"), 0600); err != nil {
				R.Fatal = err.Error()
				return
			}
		}
		if onlyAdmin {
			os.Remove(filepath.Join(b.base, "root.admin")) //nolint:errcheck
			os.Remove(filepath.Join(b.base, "bob.admin"))  //nolint:errcheck
		}
		id := fmt.Sprintf("planted/only-invalid-admins=%v", onlyAdmin)
		R.Mark(id)
		var cerr error
		var list store.UserList
		pan := vr.Safe(func() { cerr = b.d.Check(); list, _ = b.d.List() })
		if pan != "" {
			R.Violate("c03:panic:planted", pan, id, nil)
		}
		if onlyAdmin && cerr == nil {
			R.Violate("c03:invalid-named-admin-counts-for-check", "Check accepts a store whose only .admin files have names outside the grammar", id, planted)
		}
		if !onlyAdmin && cerr != nil && !strings.Contains(cerr.Error(), "") {
			_ = cerr
		}
		R.Count("planted_checks", 1)
		for _, p := range planted {
			R.Case("planted\x00"+p+fmt.Sprint(onlyAdmin), true)
			if _, in := list[p]; in {
				R.Violate("c03:invalid-named-file-listed", "List shows a file whose name is outside the grammar: "+vr.Q(p), id, nil)
			}
			var ok bool
			var err error
			if pan := vr.Safe(func() { ok, _, _, _, err = b.d.Authenticate(p, c03Pw(p)) }); pan != "" {
				R.Violate("c03:panic:planted-auth", pan, id, nil)
			}
			R.Count("planted_auth_probes", 1)
			if ok {
				R.Violate("c03:invalid-named-file-authenticates", fmt.Sprintf("a planted file with invalid name %s and a valid hash authenticates (err=%v)", vr.Q(p), err), id, map[string]any{"name": vr.Q(p)})
			}
		}
	}
}

// ---------------------------------------------------------------------------
// c03drv: the same calls executed under strace; prints nothing but emits
// marker syscalls (access on /verif-mark:<BEGIN|END>:<case>) around each call.
// Usage: hx c03drv <root> <out.json>   (root is built by the driver itself)

func c03mark(s string) {
	syscall.Access("/verif-mark:"+s, 0) //nolint:errcheck
}

func c03drv() {
	runtime.LockOSThread()
	root := os.Args[2]
	rng := rand.New(rand.NewSource(vr.Seed()))
	b, err := c03Build(rng, root)
	if err != nil {
		fmt.Fprintln(os.Stderr, err)
		os.Exit(2)
	}
	hostile, control := c03Names(b)
	ops := c03Ops()
	type rec struct {
		Case, Name, Class, Op, Result string
		Failed, Valid                 bool
	}
	var recs []rec
	sample := 1
	if !vr.Thorough() {
		sample = 3
	}
	k := 0
	for ni, n := range hostile {
		for _, op := range ops {
			k++
			if k%sample != 0 {
				continue
			}
			id := fmt.Sprintf("n%d.%s", ni, op.Op)
			c03mark("BEGIN:" + id)
			var failed bool
			var detail string
			vr.Safe(func() { failed, detail = op.Run(b.d, n) })
			c03mark("END:" + id)
			recs = append(recs, rec{id, n.Name, n.Class, op.Op, detail, failed, false})
		}
	}
	for ci, name := range control {
		for _, op := range ops {
			id := fmt.Sprintf("c%d.%s", ci, op.Op)
			n := c03Name{Name: name, AuthPw: "new-password-3"}
			c03mark("BEGIN:" + id)
			var failed bool
			var detail string
			vr.Safe(func() { failed, detail = op.Run(b.d, n) })
			c03mark("END:" + id)
			recs = append(recs, rec{id, name, "control", op.Op, detail, failed, true})
		}
	}
	out, _ := json.Marshal(map[string]any{"root": root, "base": b.base, "cases": recs})
	os.WriteFile(os.Args[3], out, 0600) //nolint:errcheck
}

// ---------------------------------------------------------------------------
// c03fe: hostile names through every frontend of the running binary.
func init() { stages["c03fe"] = c03fe }

func c03fe() {
	R := vr.New("C03", "frontends", "the built binary serves a store whose directory also holds planted files with names outside the grammar but valid hashes, next to a sibling store and decoys; every hostile name of the corpus (and the planted names) is submitted with the password that would match if the name were resolved as a path, through the saslauthd socket, HTTP basic-auth, HTTP API, LDAP bind and the CLI, and through the API management endpoints with an admin session; every such request must be denied / refused and the whole sandbox tree must stay byte- and inode-identical. Non-trivial: every (name, frontend) pair; distinct by that pair")
	defer R.Write()
	rng := R.Rand("c03fe")
	bin := filepath.Join(os.Getenv("VERIF_BIN"), "whawty-auth")
	root := filepath.Join(workDir(), "c03fe", "root")
	b, err := c03Build(rng, root)
	if err != nil {
		R.Fatal = err.Error()
		return
	}
	planted := []string{"-x", ".hidden", "_u", "@at", "a b", "ä", "x:y", "tab\tname", "a*"}
	ps := b.sets[0]
	for _, p := range planted {
		salt := make([]byte, ps.SaltLen())
		rng.Read(salt)
		os.WriteFile(filepath.Join(b.base, p+".user"), []byte(ps.Record([]byte(c03Pw(p)), salt, time.Now().Unix())+"\n"), 0600) //nolint:errcheck
	}
	agent, err := startAgent(bin, b.cfg, filepath.Dir(root), []string{"sasl", "http", "ldap"}, "--do-check=false")
	if err != nil {
		R.Fatal = err.Error()
		return
	}
	defer agent.Stop()
	hostile, _ := c03Names(b)
	for _, p := range planted {
		hostile = append(hostile, c03Name{Name: p, Class: "planted-invalid-name", AuthPw: c03Pw(p)})
	}
	// an admin session for the management endpoints
	sess := ""
	{
		body := fmt.Sprintf(`{"username":"root","password":%q}`, c03Pw("root"))
		if resp, err := c04HTTP.Post("http://"+agent.HTTP+"/api/authenticate", "application/json", strings.NewReader(body)); err == nil {
			var m map[string]any
			json.NewDecoder(resp.Body).Decode(&m) //nolint:errcheck
			resp.Body.Close()                     //nolint:errcheck
			sess, _ = m["session"].(string)
		}
	}
	if sess == "" {
		R.Fatal = "could not obtain an admin session"
		return
	}
	before := ref.TakeSnap(root)
	for ni, n := range hostile {
		id := fmt.Sprintf("fe/n%d", ni)
		if !R.Want(id) {
			continue
		}
		R.Mark(id)
		got := map[string]string{
			"sasl":  agent.saslAuth(n.Name, n.AuthPw),
			"basic": agent.basicAuth(n.Name, n.AuthPw),
			"api":   agent.apiAuth(n.Name, n.AuthPw, false),
			"ldap":  agent.ldapBind(n.Name, n.AuthPw),
		}
		if ni%4 == 0 || n.Class == "planted-invalid-name" {
			got["cli"] = agent.cliAuth(n.Name, n.AuthPw)
		}
		// LDAP cuts the bind name at '@': "x@..." names that become valid are judged by C04
		if i := strings.Index(n.Name, "@"); i >= 0 && ref.NameValid(n.Name[:i]) {
			delete(got, "ldap")
		}
		for fe, v := range got {
			R.Case(n.Name+"\x00"+fe, true)
			if v == "n/a" {
				continue
			}
			R.Count("frontend_probes:"+fe, 1)
			if v == "ok" {
				R.Violate("c03:invalid-name-authenticates:"+fe+":"+n.Class, fmt.Sprintf("name %s (outside the grammar) authenticates through %s", vr.Q(n.Name), fe), id, map[string]any{"name": vr.Q(n.Name), "class": n.Class, "frontend": fe})
			}
		}
		// management endpoints with an admin session
		if utf8.ValidString(n.Name) && n.Name != "" {
			for _, ep := range []struct{ path, body string }{
				{"/api/add", fmt.Sprintf(`{"session":%q,"username":%q,"password":"Added-Pw-1234","admin":true}`, sess, n.Name)},
				{"/api/update", fmt.Sprintf(`{"session":%q,"username":%q,"newpassword":"Updated-Pw-1234"}`, sess, n.Name)},
				{"/api/update", fmt.Sprintf(`{"username":%q,"oldpassword":%q,"newpassword":"Updated-Pw-1234"}`, n.Name, n.AuthPw)},
				{"/api/set-admin", fmt.Sprintf(`{"session":%q,"username":%q,"admin":true}`, sess, n.Name)},
				{"/api/remove", fmt.Sprintf(`{"session":%q,"username":%q}`, sess, n.Name)},
			} {
				resp, err := c04HTTP.Post("http://"+agent.HTTP+ep.path, "application/json", strings.NewReader(ep.body))
				if err == nil {
					resp.Body.Close() //nolint:errcheck
				}
				R.Count("management_probes", 1)
			}
		}
		after := ref.TakeSnap(root)
		if diff := ref.Diff(before, after, ref.DiffOpts{Inode: true, IgnorePath: func(rel string) bool { return strings.HasSuffix(rel, ".tmp") }}); len(diff) > 0 {
			R.Violate("c03:frontend-request-with-invalid-name-changed-tree:"+n.Class, fmt.Sprintf("requests with name %s changed the file system: %v", vr.Q(n.Name), diff), id, map[string]any{"name": vr.Q(n.Name), "diff": diff})
			before = after
		}
	}
	// the list endpoint must not show the planted names
	resp, err := c04HTTP.Post("http://"+agent.HTTP+"/api/list", "application/json", strings.NewReader(fmt.Sprintf(`{"session":%q}`, sess)))
	if err == nil {
		var m map[string]any
		json.NewDecoder(resp.Body).Decode(&m) //nolint:errcheck
		resp.Body.Close()                     //nolint:errcheck
		l, _ := m["list"].(map[string]any)
		for _, p := range planted {
			if _, in := l[p]; in {
				R.Violate("c03:invalid-named-file-listed:api", "the API lists "+vr.Q(p), "fe/list", nil)
			}
		}
		R.Count("list_checked", 1)
	}
	if !agent.Alive() {
		R.Violate("c03:agent-died", agent.out.String(), "fe", nil)
	}
}
