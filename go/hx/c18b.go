package main

import (
	"bytes"
	"encoding/json"
	"fmt"
	"os"
	"path/filepath"
	"strings"
	"sync"
	"sync/atomic"
	"syscall"
	"time"

	"github.com/whawty/auth/sasl"
	"github.com/whawty/auth/store"
	"github.com/whawty/auth/zz_verif/ref"
	"github.com/whawty/auth/zz_verif/vr"
)

func init() { stages["c18bin"] = c18bin }

// c18bin: SIGHUP to the running binary (black box) while clients authenticate.
func c18bin() {
	R := vr.New("C18", "reload-binary", "the built binary (run, saslauthd + HTTP listeners) receives real SIGHUP signals after its configuration file was replaced by good configurations (other base directory, default and HMAC keys), by documents that do not load and by configurations whose directory fails the check, while 4 client goroutines authenticate continuously over the socket; after each signal the configuration served is identified through the API (which administrator password works, where a record added through the API lands, which default and key verify it) and must be complete-new after a good reload and complete-previous otherwise; every client request must be answered. Non-trivial: every signal; distinct by (previous configuration, kind)")
	defer R.Write()
	bin := filepath.Join(os.Getenv("VERIF_BIN"), "whawty-auth")
	dir := filepath.Join(workDir(), "c18bin")
	os.RemoveAll(dir)      //nolint:errcheck
	os.MkdirAll(dir, 0700) //nolint:errcheck
	mk := func(tag byte) []ref.ParamSet {
		k1, k2 := bytes.Repeat([]byte{tag}, 32), bytes.Repeat([]byte{tag + 1}, 32)
		return []ref.ParamSet{{ID: 1, Algo: ref.AlgoScrypt, HmacKey: k1, Cost: 2, R: 1, P: 1}, {ID: 2, Algo: ref.AlgoScrypt, HmacKey: k2, Cost: 3, R: 2, P: 1}}
	}
	type conf struct {
		name string
		base string
		def  uint
		sets []ref.ParamSet
	}
	A := conf{"A", filepath.Join(dir, "A"), 1, mk(0x20)}
	B := conf{"B", filepath.Join(dir, "B"), 2, mk(0x70)}
	cfg := filepath.Join(dir, "store.yml")
	for _, c := range []conf{A, B} {
		os.MkdirAll(filepath.Join(c.base, ".tmp"), 0700)                 //nolint:errcheck
		os.WriteFile(cfg, []byte(ref.YAML(c.base, c.def, c.sets)), 0600) //nolint:errcheck
		d, err := store.NewDirFromConfig(cfg)
		if err != nil {
			R.Fatal = err.Error()
			return
		}
		d.AddUser("root", "root"+c.name, true)       //nolint:errcheck
		d.AddUser("mix", "mix"+c.name, false)        //nolint:errcheck
		d.AddUser("only"+c.name, "pw"+c.name, false) //nolint:errcheck
	}
	os.WriteFile(cfg, []byte(ref.YAML(A.base, A.def, A.sets)), 0600) //nolint:errcheck
	evlog := filepath.Join(dir, "events.jsonl")
	os.Setenv("VERIF_EVENT_LOG", evlog) //nolint:errcheck
	agent, err := startAgent(bin, cfg, dir, []string{"sasl", "http"})
	os.Unsetenv("VERIF_EVENT_LOG") //nolint:errcheck
	if err != nil {
		R.Fatal = err.Error()
		return
	}
	defer agent.Stop()
	reloads := func() int {
		b, _ := os.ReadFile(evlog)
		return bytes.Count(b, []byte(`"kind":"exec.reload"`))
	}
	hup := func(content string) bool {
		os.WriteFile(cfg, []byte(content), 0600) //nolint:errcheck
		n0 := reloads()
		agent.cmd.Process.Signal(syscall.SIGHUP) //nolint:errcheck
		for i := 0; i < 2000; i++ {
			if reloads() > n0 {
				return true
			}
			time.Sleep(5 * time.Millisecond)
		}
		return false
	}
	// background clients
	var stop int32
	var answered, unanswered int64
	var wg sync.WaitGroup
	for c := 0; c < 4; c++ {
		wg.Add(1)
		go func(c int) {
			defer wg.Done()
			u := []string{"onlyA", "onlyB", "mix", "root"}[c]
			p := []string{"pwA", "pwB", "mixA", "rootB"}[c]
			for atomic.LoadInt32(&stop) == 0 {
				done := make(chan error, 1)
				go func() { _, _, err := sasl.NewClient(agent.Sasl).Auth(u, p, "s", ""); done <- err }()
				select {
				case err := <-done:
					if err != nil {
						atomic.AddInt64(&unanswered, 1)
					} else {
						atomic.AddInt64(&answered, 1)
					}
				case <-time.After(30 * time.Second):
					atomic.AddInt64(&unanswered, 1)
					return
				}
			}
		}(c)
	}
	post := func(path string, m map[string]any) (int, map[string]any) {
		b, _ := json.Marshal(m)
		resp, err := c04HTTP.Post("http://"+agent.HTTP+path, "application/json", bytes.NewReader(b))
		if err != nil {
			return -1, nil
		}
		defer resp.Body.Close() //nolint:errcheck
		var mm map[string]any
		json.NewDecoder(resp.Body).Decode(&mm) //nolint:errcheck
		return resp.StatusCode, mm
	}
	nprobe := 0
	which := func() (string, string) {
		// a request behind the reload
		post("/api/authenticate", map[string]any{"username": "root", "password": "x"})
		var sess, who string
		for _, c := range []conf{A, B} {
			if code, m := post("/api/authenticate", map[string]any{"username": "root", "password": "root" + c.name}); code == 200 {
				s, _ := m["session"].(string)
				if sess != "" {
					return "anomalous", "both administrator passwords work"
				}
				sess, who = s, c.name
			}
		}
		if sess == "" {
			return "anomalous", "no administrator password works"
		}
		nprobe++
		user, pw := fmt.Sprintf("probe%d", nprobe), fmt.Sprintf("probe-pw-%d", nprobe)
		if code, _ := post("/api/add", map[string]any{"session": sess, "username": user, "password": pw, "admin": false}); code != 200 {
			return "anomalous", fmt.Sprintf("add through the API failed with %d", code)
		}
		var found []string
		for _, c := range []conf{A, B} {
			data, err := os.ReadFile(filepath.Join(c.base, user+".user"))
			if err != nil {
				continue
			}
			ver := "none"
			rec, _ := ref.ParseStrict(data)
			for _, c2 := range []conf{A, B} {
				if rec.ID == c2.def && ref.MustAccept(ref.SetMap(c2.sets), data, []byte(pw)) {
					ver = c2.name
				}
			}
			found = append(found, fmt.Sprintf("root-password=%s,dir=%s,set=%d,verifies-with=%s", who, c.name, rec.ID, ver))
			os.Remove(filepath.Join(c.base, user+".user")) //nolint:errcheck
		}
		if len(found) != 1 {
			return "anomalous", strings.Join(found, " + ")
		}
		for _, c := range []conf{A, B} {
			if found[0] == fmt.Sprintf("root-password=%s,dir=%s,set=%d,verifies-with=%s", c.name, c.name, c.def, c.name) {
				return c.name, found[0]
			}
		}
		return "mixture", found[0]
	}
	cur := A
	expect := func(id string, want conf, kind string) {
		got, detail := which()
		R.Case(cur.name+"|"+kind, true)
		R.Count("signals", 1)
		if got != want.name {
			R.Violate("c18:reload-binary:"+kind+":serving-"+got, fmt.Sprintf("after SIGHUP (%s, previous configuration %s) the binary should serve the complete configuration %s, observed: %s", kind, cur.name, want.name, detail), id, nil)
		}
	}
	rounds := vr.Pick(2, 8)
	for r := 0; r < rounds; r++ {
		other := B
		if cur.name == "B" {
			other = A
		}
		oy := ref.YAML(other.base, other.def, other.sets)
		for _, b := range []struct{ kind, yaml string }{{"syntax-error", "basedir: [x"}, {"unknown-key", oy + "zzz: 1\n"}, {"undefined-default", strings.Replace(oy, fmt.Sprintf("default: %d", other.def), "default: 7", 1)}} {
			id := fmt.Sprintf("r%d/%s", r, b.kind)
			R.Mark(id)
			if !hup(b.yaml) {
				R.Inconcl("no reload event after SIGHUP")
				continue
			}
			expect(id, cur, "config-does-not-load:"+b.kind)
		}
		empty := filepath.Join(dir, "empty")
		os.MkdirAll(empty, 0700) //nolint:errcheck
		if hup(ref.YAML(empty, other.def, other.sets)) {
			expect(fmt.Sprintf("r%d/empty-dir", r), cur, "directory-fails-check:empty")
		}
		if hup(oy) {
			prev := cur
			cur = other
			expect(fmt.Sprintf("r%d/good", r), other, "good:"+prev.name+"-to-"+other.name)
		}
	}
	atomic.StoreInt32(&stop, 1)
	wg.Wait()
	R.Count("client_requests_answered", int(atomic.LoadInt64(&answered)))
	if n := atomic.LoadInt64(&unanswered); n > 0 {
		R.Violate("c18:reload-binary:client-request-unanswered", fmt.Sprintf("%d client requests over the saslauthd socket got no (decodable) answer while reload signals arrived", n), "clients", nil)
	}
	if !agent.Alive() {
		R.Violate("c18:reload-binary:agent-died", agent.out.String(), "agent", nil)
	}
	R.Sample(map[string]any{"signals": R.Get("signals"), "client_requests_answered": answered})
}
