package main

import (
	"fmt"
	"net"
	"os"
	"os/exec"
	"path/filepath"
	"strings"
	"syscall"
	"time"

	"github.com/whawty/auth/sasl"
	"github.com/whawty/auth/store"
	"github.com/whawty/auth/zz_verif/ref"
	"github.com/whawty/auth/zz_verif/vr"
)

func init() { stages["c10fd"] = c10fd }

func procFDs(pid int) int {
	ents, err := os.ReadDir(fmt.Sprintf("/proc/%d/fd", pid))
	if err != nil {
		return -1
	}
	return len(ents)
}

// c10fd: descriptor exhaustion on the saslauthd socket must not stop the agent from accepting for good.
func c10fd() {
	R := vr.New("C10", "fd-exhaustion", "the built binary runs with a low RLIMIT_NOFILE and a saslauthd socket; idle client connections are opened until the agent has no descriptor left (observed in /proc/<pid>/fd), one more client connects and sends a request while accept fails, then the idle connections are closed; the late client and fresh requests on the same socket must all be answered and the process must still be running. Non-trivial: every round in which the descriptor table was observed full; distinct by (limit, round)")
	defer R.Write()
	rng := R.Rand("c10fd")
	bin := filepath.Join(os.Getenv("VERIF_BIN"), "whawty-auth")
	dir := filepath.Join(workDir(), "c10fd")
	os.RemoveAll(dir) //nolint:errcheck
	base := filepath.Join(dir, "base")
	os.MkdirAll(filepath.Join(base, ".tmp"), 0700) //nolint:errcheck
	sets := ref.CheapSets(rng, 1)
	cfg := filepath.Join(dir, "store.yml")
	os.WriteFile(cfg, []byte(ref.YAML(base, 1, sets)), 0600) //nolint:errcheck
	d, err := store.NewDirFromConfig(cfg)
	if err != nil {
		R.Fatal = err.Error()
		return
	}
	d.AddUser("root", "rootpw", true) //nolint:errcheck
	sock := filepath.Join(dir, "fd.sock")
	lc := filepath.Join(dir, "listener.yml")
	os.WriteFile(lc, []byte("saslauthd:\n  listen:\n    - "+sock+"\n"), 0600) //nolint:errcheck
	fdExhaustion(R, "c10", "agent", sock, func(limit int) string {
		return fmt.Sprintf("ulimit -n %d; exec %s --store %s run --listener %s", limit, bin, cfg, lc)
	})
}

func init() { stages["c05fd"] = c05fd; stages["c05srv"] = c05srv }

// c05srv <socket>: the sasl package's server alone, with a fixed callback (root / rootpw).
func c05srv() {
	srv, err := sasl.NewServer(os.Args[2], func(login, password, service, realm string) (bool, string, error) {
		return login == "root" && password == "rootpw", "", nil
	})
	if err != nil {
		fmt.Fprintln(os.Stderr, err)
		os.Exit(2)
	}
	err = srv.Run()
	fmt.Fprintln(os.Stderr, "Run returned:", err)
	os.Exit(3)
}

// c05fd: "any number of concurrent connections" includes more than the process has descriptors for.
func c05fd() {
	R := vr.New("C05", "fd-exhaustion", "the sasl package's server runs alone in a child process with a low RLIMIT_NOFILE; idle client connections are opened until the process has no descriptor left (observed in /proc/<pid>/fd), one more client connects and sends a complete request while accept fails, then the idle connections are closed; the late client and fresh requests must all get their reply (positive for the right password, negative for a wrong one) and the server must still be running. Non-trivial: every round in which the descriptor table was observed full; distinct by (limit, round)")
	defer R.Write()
	dir := filepath.Join(workDir(), "c05fd")
	os.RemoveAll(dir)      //nolint:errcheck
	os.MkdirAll(dir, 0700) //nolint:errcheck
	sock := filepath.Join(dir, "fd.sock")
	self, _ := os.Executable()
	fdExhaustion(R, "c05", "server", sock, func(limit int) string {
		return fmt.Sprintf("ulimit -n %d; exec %s c05srv %s", limit, self, sock)
	})
}

// fdExhaustion is the common body: what is the process (agent / server) called, and how is it started under a limit.
func fdExhaustion(R *vr.Result, pfx, what, sock string, command func(limit int) string) {
	for _, limit := range []int{40, 64} {
		for round := 0; round < vr.Pick(2, 6); round++ {
			id := fmt.Sprintf("limit%d/r%d", limit, round)
			if !R.Want(id) {
				continue
			}
			R.Mark(id)
			os.Remove(sock) //nolint:errcheck
			cmd := exec.Command("sh", "-c", command(limit))
			cmd.Env = append(os.Environ(), "VERIF_OUT=", "VERIF_MARK=")
			cmd.SysProcAttr = &syscall.SysProcAttr{Pdeathsig: syscall.SIGKILL}
			if err := cmd.Start(); err != nil {
				R.Fatal = err.Error()
				return
			}
			ok := false
			for i := 0; i < 500; i++ {
				if _, err := os.Stat(sock); err == nil {
					ok = true
					break
				}
				time.Sleep(10 * time.Millisecond)
			}
			if !ok {
				cmd.Process.Kill() //nolint:errcheck
				cmd.Wait()         //nolint:errcheck
				R.Inconcl(what + " did not create its socket with ulimit -n " + fmt.Sprint(limit))
				continue
			}
			pid := cmd.Process.Pid
			var idle []net.Conn
			full := false
			for i := 0; i < limit+20; i++ {
				c, err := net.DialTimeout("unix", sock, 2*time.Second)
				if err != nil {
					break
				}
				idle = append(idle, c)
				time.Sleep(2 * time.Millisecond)
				if procFDs(pid) >= limit {
					full = true
					// a few more to be sure accept() has failed at least once
					for k := 0; k < 3; k++ {
						if c2, err := net.DialTimeout("unix", sock, time.Second); err == nil {
							idle = append(idle, c2)
						}
					}
					break
				}
			}
			R.Count("idle_connections", len(idle))
			// the late client: connects and sends a complete request while the descriptor table is full
			late, lerr := net.DialTimeout("unix", sock, 2*time.Second)
			lateAns := make(chan string, 1)
			if lerr == nil {
				go func() {
					req := sasl.Request{Login: "root", Password: "rootpw", Service: "s"}
					b, _ := req.Marshal()
					late.Write(b)                                          //nolint:errcheck
					late.SetReadDeadline(time.Now().Add(40 * time.Second)) //nolint:errcheck
					var resp sasl.Response
					if err := resp.Decode(late); err != nil {
						lateAns <- "no-answer: " + err.Error()
					} else if resp.Result {
						lateAns <- "ok"
					} else {
						lateAns <- "denied"
					}
				}()
			}
			time.Sleep(300 * time.Millisecond) // accept is failing now
			fdsFull := procFDs(pid)
			for _, c := range idle {
				c.Close() //nolint:errcheck
			}
			time.Sleep(200 * time.Millisecond)
			R.Case(id, full)
			if full {
				R.Count("rounds_with_full_descriptor_table", 1)
			}
			wit := map[string]any{"limit": limit, "idle_connections": len(idle), "agent_fds_when_full": fdsFull}
			alive := cmd.Process.Signal(syscall.Signal(0)) == nil && func() bool {
				b, _ := os.ReadFile(fmt.Sprintf("/proc/%d/stat", pid))
				return len(b) > 0 && !strings.Contains(string(b), ") Z ")
			}()
			if !alive {
				R.Violate(pfx+":"+what+"-exits-after-descriptor-exhaustion", "the "+what+" process is gone after its descriptors were exhausted", id, wit)
			}
			if lerr == nil {
				select {
				case a := <-lateAns:
					R.Count("late_client:"+strings.SplitN(a, ":", 2)[0], 1)
					if a != "ok" && full {
						R.Violate(pfx+":request-unanswered-after-descriptor-exhaustion:late-client", "the client that connected while accept() was failing got: "+a, id, wit)
					}
				case <-time.After(45 * time.Second):
					R.Violate(pfx+":request-unanswered-after-descriptor-exhaustion:late-client", "no answer within the 45 s watchdog", id, wit)
				}
			}
			// fresh requests afterwards
			good := 0
			for i := 0; i < 5; i++ {
				ch := make(chan bool, 1)
				go func() {
					ok, _, err := sasl.NewClient(sock).Auth("root", "rootpw", "s", "")
					ch <- ok && err == nil
				}()
				select {
				case v := <-ch:
					if v {
						good++
					}
				case <-time.After(20 * time.Second):
				}
			}
			R.Count("fresh_requests_answered", good)
			if okw, _, errw := sasl.NewClient(sock).Auth("root", "wrong", "s", ""); okw || errw != nil {
				R.Violate(pfx+":wrong-password-after-descriptor-exhaustion", fmt.Sprintf("a request with a wrong password afterwards: ok=%v err=%v", okw, errw), id, wit)
			}
			if good != 5 {
				R.Violate(pfx+":"+what+"-stops-accepting-after-descriptor-exhaustion", fmt.Sprintf("after the idle connections were closed only %d of 5 new requests on the saslauthd socket were answered", good), id, wit)
			}
			cmd.Process.Kill() //nolint:errcheck
			cmd.Wait()         //nolint:errcheck
			if len(R.Samples) < 2 {
				R.Sample(wit)
			}
		}
	}
}
