package main

import (
	"fmt"
	"os"
	"path/filepath"
	"sort"
	"strings"

	"github.com/whawty/auth/store"
	"github.com/whawty/auth/zz_verif/ref"
	"github.com/whawty/auth/zz_verif/vr"
)

func init() { stages["c15names"] = c15names }

// c15names: "operations touch only their target" for user names that contain each other: bob, bob.user, bob.admin,
// bob.smith, b, bo ... every successful operation may change exactly one directory entry, the one the name and the
// admin flag determine; every other file keeps content and inode.
func c15names() {
	R := vr.New("C15", "name-families", "stores whose valid user names contain each other or the file extensions (x, x.user, x.admin, x.user.admin, x.smith, x-, prefixes of x), every user with auxiliary lines; add / update / set-admin (both directions) / remove / failing add are applied to every name in turn and after each call the directory is compared with the one before: exactly the file <name>.user|.admin of the target may be created, rewritten (auxiliary bytes kept), renamed (content and inode kept) or deleted; every other entry must keep name, content and inode. Non-trivial: every call; distinct by (family, operation, target)")
	defer R.Write()
	rng := R.Rand("c15names")
	root := filepath.Join(workDir(), "c15names")
	for round := 0; round < vr.Pick(3, 20); round++ {
		stem := []string{"bob", "al", "x", "u1", "a.b"}[round%5]
		names := []string{stem, stem + ".user", stem + ".admin", stem + ".user.admin", stem + ".admin.user", stem + ".smith", stem + "-", stem + "_2", stem[:1], stem + stem}
		dir := filepath.Join(root, fmt.Sprintf("r%d", round))
		os.RemoveAll(dir) //nolint:errcheck
		base := filepath.Join(dir, "base")
		os.MkdirAll(filepath.Join(base, ".tmp"), 0700) //nolint:errcheck
		sets := ref.CheapSets(rng, 2)
		cfg := filepath.Join(dir, "store.yml")
		os.WriteFile(cfg, []byte(ref.YAML(base, 1, sets)), 0600) //nolint:errcheck
		d, err := store.NewDirFromConfig(cfg)
		if err != nil {
			R.Fatal = err.Error()
			return
		}
		admin := map[string]bool{}
		seen := map[string]bool{}
		var users []string
		plant := func(n string, adm bool) {
			ps := sets[rng.Intn(2)]
			salt := make([]byte, ps.SaltLen())
			rng.Read(salt)
			ext := ".user"
			if adm {
				ext = ".admin"
			}
			os.WriteFile(filepath.Join(base, n+ext), []byte(ps.Record([]byte("pw-"+n), salt, 1700000000)+"\ntotp: "+n+"\r\nbin: \xff\x00\xfe"), 0600) //nolint:errcheck
			admin[n] = adm
		}
		plant("root", true)
		for i, n := range names {
			if seen[n] || n == "root" {
				continue
			}
			seen[n] = true
			users = append(users, n)
			if i%3 != 2 { // some names are left for add
				plant(n, i%2 == 1)
			}
		}
		exists := func(n string) bool { _, ok := admin[n]; return ok }
		file := func(n string) string {
			if admin[n] {
				return n + ".admin"
			}
			return n + ".user"
		}
		ops := []string{"setadmin-toggle", "update", "setadmin-toggle", "add-existing-or-new", "remove", "add-existing-or-new"}
		for _, op := range ops {
			order := append([]string{}, users...)
			rng.Shuffle(len(order), func(i, j int) { order[i], order[j] = order[j], order[i] })
			for _, n := range order {
				before := ref.TakeSnap(base)
				id := fmt.Sprintf("r%d/%s/%s", round, op, n)
				var err error
				allowed := map[string]bool{} // diff lines that are fine
				was := exists(n)
				oldFile := file(n)
				switch op {
				case "setadmin-toggle":
					err = d.SetAdmin(n, !admin[n])
					if was && err == nil {
						admin[n] = !admin[n]
						allowed["deleted "+oldFile+" (f)"] = true
						allowed["created "+file(n)+" (f)"] = true
					}
				case "update":
					err = d.UpdateUser(n, "new-pw-"+n)
					if was && err == nil {
						allowed["content "+oldFile] = true
						allowed["inode "+oldFile] = true
					}
				case "remove":
					d.RemoveUser(n)
					if was {
						delete(admin, n)
						allowed["deleted "+oldFile+" (f)"] = true
					}
				case "add-existing-or-new":
					adm := rng.Intn(2) == 0
					err = d.AddUser(n, "added-pw-"+n, adm)
					if !was && err == nil {
						admin[n] = adm
						allowed["created "+file(n)+" (f)"] = true
					}
				}
				if p := vr.Safe(func() {}); p != "" {
					_ = p
				}
				after := ref.TakeSnap(base)
				diff := ref.Diff(before, after, ref.DiffOpts{Inode: true, IgnorePath: ref.IgnoreTmpDir})
				R.Case(fmt.Sprintf("%s|%s|%s", stem, op, n), true)
				R.Count("name_family_calls", 1)
				var bad []string
				for _, l := range diff {
					if !allowed[l] {
						bad = append(bad, l)
					}
				}
				wit := map[string]any{"names": users, "operation": op, "target": n, "existed": was, "error": fmt.Sprint(err), "directory_changes": diff}
				if len(bad) > 0 {
					sort.Strings(bad)
					R.Violate("c15:other-entry-changed:"+strings.SplitN(op, "-", 2)[0], fmt.Sprintf("%s(%s) changed entries other than the target's: %v", op, n, bad), id, wit)
				}
				// the rename of set-admin keeps content and inode; update keeps the auxiliary lines
				if op == "setadmin-toggle" && was && err == nil {
					if b, a := before[oldFile], after[file(n)]; b.Hash != a.Hash || b.Ino != a.Ino {
						R.Violate("c15:setadmin-did-not-move-the-file", fmt.Sprintf("set-admin of %s: %s and %s differ in content or inode", n, oldFile, file(n)), id, wit)
					}
				}
				if op == "update" && was && err == nil {
					data, _ := os.ReadFile(filepath.Join(base, oldFile))
					if !strings.HasSuffix(string(data), "\ntotp: "+n+"\r\nbin: \xff\x00\xfe") {
						R.Violate("c15:update-changed-auxiliary-lines", "update of "+n+" did not keep the auxiliary bytes", id, wit)
					}
				}
				if was != exists(n) && op != "remove" && op != "add-existing-or-new" {
					R.Violate("c15:existence-changed", op+" changed whether "+n+" exists", id, wit)
				}
			}
		}
		if len(R.Samples) < 2 {
			R.Sample(map[string]any{"family": users})
		}
	}
}
