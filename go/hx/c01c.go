package main

import (
	"fmt"
	"math/rand"
	"os"
	"path/filepath"
	"sync"
	"time"

	"github.com/anishathalye/porcupine"
	"github.com/whawty/auth/store"
	"github.com/whawty/auth/zz_verif/ref"
	"github.com/whawty/auth/zz_verif/vr"
)

func init() { stages["c01conc"] = c01conc }

// c01conc: writers that share nothing but the directory (the command-line tool next to the daemon, or two
// library users): overlapping updates of the same user, each with a password nobody else writes.
// "Most recent successful update" is then decided by linearizability of the recorded history.

type c01cIn struct {
	User string `json:"user"`
	Kind string `json:"kind"` // upd | auth | exists
	Pw   string `json:"pw,omitempty"`
}

type c01cOut struct {
	OK    bool   `json:"ok"`
	Admin bool   `json:"admin,omitempty"`
	Err   string `json:"err,omitempty"`
}

type c01cState struct {
	pw    string
	admin bool
}

func c01cModel(init map[string]c01cState) porcupine.Model {
	return porcupine.Model{
		Partition: func(h []porcupine.Operation) [][]porcupine.Operation {
			by := map[string][]porcupine.Operation{}
			var order []string
			for _, o := range h {
				u := o.Input.(c01cIn).User
				if _, ok := by[u]; !ok {
					order = append(order, u)
				}
				by[u] = append(by[u], o)
			}
			var out [][]porcupine.Operation
			for _, u := range order {
				out = append(out, by[u])
			}
			return out
		},
		Init: func() any { return c01cState{pw: "\x00unset"} },
		Step: func(st, in, out any) (bool, any) {
			s := st.(c01cState)
			i := in.(c01cIn)
			o := out.(c01cOut)
			if s.pw == "\x00unset" {
				s = init[i.User]
			}
			switch i.Kind {
			case "upd":
				if o.OK {
					s.pw = i.Pw
				}
				return true, s // an update reporting failure must have had no effect
			case "auth":
				if o.OK != (s.pw == i.Pw) {
					return false, s
				}
				return !o.OK || o.Admin == s.admin, s
			case "exists":
				return o.OK && o.Admin == s.admin, s
			}
			return false, s
		},
		DescribeOperation: func(in, out any) string {
			i := in.(c01cIn)
			o := out.(c01cOut)
			return fmt.Sprintf("%s(%s,%s) -> %v %s", i.Kind, i.User, vr.Q(i.Pw), o.OK, o.Err)
		},
	}
}

func c01conc() {
	R := vr.New("C01", "concurrent-writers", "rounds of overlapping UpdateUser calls on the same users from 2-6 writers that share only the directory (one shared store handle, or one handle per writer as separate processes have), each writing a password nobody else writes, with concurrent Authenticate/Exists readers; every call is recorded at the library boundary with one monotonic clock, sequential final reads of every password ever written are appended after quiescence, and the history is checked by porcupine against a sequential per-user model (an update reporting failure has no effect; authenticate succeeds exactly for the password of the latest successful update). Afterwards .tmp must be empty and list must show every user. Non-trivial: a round in which >= 2 updates of one user overlapped in time; distinct by round")
	defer R.Write()
	rounds := vr.Pick(80, 800)
	root := filepath.Join(workDir(), "c01conc")
	for r := 0; r < rounds; r++ {
		id := fmt.Sprintf("r%d", r)
		if !R.Want(id) {
			continue
		}
		R.Mark(id)
		dir := filepath.Join(root, id)
		os.RemoveAll(dir) //nolint:errcheck
		c01cRound(R, R.Rand(id), id, dir)
		os.RemoveAll(dir) //nolint:errcheck
	}
}

func c01cRound(R *vr.Result, rng *rand.Rand, id, dir string) {
	base := filepath.Join(dir, "base")
	os.MkdirAll(base, 0700) //nolint:errcheck
	cfg := filepath.Join(dir, "store.yml")
	sets := ref.CheapSets(rng, 2)
	def := uint(1 + rng.Intn(2))
	os.WriteFile(cfg, []byte(ref.YAML(base, def, sets)), 0600) //nolint:errcheck
	nw := 2 + rng.Intn(5)
	shared := rng.Intn(2) == 0
	open := func() *store.Dir {
		d, err := store.NewDirFromConfig(cfg)
		if err != nil {
			R.Fatal = "NewDirFromConfig: " + err.Error()
			return nil
		}
		return d
	}
	d0 := open()
	if d0 == nil {
		return
	}
	users := []string{"alice", "bob"}[:1+rng.Intn(2)]
	init := map[string]c01cState{}
	cands := map[string][]string{}
	for i, u := range users {
		pw := fmt.Sprintf("init-%s-%s", u, ref.Password(rng))
		if err := d0.AddUser(u, pw, i == 0); err != nil {
			R.Fatal = "setup AddUser: " + err.Error()
			return
		}
		init[u] = c01cState{pw: pw, admin: i == 0}
		cands[u] = []string{pw}
	}
	type plan struct {
		d   *store.Dir
		ops []c01cIn
	}
	var writers []plan
	for w := 0; w < nw; w++ {
		d := d0
		if !shared {
			if d = open(); d == nil {
				return
			}
		}
		p := plan{d: d}
		for k := 0; k < 1+rng.Intn(3); k++ {
			u := users[rng.Intn(len(users))]
			pw := fmt.Sprintf("%s#%s.%d.%d", ref.Password(rng), id, w, k)
			cands[u] = append(cands[u], pw)
			p.ops = append(p.ops, c01cIn{User: u, Kind: "upd", Pw: pw})
		}
		writers = append(writers, p)
	}
	var readers []plan
	for rd := 0; rd < 2; rd++ {
		p := plan{d: d0}
		for k := 0; k < 6; k++ {
			u := users[rng.Intn(len(users))]
			if rng.Intn(4) == 0 {
				p.ops = append(p.ops, c01cIn{User: u, Kind: "exists"})
			} else {
				p.ops = append(p.ops, c01cIn{User: u, Kind: "auth", Pw: cands[u][rng.Intn(len(cands[u]))]})
			}
		}
		readers = append(readers, p)
	}
	var mu sync.Mutex
	var ops []porcupine.Operation
	start := time.Now()
	do := func(client int, d *store.Dir, in c01cIn) {
		var out c01cOut
		call := time.Since(start).Nanoseconds()
		p := vr.Safe(func() {
			switch in.Kind {
			case "upd":
				err := d.UpdateUser(in.User, in.Pw)
				out.OK = err == nil
				out.Err = errStr(err)
			case "auth":
				ok, adm, _, _, err := d.Authenticate(in.User, in.Pw)
				out.OK, out.Admin, out.Err = ok, adm, errStr(err)
			case "exists":
				ex, adm, err := d.Exists(in.User)
				out.OK, out.Admin, out.Err = ex, adm, errStr(err)
			}
		})
		ret := time.Since(start).Nanoseconds()
		if p != "" {
			R.Violate("c01:concurrent:panic:"+in.Kind, p, id, in)
		}
		mu.Lock()
		ops = append(ops, porcupine.Operation{ClientId: client, Input: in, Call: call, Output: out, Return: ret})
		mu.Unlock()
	}
	var wg sync.WaitGroup
	gate := make(chan struct{})
	for i, p := range append(writers, readers...) {
		wg.Add(1)
		go func(i int, p plan) {
			defer wg.Done()
			<-gate
			for _, in := range p.ops {
				do(i, p.d, in)
			}
		}(i, p)
	}
	close(gate)
	wg.Wait()
	// overlap statistics before the sequential tail is appended
	overl := 0
	nupd, nfail := 0, 0
	for i, a := range ops {
		ai := a.Input.(c01cIn)
		if ai.Kind != "upd" {
			continue
		}
		nupd++
		if !a.Output.(c01cOut).OK {
			nfail++
		}
		for _, b := range ops[i+1:] {
			bi := b.Input.(c01cIn)
			if bi.Kind == "upd" && bi.User == ai.User && a.Call < b.Return && b.Call < a.Return {
				overl++
			}
		}
	}
	final := nw + 2
	for _, u := range users {
		do(final, d0, c01cIn{User: u, Kind: "exists"})
		for _, pw := range cands[u] {
			do(final, d0, c01cIn{User: u, Kind: "auth", Pw: pw})
		}
	}
	R.Case(id, overl >= 1)
	R.Count("conc_histories", 1)
	R.Count("conc_updates", nupd)
	R.Count("conc_failed_updates", nfail)
	R.Count("conc_overlapping_update_pairs", overl)
	R.Count("conc_operations", len(ops))
	res, info := porcupine.CheckOperationsVerbose(c01cModel(init), ops, 30*time.Second)
	switch res {
	case porcupine.Unknown:
		R.Inconcl("porcupine timed out on " + id)
	case porcupine.Illegal:
		var wit []string
		for _, o := range ops {
			i := o.Input.(c01cIn)
			out := o.Output.(c01cOut)
			wit = append(wit, fmt.Sprintf("[%d] %d..%d %s(%s,%s) -> ok=%v admin=%v %s", o.ClientId, o.Call, o.Return, i.Kind, i.User, vr.Q(i.Pw), out.OK, out.Admin, out.Err))
		}
		_ = info
		what := "history of overlapping updates is not linearizable"
		sig := "c01:concurrent:not-linearizable"
		if nfail > 0 {
			sig += ":with-failed-update"
		}
		R.Violate(sig, what, id, map[string]any{"shared_handle": shared, "history": wit})
	}
	if tmp, _ := os.ReadDir(filepath.Join(base, ".tmp")); len(tmp) > 0 && nfail == 0 {
		R.Violate("c01:concurrent:tmp-residue", fmt.Sprintf("%d files left in .tmp after all updates reported success", len(tmp)), id, nil)
	}
	if l, err := d0.List(); err != nil || len(l) != len(users) {
		R.Violate("c01:concurrent:list", fmt.Sprintf("List after the round: %d entries (%v), want %d", len(l), err, len(users)), id, nil)
	}
	if r := rng.Intn(20); r == 0 {
		R.Sample(map[string]any{"round": id, "writers": nw, "shared_handle": shared, "updates": nupd, "overlapping_pairs": overl, "operations": len(ops)})
	}
}
