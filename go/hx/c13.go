package main

import (
	"bytes"
	"fmt"
	"io"
	"math/rand"
	"os"
	"path/filepath"
	"sort"
	"strings"
	"sync"

	"github.com/whawty/auth/sasl"
	"github.com/whawty/auth/zz_verif/ref"
	"github.com/whawty/auth/zz_verif/vr"
)

func init() { stages["c13"] = c13 }

// fragReader delivers data in scripted chunks; a chunk of size 0 is a zero-length read;
// if eofWithLast is set the final chunk is returned together with io.EOF.
type fragReader struct {
	data        []byte
	chunks      []int
	i           int
	eofWithLast bool
}

func (f *fragReader) Read(p []byte) (int, error) {
	if len(f.data) == 0 {
		return 0, io.EOF
	}
	n := len(f.data)
	if f.i < len(f.chunks) {
		n = f.chunks[f.i]
		f.i++
	}
	if n > len(f.data) {
		n = len(f.data)
	}
	if n > len(p) {
		n = len(p)
	}
	copy(p, f.data[:n])
	f.data = f.data[n:]
	if len(f.data) == 0 && f.eofWithLast && n > 0 {
		return n, io.EOF
	}
	return n, nil
}

type c13Res struct {
	OK     bool
	Fields [4]string
	Result bool
	Msg    string
	Panic  string
}

func decodeReq(r io.Reader) (out c13Res) {
	out.Panic = vr.Safe(func() {
		var q sasl.Request
		if err := q.Decode(r); err == nil {
			out.OK = true
			out.Fields = [4]string{q.Login, q.Password, q.Service, q.Realm}
		}
	})
	return
}

func decodeResp(r io.Reader) (out c13Res) {
	out.Panic = vr.Safe(func() {
		var q sasl.Response
		if err := q.Decode(r); err == nil {
			out.OK = true
			out.Result, out.Msg = q.Result, q.Message
		}
	})
	return
}

func content(rng *rand.Rand, class, n int) []byte {
	b := make([]byte, n)
	switch class {
	case 0:
		for i := range b {
			b[i] = 'a' + byte(i%26)
		}
	case 1:
		rng.Read(b)
	default: // bytes that look like length prefixes / NULs
		for i := range b {
			b[i] = []byte{0, 1, 0xff, 0, 2, 'O', 'K', 0}[i%8]
		}
	}
	return b
}

func fragmentations(rng *rand.Rand, n int, all2way bool) [][]int {
	var out [][]int
	ones := make([]int, n)
	for i := range ones {
		ones[i] = 1
	}
	out = append(out, ones)
	if all2way {
		for i := 1; i < n; i++ {
			out = append(out, []int{i, n - i})
		}
	} else {
		for k := 0; k < 6 && n > 1; k++ {
			i := 1 + rng.Intn(n-1)
			out = append(out, []int{i, n - i})
		}
	}
	for k := 0; k < 4; k++ { // random k-way with zero-length reads interleaved (<=3 consecutive)
		var c []int
		left := n
		for left > 0 {
			if rng.Intn(3) == 0 {
				for z := 0; z < 1+rng.Intn(3); z++ {
					c = append(c, 0)
				}
			}
			m := 1 + rng.Intn(1+left/2+1)
			if m > left {
				m = left
			}
			c = append(c, m)
			left -= m
		}
		out = append(out, c)
	}
	return out
}

func c13() {
	R := vr.New("C13", "codec", "(a) encoder exactness + round trip for all 5^4 combinations of request field lengths {0,1,255,256,257} x 3 content classes and response messages around the limits; (b) decoder vs. reference decoder on mutated encodings, random bytes and the repository's fuzz corpus; (c) fragment independence: each input decoded under 1-byte reads, 2-way splits, random k-way splits with zero-length reads and data+EOF delivery must equal the one-piece result. Non-trivial: input is not an unmodified in-limit encoding decoded in one piece; distinct by (kind, input bytes)")
	defer R.Write()
	rng := R.Rand("c13")
	lens := []int{0, 1, 255, 256, 257}
	// (a) encoder
	for cls := 0; cls < 3; cls++ {
		for _, a := range lens {
			for _, b := range lens {
				for _, c := range lens {
					for _, d := range lens {
						f := [4][]byte{content(rng, cls, a), content(rng, cls, b), content(rng, cls, c), content(rng, cls, d)}
						id := fmt.Sprintf("enc/%d/%d-%d-%d-%d", cls, a, b, c, d)
						if !R.Want(id) {
							continue
						}
						c13Encode(R, id, f)
					}
				}
			}
		}
	}
	// 65535/65536 where the type allows
	for _, n := range []int{258, 4096, 65535, 65536, 70000} {
		for pos := 0; pos < 4; pos++ {
			f := [4][]byte{[]byte("u"), []byte("p"), nil, nil}
			f[pos] = content(rng, 1, n)
			c13Encode(R, fmt.Sprintf("enc/big/%d@%d", n, pos), f)
		}
	}
	// responses
	for _, res := range []bool{true, false} {
		for _, n := range []int{0, 1, 2, 3, 100, 252, 253, 254, 255, 256, 300, 65532, 65533, 65534, 70000} {
			for cls := 0; cls < 3; cls++ {
				c13EncodeResp(R, fmt.Sprintf("encresp/%v/%d/%d", res, n, cls), res, content(rng, cls, n))
			}
		}
	}
	// (b)+(c) decoder inputs
	var inputs [][]byte
	mk := func(a, b, c, d int) []byte {
		return ref.EncodeParts(content(rng, rng.Intn(3), a), content(rng, rng.Intn(3), b), content(rng, rng.Intn(3), c), content(rng, rng.Intn(3), d))
	}
	nb := vr.Pick(400, 6000)
	for i := 0; i < nb; i++ {
		l := func() int { return []int{0, 1, 2, 17, 255, 256, 257, 300}[rng.Intn(8)] }
		v := mk(l(), l(), l(), l())
		inputs = append(inputs, v)
		// truncations, bit flips in length bytes, trailing garbage
		if len(v) > 0 {
			inputs = append(inputs, v[:rng.Intn(len(v))])
			w := append([]byte{}, v...)
			w[rng.Intn(len(w))] ^= 1 << uint(rng.Intn(8))
			inputs = append(inputs, w)
			g := make([]byte, rng.Intn(600))
			rng.Read(g)
			inputs = append(inputs, append(append([]byte{}, v...), g...))
		}
		r := make([]byte, rng.Intn(40))
		rng.Read(r)
		inputs = append(inputs, r)
	}
	// every truncation of one typical request
	typ := ref.EncodeParts([]byte("login"), []byte("secret"), []byte("imap"), []byte("realm"))
	for i := 0; i <= len(typ); i++ {
		inputs = append(inputs, typ[:i])
	}
	for _, dir := range []string{"sasl/request-fuzzd/corpus", "sasl/response-fuzzd/corpus"} {
		files, _ := filepath.Glob(filepath.Join(os.Getenv("VERIF_REPO"), dir, "*"))
		sort.Strings(files)
		for _, f := range files {
			if b, err := os.ReadFile(f); err == nil {
				inputs = append(inputs, b)
				R.Count("corpus_files", 1)
			}
		}
	}
	// response-shaped inputs
	for _, s := range []string{"OK", "NO", "O", "", "OKAY", "ok", "NO x", "OK successfully authenticated", "XX", "OK\x00", "N"} {
		inputs = append(inputs, ref.EncodeParts([]byte(s)))
		inputs = append(inputs, ref.EncodeParts([]byte(s))[:len(s)+1])
	}
	for _, n := range []int{253, 254, 255, 256, 257} {
		inputs = append(inputs, ref.EncodeParts(append([]byte("NO "), content(rng, 1, n-3)...)))
	}
	for i, in := range inputs {
		id := fmt.Sprintf("dec/%d", i)
		if !R.Want(id) {
			continue
		}
		R.Mark(id)
		c13Decode(R, rng, id, in)
	}
	c13Retained(R, rng)
}

// c13Retained: the bytes an encoder call returned stay what they were - a caller may encode a batch of messages (or
// several goroutines may encode at the same time) before any of the results is written out.
func c13Retained(R *vr.Result, rng *rand.Rand) {
	type kept struct {
		what      string
		got, want []byte
	}
	mk := func(i int) (string, func() ([]byte, error), []byte) {
		if i%3 == 2 {
			ok := i%2 == 0
			msg := content(rng, 1, rng.Intn(40))
			text := map[bool]string{true: "OK", false: "NO"}[ok]
			if len(msg) > 0 {
				text += " " + string(msg)
			}
			r := sasl.Response{Result: ok, Message: string(msg)}
			return fmt.Sprintf("response(%v,%d bytes)", ok, len(msg)), r.Marshal, ref.EncodeParts([]byte(text))
		}
		f := [4][]byte{content(rng, i%3, 1+rng.Intn(40)), content(rng, 1, rng.Intn(300)%257), content(rng, 0, rng.Intn(10)), content(rng, 0, rng.Intn(10))}
		q := sasl.Request{Login: string(f[0]), Password: string(f[1]), Service: string(f[2]), Realm: string(f[3])}
		return fmt.Sprintf("request%v", lensOf(f)), q.Marshal, ref.EncodeParts(f[0], f[1], f[2], f[3])
	}
	check := func(id string, ks []kept) {
		for i, k := range ks {
			R.Case(fmt.Sprintf("retained|%s|%d|%x", id, i, k.want), true)
			R.Count("retained_encodings_compared", 1)
			if !bytes.Equal(k.got, k.want) {
				R.Violate("c13:encoding-changes-after-later-encode:"+strings.SplitN(id, "/", 2)[0], fmt.Sprintf("the bytes returned by Marshal for %s (#%d of a batch of %d) no longer equal the wire format once the later messages of the batch have been encoded: the returned slice shares memory with later calls", k.what, i, len(ks)), "retained/"+id, map[string]any{"got": vr.Hex(k.got), "want": vr.Hex(k.want)})
				return
			}
		}
	}
	if R.Want("retained/batch") {
		R.Mark("retained/batch")
		for b := 0; b < vr.Pick(40, 400); b++ {
			var ks []kept
			for i := 0; i < 2+rng.Intn(12); i++ {
				what, f, want := mk(b + i)
				var got []byte
				var err error
				if p := vr.Safe(func() { got, err = f() }); p != "" || err != nil {
					continue
				}
				ks = append(ks, kept{what, got, want})
			}
			check(fmt.Sprintf("batch/%d", b), ks)
		}
	}
	if R.Want("retained/concurrent") {
		R.Mark("retained/concurrent")
		type job struct {
			what string
			f    func() ([]byte, error)
			want []byte
		}
		var jobs []job
		for i := 0; i < vr.Pick(2000, 20000); i++ {
			w, f, want := mk(i)
			jobs = append(jobs, job{w, f, want})
		}
		res := make([][]kept, 8)
		var wg sync.WaitGroup
		for w := 0; w < 8; w++ {
			wg.Add(1)
			go func(w int) {
				defer wg.Done()
				for i := w; i < len(jobs); i += 8 {
					got, err := jobs[i].f()
					if err == nil {
						res[w] = append(res[w], kept{jobs[i].what, got, jobs[i].want})
					}
				}
			}(w)
		}
		wg.Wait()
		for w := range res {
			check(fmt.Sprintf("concurrent/%d", w), res[w])
		}
	}
}

func c13Encode(R *vr.Result, id string, f [4][]byte) {
	q := sasl.Request{Login: string(f[0]), Password: string(f[1]), Service: string(f[2]), Realm: string(f[3])}
	over := false
	for _, x := range f {
		if len(x) > ref.WireMax {
			over = true
		}
	}
	var buf bytes.Buffer
	var err, merr error
	var mdata []byte
	if p := vr.Safe(func() { err = q.Encode(&buf); mdata, merr = q.Marshal() }); p != "" {
		R.Violate("c13:panic:encode", p, id, lensOf(f))
		return
	}
	R.Case("enc"+id+string(bytes.Join(f[:], []byte{0})), true)
	want := ref.EncodeParts(f[0], f[1], f[2], f[3])
	if over {
		R.Count("over_limit_encodes", 1)
		if err == nil || merr == nil {
			R.Violate("c13:encoder-accepts-overlong-field", fmt.Sprintf("Encode err=%v Marshal err=%v for field lengths %v", err, merr, lensOf(f)), id, lensOf(f))
		}
		// the decoder must refuse the over-long encoding too (if it is expressible with 16-bit lengths)
		if l := lensOf(f); l[0] > 65535 || l[1] > 65535 || l[2] > 65535 || l[3] > 65535 {
			return
		}
		if r := decodeReq(bytes.NewReader(want)); r.OK || r.Panic != "" {
			R.Violate("c13:decoder-accepts-overlong-field", fmt.Sprintf("Decode accepted an encoding with field lengths %v (panic %q)", lensOf(f), r.Panic), id, lensOf(f))
		}
		return
	}
	R.Count("in_limit_encodes", 1)
	if err != nil || merr != nil {
		R.Violate("c13:encoder-refuses-in-limit", fmt.Sprintf("Encode err=%v Marshal err=%v for field lengths %v", err, merr, lensOf(f)), id, lensOf(f))
		return
	}
	if !bytes.Equal(buf.Bytes(), want) || !bytes.Equal(mdata, want) {
		R.Violate("c13:request-encoding-differs", fmt.Sprintf("encoding differs from the wire format for field lengths %v", lensOf(f)), id, map[string]any{"got": vr.Hex(buf.Bytes()), "marshal": vr.Hex(mdata), "want": vr.Hex(want)})
		return
	}
	r := decodeReq(bytes.NewReader(want))
	if len(f[0]) == 0 || len(f[1]) == 0 {
		if r.OK && (r.Fields != [4]string{q.Login, q.Password, q.Service, q.Realm}) {
			R.Violate("c13:roundtrip-differs", "decode(encode(x)) != x", id, lensOf(f))
		}
		return
	}
	if !r.OK || r.Fields != [4]string{q.Login, q.Password, q.Service, q.Realm} {
		R.Violate("c13:roundtrip-differs", fmt.Sprintf("decode(encode(x)) != x for field lengths %v (ok=%v panic=%q)", lensOf(f), r.OK, r.Panic), id, lensOf(f))
	}
	R.Count("roundtrips", 1)
}

func lensOf(f [4][]byte) []int { return []int{len(f[0]), len(f[1]), len(f[2]), len(f[3])} }

func c13EncodeResp(R *vr.Result, id string, res bool, msg []byte) {
	q := sasl.Response{Result: res, Message: string(msg)}
	var buf bytes.Buffer
	var err, merr error
	var mdata []byte
	if p := vr.Safe(func() { err = q.Encode(&buf); mdata, merr = q.Marshal() }); p != "" {
		R.Violate("c13:panic:encode-response", p, id, len(msg))
		return
	}
	R.Case("encresp"+id+string(msg), true)
	text := []byte("NO")
	if res {
		text = []byte("OK")
	}
	if len(msg) > 0 {
		text = append(append(text, ' '), msg...)
	}
	if len(text) > 65535 {
		if err == nil || merr == nil {
			R.Violate("c13:response-encoder-accepts-unencodable", fmt.Sprintf("a %d-byte response text cannot be length-prefixed with 16 bits but Encode returned %v / %v", len(text), err, merr), id, len(msg))
		}
		return
	}
	if err != nil || merr != nil {
		return // refusing long messages is allowed
	}
	want := ref.EncodeParts(text)
	if !bytes.Equal(buf.Bytes(), want) || !bytes.Equal(mdata, want) {
		R.Violate("c13:response-encoding-differs", fmt.Sprintf("response encoding differs from the wire format (result=%v, message %d bytes)", res, len(msg)), id, map[string]any{"got": vr.Hex(buf.Bytes()), "want": vr.Hex(want)})
		return
	}
	if len(text) <= ref.WireMax {
		r := decodeResp(bytes.NewReader(want))
		if !r.OK || r.Result != res || r.Msg != string(msg) {
			R.Violate("c13:response-roundtrip-differs", fmt.Sprintf("decode(encode(response)) differs: ok=%v result=%v msg=%s", r.OK, r.Result, vr.Q(r.Msg)), id, map[string]any{"result": res, "msg": vr.Q(string(msg))})
		}
		R.Count("roundtrips", 1)
	}
}

func c13Decode(R *vr.Result, rng *rand.Rand, id string, in []byte) {
	// one-piece results
	one := decodeReq(bytes.NewReader(in))
	oneR := decodeResp(bytes.NewReader(in))
	fields, consumed, valid, exact, why := ref.ReqValid(in)
	res, msg, rconsumed, rvalid, rwhy := ref.RespValid(in)
	R.Case(fmt.Sprintf("dec%x", in), !(valid && exact))
	wit := map[string]any{"input": vr.Hex(in), "ref_request": why, "ref_response": rwhy}
	if one.Panic != "" || oneR.Panic != "" {
		R.Violate("c13:panic:decode", one.Panic+oneR.Panic, id, wit)
		return
	}
	if one.OK != valid {
		R.Violate(fmt.Sprintf("c13:request-decoder-disagrees:impl=%v:ref=%v", one.OK, valid), "request decoder and reference decoder disagree on validity: "+why, id, wit)
	} else if valid {
		R.Count("valid_requests", 1)
		for i := 0; i < 4; i++ {
			if one.Fields[i] != string(fields[i]) {
				R.Violate("c13:request-decoder-fields-differ", fmt.Sprintf("field %d differs", i), id, wit)
			}
		}
		q := sasl.Request{Login: one.Fields[0], Password: one.Fields[1], Service: one.Fields[2], Realm: one.Fields[3]}
		if re, err := q.Marshal(); err != nil || !bytes.Equal(re, in[:consumed]) {
			R.Violate("c13:reencode-differs-from-consumed", fmt.Sprintf("re-encoding a decoded request does not give the consumed bytes (err=%v)", err), id, wit)
		}
	} else {
		R.Count("invalid_requests", 1)
	}
	if oneR.OK != rvalid {
		R.Violate(fmt.Sprintf("c13:response-decoder-disagrees:impl=%v:ref=%v", oneR.OK, rvalid), "response decoder and reference disagree: "+rwhy, id, wit)
	} else if rvalid {
		R.Count("valid_responses", 1)
		if oneR.Result != res || oneR.Msg != string(msg) {
			R.Violate("c13:response-decoder-fields-differ", "result/message differ from the reference", id, wit)
		}
		_ = rconsumed
	}
	// fragment independence
	frs := fragmentations(rng, len(in), len(in) <= 40 || (vr.Thorough() && len(in) <= 700))
	for _, ch := range frs {
		for _, eofLast := range []bool{false, true} {
			a := decodeReq(&fragReader{data: append([]byte{}, in...), chunks: ch, eofWithLast: eofLast})
			b := decodeResp(&fragReader{data: append([]byte{}, in...), chunks: ch, eofWithLast: eofLast})
			R.Count("fragmented_decodes", 2)
			if a != one {
				R.Violate(fmt.Sprintf("c13:fragment-dependent:request:eof-with-data=%v", eofLast), fmt.Sprintf("request decode result depends on fragmentation: one-piece ok=%v, fragmented ok=%v panic=%q", one.OK, a.OK, a.Panic), id, map[string]any{"input": vr.Hex(in), "chunks": trimInts(ch), "eof_with_last_chunk": eofLast})
			}
			if b != oneR {
				R.Violate(fmt.Sprintf("c13:fragment-dependent:response:eof-with-data=%v", eofLast), fmt.Sprintf("response decode result depends on fragmentation: one-piece ok=%v, fragmented ok=%v panic=%q", oneR.OK, b.OK, b.Panic), id, map[string]any{"input": vr.Hex(in), "chunks": trimInts(ch), "eof_with_last_chunk": eofLast})
			}
		}
	}
	if len(in) < 80 {
		R.Sample(map[string]any{"case": id, "input": vr.Hex(in), "request_valid": valid, "response_valid": rvalid, "fragmentations": len(frs) * 2})
	}
}

func trimInts(c []int) []int {
	if len(c) > 40 {
		return append(append([]int{}, c[:40]...), -1)
	}
	return c
}
