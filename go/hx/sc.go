package main

// Drivers for the strace engine (sctrace): scprep builds a deterministic store,
// scdrv performs ONE operation between marker syscalls, scoracle judges a
// (post-crash / post-fault) directory from a fresh process.

import (
	"bytes"
	"crypto/sha1"
	"encoding/json"
	"fmt"
	"math/rand"
	"os"
	"path/filepath"
	"runtime"
	"strings"
	"syscall"

	"github.com/whawty/auth/store"
	"github.com/whawty/auth/zz_verif/ref"
)

func init() {
	stages["scprep"] = scprep
	stages["scdrv"] = scdrv
	stages["scoracle"] = scoracle
}

type scScenario struct {
	Name     string `json:"name"`
	Op       string `json:"op"` // init add update setadmin remove auth exists list listfull check
	User     string `json:"user"`
	Admin    bool   `json:"admin"`
	NewPw    string `json:"newpw"`
	OldPw    string `json:"oldpw"`
	AuxLen   int    `json:"auxlen"`
	AuxKind  string `json:"auxkind"`
	NoTmp    bool   `json:"notmp"`
	TmpKind  string `json:"tmpkind"` // "" dir | file | dangling | otherfs
	Algo     string `json:"algo"`    // default set algorithm: scrypt | argon
	Empty    bool   `json:"empty"`
	WasAdm   bool   `json:"wasadmin"`
	LinkHash bool   `json:"linkhash"` // <user>.user is a symlink to <dir>/outside/<user>.user
	Residue  bool   `json:"residue"`  // what interrupted earlier operations leave behind: empty erin.user / frank.admin (names reserved by adds that were killed)
}

func scScenarios() []scScenario {
	var out []scScenario
	for _, algo := range []string{"scrypt", "argon"} {
		a := algo
		out = append(out,
			scScenario{Name: "init-" + a, Op: "init", User: "root", NewPw: "init-pw", Algo: a, Empty: true},
			scScenario{Name: "add-user-" + a, Op: "add", User: "bob", NewPw: "bob-new", Algo: a},
			scScenario{Name: "update-noaux-" + a, Op: "update", User: "alice", OldPw: "alice-old", NewPw: "alice-new", Algo: a},
		)
	}
	out = append(out,
		scScenario{Name: "add-admin", Op: "add", User: "bob", Admin: true, NewPw: "bob-new", Algo: "scrypt"},
		scScenario{Name: "add-user-notmp", Op: "add", User: "bob", NewPw: "bob-new", Algo: "argon", NoTmp: true},
		scScenario{Name: "update-aux100", Op: "update", User: "alice", OldPw: "alice-old", NewPw: "alice-new", AuxLen: 100, Algo: "scrypt"},
		scScenario{Name: "update-aux5k", Op: "update", User: "alice", OldPw: "alice-old", NewPw: "alice-new", AuxLen: 5000, Algo: "argon"},
		scScenario{Name: "update-aux70k-oneline", Op: "update", User: "alice", OldPw: "alice-old", NewPw: "alice-new", AuxLen: 70000, AuxKind: "oneline", Algo: "scrypt"},
		scScenario{Name: "update-aux1m", Op: "update", User: "alice", OldPw: "alice-old", NewPw: "alice-new", AuxLen: 1 << 20, AuxKind: "binary", Algo: "scrypt"},
		scScenario{Name: "update-aux-crlf-nonl", Op: "update", User: "alice", OldPw: "alice-old", NewPw: "alice-new", AuxLen: 300, AuxKind: "crlf-nonl", Algo: "argon"},
		scScenario{Name: "update-admin", Op: "update", User: "carol", OldPw: "carol-old", NewPw: "carol-new", AuxLen: 64, Algo: "argon", WasAdm: true},
		scScenario{Name: "update-notmp", Op: "update", User: "alice", OldPw: "alice-old", NewPw: "alice-new", AuxLen: 100, Algo: "scrypt", NoTmp: true},
		// the work area is unusable: the operation must fail without creating anything anywhere else
		scScenario{Name: "add-user-tmp-is-file", Op: "add", User: "bob", NewPw: "bob-new", Algo: "scrypt", TmpKind: "file"},
		scScenario{Name: "update-tmp-is-file", Op: "update", User: "alice", OldPw: "alice-old", NewPw: "alice-new", AuxLen: 100, Algo: "argon", TmpKind: "file"},
		scScenario{Name: "update-tmp-dangling-symlink", Op: "update", User: "alice", OldPw: "alice-old", NewPw: "alice-new", AuxLen: 100, Algo: "scrypt", TmpKind: "dangling"},
		// the work area is a link to a directory on another file system: rename(2) from it fails with EXDEV
		scScenario{Name: "update-tmp-otherfs", Op: "update", User: "alice", OldPw: "alice-old", NewPw: "alice-new", AuxLen: 5000, Algo: "scrypt", TmpKind: "otherfs"},
		scScenario{Name: "add-user-tmp-otherfs", Op: "add", User: "bob", NewPw: "bob-new", Algo: "argon", TmpKind: "otherfs"},
		// the user's hash file is a symbolic link to a file kept outside the base directory
		scScenario{Name: "update-hashfile-symlink", Op: "update", User: "alice", OldPw: "alice-old", NewPw: "alice-new", AuxLen: 100, Algo: "scrypt", LinkHash: true},
		scScenario{Name: "setadmin-up", Op: "setadmin", User: "alice", Admin: true, OldPw: "alice-old", AuxLen: 50, Algo: "scrypt"},
		scScenario{Name: "setadmin-down", Op: "setadmin", User: "carol", Admin: false, OldPw: "carol-old", AuxLen: 50, Algo: "scrypt", WasAdm: true},
		scScenario{Name: "setadmin-same", Op: "setadmin", User: "carol", Admin: true, OldPw: "carol-old", Algo: "scrypt", WasAdm: true},
		scScenario{Name: "remove-user", Op: "remove", User: "alice", OldPw: "alice-old", Algo: "scrypt"},
		scScenario{Name: "remove-admin", Op: "remove", User: "carol", OldPw: "carol-old", Algo: "scrypt", WasAdm: true},
		scScenario{Name: "remove-nonexistent", Op: "remove", User: "nobody", Algo: "scrypt"},
		// failing (semantic) operations
		scScenario{Name: "add-existing", Op: "add", User: "alice", NewPw: "x-new", OldPw: "alice-old", Algo: "scrypt"},
		scScenario{Name: "update-nonexistent", Op: "update", User: "nobody", NewPw: "x-new", Algo: "scrypt"},
		scScenario{Name: "setadmin-nonexistent", Op: "setadmin", User: "nobody", Admin: true, Algo: "scrypt"},
		scScenario{Name: "init-nonempty", Op: "init", User: "root2", NewPw: "x-new", Algo: "scrypt"},
		// read-only operations
		scScenario{Name: "ro-auth-ok", Op: "auth", User: "alice", OldPw: "alice-old", Algo: "scrypt", AuxLen: 100},
		scScenario{Name: "ro-auth-wrong", Op: "auth", User: "alice", OldPw: "nope", Algo: "scrypt"},
		scScenario{Name: "ro-auth-upgradeable", Op: "auth-upgradeable", User: "dave", OldPw: "dave-old", Algo: "scrypt"},
		scScenario{Name: "ro-auth-nonexistent", Op: "auth", User: "nobody", OldPw: "x", Algo: "argon"},
		scScenario{Name: "ro-exists", Op: "exists", User: "alice", Algo: "scrypt"},
		scScenario{Name: "ro-list", Op: "list", Algo: "scrypt"},
		scScenario{Name: "ro-listfull", Op: "listfull", Algo: "argon"},
		scScenario{Name: "ro-check", Op: "check", Algo: "scrypt"},
		// the same calls on a store that carries the residue of interrupted operations
		scScenario{Name: "ro-auth-empty-reservation", Op: "auth", User: "erin", OldPw: "x", Algo: "scrypt", Residue: true},
		scScenario{Name: "ro-auth-empty-admin-reservation", Op: "auth", User: "frank", OldPw: "", Algo: "argon", Residue: true},
		scScenario{Name: "ro-exists-empty-reservation", Op: "exists", User: "frank", Algo: "scrypt", Residue: true},
		scScenario{Name: "ro-list-residue", Op: "list", Algo: "scrypt", Residue: true},
		scScenario{Name: "ro-listfull-residue", Op: "listfull", Algo: "argon", Residue: true},
		scScenario{Name: "ro-check-residue", Op: "check", Algo: "scrypt", Residue: true},
		scScenario{Name: "ro-auth-ok-residue", Op: "auth", User: "alice", OldPw: "alice-old", Algo: "scrypt", AuxLen: 100, Residue: true},
	)
	return out
}

func scFind(name string) scScenario {
	for _, s := range scScenarios() {
		if s.Name == name {
			return s
		}
	}
	fmt.Fprintln(os.Stderr, "unknown scenario", name)
	os.Exit(2)
	return scScenario{}
}

func scSets() []ref.ParamSet {
	rng := rand.New(rand.NewSource(4242))
	key := make([]byte, 32)
	rng.Read(key)
	return []ref.ParamSet{
		{ID: 1, Algo: ref.AlgoScrypt, HmacKey: key, Cost: 2, R: 1, P: 1},
		{ID: 2, Algo: ref.AlgoArgon, Time: 1, Memory: 8, Threads: 1, Length: 32},
	}
}

func scAux(sc scScenario, rng *rand.Rand) []byte {
	if sc.AuxLen == 0 {
		return nil
	}
	b := make([]byte, sc.AuxLen)
	switch sc.AuxKind {
	case "binary":
		rng.Read(b)
	case "oneline":
		for i := range b {
			b[i] = 'A' + byte(i%26)
		}
		copy(b, "u2f: ")
		b[len(b)-1] = '\n'
	case "crlf-nonl":
		s := strings.Repeat("totp: QUJDREVG\r\n\r\nhmac_sha256_scrypt:1:1:QUJD:REVG\r\n", 1+sc.AuxLen/50)
		copy(b, s)
		b[len(b)-1] = 'x' // no trailing newline
	default:
		s := strings.Repeat("totp: QUJDREVGR0hJSktMTU5PUFFSU1RVVldYWVo=\n", 1+sc.AuxLen/40)
		copy(b, s)
		b[len(b)-1] = '\n'
	}
	return b
}

// scprep <scenario> <dir>: builds <dir>/base, <dir>/store.yml deterministically.
func scprep() {
	sc := scFind(os.Args[2])
	dir := os.Args[3]
	base := filepath.Join(dir, "base")
	os.RemoveAll(dir) //nolint:errcheck
	if err := os.MkdirAll(base, 0700); err != nil {
		fmt.Fprintln(os.Stderr, err)
		os.Exit(2)
	}
	sets := scSets()
	def := uint(1)
	if sc.Algo == "argon" {
		def = 2
	}
	os.WriteFile(filepath.Join(dir, "store.yml"), []byte(ref.YAML(base, def, sets)), 0600) //nolint:errcheck
	if !sc.Empty {
		rng := rand.New(rand.NewSource(99))
		plant := func(name, ext, pw string, set int, aux []byte) {
			ps := sets[set-1]
			salt := make([]byte, ps.SaltLen())
			rng.Read(salt)
			data := append([]byte(ps.Record([]byte(pw), salt, 1700000000)+"\n"), aux...)
			os.WriteFile(filepath.Join(base, name+ext), data, 0600) //nolint:errcheck
		}
		aux := scAux(sc, rng)
		var auxA, auxC []byte
		if sc.User == "alice" {
			auxA = aux
		}
		if sc.User == "carol" {
			auxC = aux
		}
		plant("root", ".admin", "root-pw", int(def), nil)
		plant("alice", ".user", "alice-old", int(def), auxA)
		plant("carol", ".admin", "carol-old", 3-int(def), auxC)
		plant("dave", ".user", "dave-old", 3-int(def), []byte("totp: REFWRQ==\n"))
		if sc.LinkHash {
			out := filepath.Join(dir, "outside")
			os.MkdirAll(out, 0700) //nolint:errcheck
			for _, ext := range []string{".user", ".admin"} {
				p := filepath.Join(base, sc.User+ext)
				if _, err := os.Stat(p); err == nil {
					os.Rename(p, filepath.Join(out, sc.User+ext))  //nolint:errcheck
					os.Symlink(filepath.Join(out, sc.User+ext), p) //nolint:errcheck
				}
			}
		}
		switch {
		case sc.TmpKind == "file":
			os.WriteFile(filepath.Join(base, ".tmp"), []byte("not a directory\n"), 0600) //nolint:errcheck
		case sc.TmpKind == "otherfs":
			// /dev/shm is a tmpfs; the name is derived from the run directory so that runs do not share it
			target := filepath.Join("/dev/shm", fmt.Sprintf("verif-tmp-%s-%x", os.Getenv("VERIF_SHM_TAG"), sha1.Sum([]byte(dir)))[:60])
			os.RemoveAll(target)                            //nolint:errcheck
			os.MkdirAll(target, 0700)                       //nolint:errcheck
			os.Symlink(target, filepath.Join(base, ".tmp")) //nolint:errcheck
		case sc.TmpKind == "dangling":
			os.Symlink(filepath.Join(dir, "does-not-exist", "tmp"), filepath.Join(base, ".tmp")) //nolint:errcheck
		case !sc.NoTmp:
			os.Mkdir(filepath.Join(base, ".tmp"), 0700) //nolint:errcheck
		}
		if sc.Residue {
			os.WriteFile(filepath.Join(base, "erin.user"), nil, 0600)   //nolint:errcheck
			os.WriteFile(filepath.Join(base, "frank.admin"), nil, 0600) //nolint:errcheck
		}
	}
}

func scMark(s string) { syscall.Access("/verif-mark:"+s, 0) } //nolint:errcheck

// scdrv <scenario> <dir> <result.json>
func scdrv() {
	runtime.LockOSThread()
	sc := scFind(os.Args[2])
	dir := os.Args[3]
	d, err := store.NewDirFromConfig(filepath.Join(dir, "store.yml"))
	if err != nil {
		fmt.Fprintln(os.Stderr, err)
		os.Exit(2)
	}
	res := map[string]any{"scenario": sc.Name}
	scMark("BEGIN:" + sc.Name)
	switch sc.Op {
	case "init":
		err = d.Init(sc.User, sc.NewPw)
	case "add":
		err = d.AddUser(sc.User, sc.NewPw, sc.Admin)
	case "update":
		err = d.UpdateUser(sc.User, sc.NewPw)
	case "setadmin":
		err = d.SetAdmin(sc.User, sc.Admin)
	case "remove":
		d.RemoveUser(sc.User)
	case "auth", "auth-upgradeable":
		var ok, up bool
		ok, _, up, _, err = d.Authenticate(sc.User, sc.OldPw)
		res["ok"], res["upgradeable"] = ok, up
		err = nil
	case "exists":
		var ex bool
		ex, _, err = d.Exists(sc.User)
		res["ok"] = ex
	case "list":
		_, err = d.List()
	case "listfull":
		_, err = d.ListFull()
	case "check":
		err = d.Check()
	}
	if err != nil {
		scMark("END:err")
		res["result"] = "error"
		res["error"] = err.Error()
	} else {
		scMark("END:ok")
		res["result"] = "ok"
	}
	out, _ := json.Marshal(res)
	os.WriteFile(os.Args[4], out, 0600) //nolint:errcheck
}

// scoracle <scenario> <template dir> <dir under judgement> <mode> : prints a JSON verdict.
// mode: "crash" (C08: state may be old or new), "acked" (C09: change must be visible), "failed" (C15: must equal template), "ro" (must equal template)
func scoracle() {
	sc := scFind(os.Args[2])
	tdir, dir, mode := os.Args[3], os.Args[4], os.Args[5]
	var problems []string
	bad := func(f string, a ...any) { problems = append(problems, fmt.Sprintf(f, a...)) }
	base := filepath.Join(dir, "base")
	tbase := filepath.Join(tdir, "base")
	// the directory under judgement may live elsewhere than the config says: write a config for it
	sets := scSets()
	def := uint(1)
	if sc.Algo == "argon" {
		def = 2
	}
	cfg := filepath.Join(dir, "oracle-store.yml")
	os.WriteFile(cfg, []byte(ref.YAML(base, def, sets)), 0600) //nolint:errcheck
	defer os.Remove(cfg)                                       //nolint:errcheck
	d, err := store.NewDirFromConfig(cfg)
	if err != nil {
		bad("oracle cannot open the store: %v", err)
	}
	tsnap := ref.TakeSnap(tbase)
	snap := ref.TakeSnap(base)
	target := map[string]bool{}
	if sc.User != "" {
		target[sc.User+".user"] = true
		target[sc.User+".admin"] = true
	}
	// every other file byte-identical; residue only under .tmp
	for p, e := range tsnap {
		if target[p] || p == "." || p == ".tmp" || strings.HasPrefix(p, ".tmp/") {
			continue
		}
		g, ok := snap[p]
		if !ok {
			bad("other file %s disappeared", p)
		} else if g.Hash != e.Hash || g.Type != e.Type {
			bad("other file %s changed", p)
		}
	}
	for p := range snap {
		if _, ok := tsnap[p]; !ok && !target[p] && p != ".tmp" && !strings.HasPrefix(p, ".tmp/") {
			bad("unexpected new object %s outside the work area", p)
		}
	}
	read := func(b, name string) ([]byte, bool) {
		data, err := os.ReadFile(filepath.Join(b, name))
		return data, err == nil
	}
	oldExt, newExt := ".user", ".user"
	if sc.WasAdm {
		oldExt, newExt = ".admin", ".admin"
	}
	if sc.Op == "add" || sc.Op == "init" {
		if sc.Admin || sc.Op == "init" {
			newExt = ".admin"
		} else {
			newExt = ".user"
		}
	}
	if sc.Op == "setadmin" {
		if sc.Admin {
			newExt = ".admin"
		} else {
			newExt = ".user"
		}
	}
	oldData, hadOld := read(tbase, sc.User+oldExt)
	state := "other"
	auth := func(pw string) bool {
		if d == nil {
			return false
		}
		ok, _, _, _, _ := d.Authenticate(sc.User, pw)
		return ok
	}
	cur, curOK := read(base, sc.User+newExt)
	curOld, curOldOK := read(base, sc.User+oldExt)
	_, otherExt := read(base, sc.User+map[string]string{".user": ".admin", ".admin": ".user"}[newExt])
	isNewRecord := func(data []byte) bool {
		// complete new record: strict first line under the default set for the new password + all old aux bytes
		line, rest, found := bytes.Cut(data, []byte("\n"))
		if !found {
			return false
		}
		var oldAux []byte
		if hadOld {
			_, oldAux, _ = bytes.Cut(oldData, []byte("\n"))
		}
		if !bytes.Equal(rest, oldAux) {
			return false
		}
		return ref.MustAccept(ref.SetMap(sets), append(append([]byte{}, line...), '\n'), []byte(sc.NewPw)) && func() bool {
			p, ok := ref.ParseStrict(append(append([]byte{}, line...), '\n'))
			return ok && p.ID == def
		}()
	}
	switch sc.Op {
	case "add", "init":
		switch {
		case !curOK && !otherExt:
			state = "absent"
		case curOK && len(cur) == 0:
			state = "empty-reservation"
		case curOK && isNewRecord(cur):
			state = "new"
		}
		if hadOld && sc.Op == "add" { // add-existing: target must be unchanged
			if curOldOK && bytes.Equal(curOld, oldData) {
				state = "old"
			} else {
				state = "other"
			}
		}
		if otherExt && !(hadOld && oldExt != newExt) {
			bad("user has a file with the other extension as well")
		}
	case "update":
		switch {
		case !hadOld && !curOK:
			state = "absent"
		case curOK && bytes.Equal(cur, oldData):
			state = "old"
		case curOK && isNewRecord(cur):
			state = "new"
		}
	case "setadmin":
		a, aok := read(base, sc.User+".admin")
		u, uok := read(base, sc.User+".user")
		switch {
		case !hadOld && !aok && !uok:
			state = "absent"
		case aok && uok:
			state = "both-extensions"
		case oldExt == ".admin" && aok && bytes.Equal(a, oldData), oldExt == ".user" && uok && bytes.Equal(u, oldData):
			state = "old"
			if oldExt == newExt {
				state = "new"
			}
		case newExt == ".admin" && aok && bytes.Equal(a, oldData), newExt == ".user" && uok && bytes.Equal(u, oldData):
			state = "new"
		}
	case "remove":
		_, aok := read(base, sc.User+".admin")
		_, uok := read(base, sc.User+".user")
		switch {
		case !aok && !uok:
			state = "new" // gone
			if !hadOld {
				state = "absent"
			}
		case hadOld && curOldOK && bytes.Equal(curOld, oldData):
			state = "old"
		}
	default: // read-only
		state = "n/a"
	}
	// password behaviour must match the file state
	if sc.User != "" && d != nil && sc.Op != "list" && sc.Op != "listfull" && sc.Op != "check" {
		oldWorks, newWorks := false, false
		if sc.OldPw != "" {
			oldWorks = auth(sc.OldPw)
		}
		if sc.NewPw != "" {
			newWorks = auth(sc.NewPw)
		}
		switch state {
		case "old":
			if sc.OldPw != "" && !oldWorks && sc.Op != "auth" {
				bad("file is the old record but the old password does not authenticate")
			}
			if newWorks {
				bad("file is the old record but the NEW password authenticates")
			}
		case "new":
			if sc.NewPw != "" && !newWorks {
				bad("file is the new record but the new password does not authenticate")
			}
			if sc.NewPw != "" && oldWorks {
				bad("file is the new record but the OLD password still authenticates")
			}
			if sc.Op == "remove" && oldWorks {
				bad("user removed but still authenticates")
			}
			if sc.Op == "setadmin" && sc.OldPw != "" && !oldWorks {
				bad("after set-admin the password no longer authenticates")
			}
		case "absent", "empty-reservation":
			if oldWorks || newWorks {
				bad("no record but a password authenticates")
			}
		}
		for _, pw := range []string{"", sc.NewPw + "x", sc.OldPw + "x", "alice-ol", "alice-ne", sc.NewPw + "\x00"} {
			if pw != sc.NewPw && pw != sc.OldPw && auth(pw) && !(pw == sc.NewPw+"\x00" && def == 1 && newWorks) {
				bad("third password %q authenticates", pw)
			}
		}
	}
	// consistency check: a store that passed before still passes
	td, terr := func() (*store.Dir, error) {
		tcfg := filepath.Join(dir, "oracle-template.yml")
		os.WriteFile(tcfg, []byte(ref.YAML(tbase, def, sets)), 0600) //nolint:errcheck
		defer os.Remove(tcfg)                                        //nolint:errcheck
		return store.NewDirFromConfig(tcfg)
	}()
	checkBefore := terr == nil && td.Check() == nil
	checkNow := d != nil && d.Check() == nil
	lastAdminRemoved := sc.Op == "remove" && sc.WasAdm && false
	if checkBefore && !checkNow && !lastAdminRemoved {
		bad("consistency check passed before the operation but fails now: %v", d.Check())
	}
	tmpEntries, _ := os.ReadDir(filepath.Join(base, ".tmp"))
	// verdict by mode
	switch mode {
	case "crash":
		okStates := map[string]bool{"old": true, "new": true}
		if sc.Op == "add" || sc.Op == "init" {
			okStates["absent"] = true
			okStates["empty-reservation"] = true
		}
		if !hadOld {
			okStates["absent"] = true
		}
		if !okStates[state] {
			bad("target file state %q is neither the complete old nor the complete new record", state)
		}
	case "acked":
		if state != "new" && !(state == "absent" && (sc.Op == "remove")) {
			bad("operation was acknowledged but the post-crash state shows %q instead of the change", state)
		}
	case "failed", "ro":
		diff := ref.Diff(tsnap, snap, ref.DiffOpts{Inode: mode == "ro", IgnorePath: func(rel string) bool { return rel == "." || rel == ".tmp" }})
		if len(diff) > 0 {
			bad("store differs from the state before the call: %v", diff)
		}
		if len(tmpEntries) > 0 {
			bad("%d leftover files in .tmp", len(tmpEntries))
		}
	}
	out, _ := json.Marshal(map[string]any{"state": state, "problems": problems, "tmp_residue": len(tmpEntries), "check_before": checkBefore, "check_now": checkNow})
	fmt.Println(string(out))
}

func init() {
	stages["c08readers"] = c08readers
	stages["c08writer"] = c08writer
	stages["c08writer2"] = c08writer2
}
