package main

import (
	"bytes"
	"encoding/base64"
	"fmt"
	"math/rand"
	"os"
	"path/filepath"
	"strings"
	"time"

	"github.com/whawty/auth/store"
	"github.com/whawty/auth/zz_verif/ref"
	"github.com/whawty/auth/zz_verif/vr"
)

func init() { stages["c14"] = c14 }

func c14() {
	R := vr.New("C14", "records", "stores built with NewDirFromConfig from generated YAML (scrypt cost 1-6, r in {omitted,0,1,2,8,16}, p in {omitted,0,1,2,3}; argon2id time 1-3, memory {8,16,64,1024} KiB, threads {1,2,4}, length {16,32,64}); after every add/update (incl. same-password rewrites of back-dated records and default switches) the written file is parsed strictly and its digest recomputed independently from the YAML parameters; salts collected for reuse; directory scanned for password / HMAC key bytes. Non-trivial: every write (each has a fresh password and salt); distinct by (parameter set, record line)")
	defer R.Write()
	root := filepath.Join(workDir(), "c14")
	os.RemoveAll(root) //nolint:errcheck
	rng := R.Rand("c14")
	salts := map[string]string{}
	ncfg := vr.Pick(40, 600)
	for ci := 0; ci < ncfg; ci++ {
		id := fmt.Sprintf("cfg%d", ci)
		if !R.Want(id) {
			continue
		}
		R.Mark(id)
		base := filepath.Join(root, id, "base")
		os.MkdirAll(base, 0700) //nolint:errcheck
		var sets []ref.ParamSet
		nsets := 2 + rng.Intn(3)
		for i := 1; i <= nsets; i++ {
			if rng.Intn(2) == 0 {
				key := make([]byte, 32)
				rng.Read(key)
				ps := ref.ParamSet{ID: uint(i * (1 + rng.Intn(3))), Algo: ref.AlgoScrypt, HmacKey: key, Cost: uint(1 + rng.Intn(6))}
				switch rng.Intn(6) {
				case 0:
					ps.ROmit = true
				default:
					ps.R = []int{0, 1, 2, 8, 16}[rng.Intn(5)]
				}
				switch rng.Intn(5) {
				case 0:
					ps.POmit = true
				default:
					ps.P = []int{0, 1, 2, 3}[rng.Intn(4)]
				}
				sets = append(sets, ps)
			} else {
				// threads also above any plausible CPU count, tag lengths also longer than common I/O buffers (record line > 4 KiB)
				sets = append(sets, ref.ParamSet{ID: uint(i * (1 + rng.Intn(3))), Algo: ref.AlgoArgon, Time: uint32(1 + rng.Intn(3)), Memory: []uint32{8, 16, 64, 1024}[rng.Intn(4)], Threads: []uint8{1, 2, 4, 1, 2, 17, 40, 130, 255}[rng.Intn(9)], Length: []uint32{16, 32, 64, 16, 32, 64, 3100, 5000, 49200}[rng.Intn(9)]})
			}
		}
		// ids must be unique
		seen := map[uint]bool{}
		var uniq []ref.ParamSet
		for _, s := range sets {
			if !seen[s.ID] {
				seen[s.ID] = true
				uniq = append(uniq, s)
			}
		}
		sets = uniq
		cfg := filepath.Join(root, id, "store.yml")
		var d *store.Dir
		def := sets[rng.Intn(len(sets))]
		open := func() bool {
			y := ref.YAML(base, def.ID, sets)
			os.WriteFile(cfg, []byte(y), 0600) //nolint:errcheck
			var err error
			d, err = store.NewDirFromConfig(cfg)
			if err != nil {
				R.Violate("c14:config-rejected", "generated valid config rejected: "+err.Error(), id, y)
				return false
			}
			return true
		}
		if !open() {
			continue
		}
		var secrets [][]byte
		for _, s := range sets {
			if s.Algo == ref.AlgoScrypt {
				secrets = append(secrets, s.HmacKey, []byte(base64.StdEncoding.EncodeToString(s.HmacKey)), []byte(base64.URLEncoding.EncodeToString(s.HmacKey)), []byte(fmt.Sprintf("%x", s.HmacKey)))
			}
		}
		users := []string{"alice", "bob.x", "c@d"}
		pws := map[string][]byte{}
		aux := map[string][]byte{}
		nw := vr.Pick(8, 12)
		for w := 0; w < nw; w++ {
			u := users[rng.Intn(len(users))]
			pw := ref.Password(rng)
			for len(pw) < 8 {
				pw = ref.Password(rng)
			}
			op := "update"
			if _, ok := pws[u]; !ok {
				op = "add"
			} else {
				switch rng.Intn(4) {
				case 0: // same password rewrite of a back-dated record (what an upgrade does)
					pw = pws[u]
					op = "rewrite-same-password"
					c14Backdate(rng, base, u)
				case 1:
					c14Backdate(rng, base, u)
				case 2:
					def = sets[rng.Intn(len(sets))]
					op = "update-after-default-switch"
					if !open() {
						continue
					}
				}
			}
			t0 := time.Now().Unix()
			var err error
			pan := vr.Safe(func() {
				if op == "add" {
					err = d.AddUser(u, string(pw), rng.Intn(2) == 0)
				} else {
					err = d.UpdateUser(u, string(pw))
				}
			})
			t1 := time.Now().Unix()
			wit := map[string]any{"op": op, "user": u, "password": vr.Q(string(pw)), "yaml": ref.YAML(base, def.ID, sets)}
			if pan != "" || err != nil {
				R.Violate("c14:write-failed:"+def.Algo, fmt.Sprintf("%s failed under a valid configuration: %v %s", op, err, pan), id, wit)
				continue
			}
			pws[u] = pw
			secrets = append(secrets, pw)
			file := readUserFile(base, u)
			wit["file"] = vr.Q(string(file))
			line, rest, _ := bytes.Cut(file, []byte("\n"))
			R.Case(fmt.Sprintf("%d/%s", def.ID, line), true)
			R.Count("writes:"+op, 1)
			R.Count("writes:"+def.Algo, 1)
			if !bytes.Equal(rest, aux[u]) {
				R.Violate("c14:extra-lines", "record file has content after the first line that was not there before", id, wit)
			}
			p, ok := ref.ParseStrict(file)
			if !ok {
				R.Violate("c14:not-canonical:"+def.Algo, "written record is not of the canonical form <algo>:<time>:<id>:<base64url salt>:<base64url digest>\\n", id, wit)
				continue
			}
			if p.Algo != def.Algo || p.ID != def.ID {
				R.Violate("c14:wrong-set:"+def.Algo, fmt.Sprintf("record names %s/%d, configured default is %s/%d", p.Algo, p.ID, def.Algo, def.ID), id, wit)
				continue
			}
			if p.Time < t0 || p.Time > t1 {
				R.Violate("c14:timestamp:"+op, fmt.Sprintf("record time %d not in the write's bracket [%d,%d]", p.Time, t0, t1), id, wit)
			}
			if len(p.Salt) != def.SaltLen() {
				R.Violate("c14:salt-size:"+def.Algo, fmt.Sprintf("salt has %d bytes, schema says %d", len(p.Salt), def.SaltLen()), id, wit)
			}
			f := strings.Split(string(line), ":")
			if base64.URLEncoding.EncodeToString(p.Salt) != f[3] || base64.URLEncoding.EncodeToString(p.Digest) != f[4] {
				R.Violate("c14:base64-form", "salt/digest are not padded URL-safe base64", id, wit)
			}
			if prev, dup := salts[string(p.Salt)]; dup {
				R.Violate("c14:salt-reused:"+def.Algo, "salt already used by "+prev, id, wit)
			}
			salts[string(p.Salt)] = id + "/" + u
			want, derr := def.Digest(pw, p.Salt)
			if derr != nil || !bytes.Equal(want, p.Digest) {
				R.Violate(fmt.Sprintf("c14:digest-differs:%s:%s", def.Algo, c14ParamClass(def)), fmt.Sprintf("stored digest differs from the independent recomputation with the configured parameters (%+v)", c14Params(def)), id, wit)
			}
			// plant aux data now and then so that later updates carry it
			if rng.Intn(3) == 0 {
				a := []byte("totp: " + base64.StdEncoding.EncodeToString(pw[:4]) + "x\n")
				aux[u] = a
				path := userPath(base, u)
				os.WriteFile(path, append(append(append([]byte{}, line...), '\n'), a...), 0600) //nolint:errcheck
			}
		}
		// secrets must not appear anywhere in the directory
		filepath.Walk(base, func(p string, fi os.FileInfo, err error) error { //nolint:errcheck
			if err != nil || !fi.Mode().IsRegular() {
				return nil
			}
			data, _ := os.ReadFile(p)
			for _, s := range secrets {
				if len(s) >= 8 && bytes.Contains(data, s) {
					R.Violate("c14:secret-in-store", fmt.Sprintf("file %s contains a password or HMAC key", filepath.Base(p)), id, map[string]any{"file": vr.Q(string(data)), "secret": vr.Q(string(s))})
				}
			}
			R.Count("files_scanned_for_secrets", 1)
			return nil
		})
		if ci < 3 {
			R.Sample(map[string]any{"config": ref.YAML(base, def.ID, sets), "a_record": vr.Q(string(readUserFile(base, users[0])))})
		}
		os.RemoveAll(filepath.Join(root, id)) //nolint:errcheck
	}
	R.Set("distinct_salts", len(salts))
}

func c14Params(p ref.ParamSet) map[string]any {
	if p.Algo == ref.AlgoScrypt {
		return map[string]any{"cost": p.Cost, "r": p.R, "r_omitted": p.ROmit, "p": p.P, "p_omitted": p.POmit}
	}
	return map[string]any{"time": p.Time, "memory": p.Memory, "threads": p.Threads, "length": p.Length}
}

func c14ParamClass(p ref.ParamSet) string {
	if p.Algo != ref.AlgoScrypt {
		return "argon2id"
	}
	c := func(v int, omit bool) string {
		switch {
		case omit:
			return "omitted"
		case v <= 0:
			return "zero"
		}
		return "given"
	}
	return "r=" + c(p.R, p.ROmit) + ",p=" + c(p.P, p.POmit)
}

func userPath(base, u string) string {
	for _, ext := range []string{".admin", ".user"} {
		if _, err := os.Stat(filepath.Join(base, u+ext)); err == nil {
			return filepath.Join(base, u+ext)
		}
	}
	return filepath.Join(base, u+".user")
}

func readUserFile(base, u string) []byte {
	b, _ := os.ReadFile(userPath(base, u))
	return b
}

// c14Backdate rewrites only the timestamp field of the user's record to 90 days ago.
func c14Backdate(rng *rand.Rand, base, u string) {
	p := userPath(base, u)
	b, err := os.ReadFile(p)
	if err != nil {
		return
	}
	f := strings.SplitN(string(b), ":", 3)
	if len(f) != 3 {
		return
	}
	// mostly 90 days back; sometimes ahead of the clock (written on a host whose clock runs ahead, or before the clock was set back)
	f[1] = fmt.Sprint(time.Now().Unix() + []int64{-90 * 86400, -90 * 86400, 90, 86400, 4102444800 - time.Now().Unix()}[rng.Intn(5)])
	os.WriteFile(p, []byte(strings.Join(f, ":")), 0600) //nolint:errcheck
}
