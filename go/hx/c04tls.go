package main

import (
	"bufio"
	"bytes"
	"crypto/ecdsa"
	"crypto/elliptic"
	crand "crypto/rand"
	"crypto/tls"
	"crypto/x509"
	"crypto/x509/pkix"
	"encoding/base64"
	"encoding/json"
	"encoding/pem"
	"fmt"
	"io"
	"math/big"
	"net"
	"net/http"
	"os"
	"os/exec"
	"path/filepath"
	"strings"
	"sync"
	"syscall"
	"time"
	"unicode/utf8"

	"github.com/glauth/ldap"
	ber "github.com/go-asn1-ber/asn1-ber"
	"github.com/whawty/auth/sasl"
	"github.com/whawty/auth/store"
	"github.com/whawty/auth/zz_verif/ref"
	"github.com/whawty/auth/zz_verif/vr"
)

func init() { stages["c04tls"] = c04tls }

// tlsAgent is a running agent with every kind of listener the binary offers.
type tlsAgent struct {
	cmd                            *exec.Cmd
	mode                           string
	Sasl, HTTP, HTTPS, LDAP, LDAPS string
	mu                             sync.Mutex
	out                            bytes.Buffer
	httpc, httpsc                  *http.Client
	tlsc                           *tls.Config
}

func (a *tlsAgent) Stop() {
	if a.cmd != nil && a.cmd.Process != nil {
		syscall.Kill(-a.cmd.Process.Pid, syscall.SIGKILL) //nolint:errcheck
		a.cmd.Process.Kill()                              //nolint:errcheck
		a.cmd.Wait()                                      //nolint:errcheck
	}
}

func (a *tlsAgent) Output() string {
	a.mu.Lock()
	defer a.mu.Unlock()
	return a.out.String()
}

func c04SelfSigned(dir string) (cert, key string, err error) {
	priv, err := ecdsa.GenerateKey(elliptic.P256(), crand.Reader)
	if err != nil {
		return "", "", err
	}
	tmpl := &x509.Certificate{SerialNumber: big.NewInt(1), Subject: pkix.Name{CommonName: "localhost"},
		NotBefore: time.Now().Add(-time.Hour), NotAfter: time.Now().Add(24 * time.Hour),
		KeyUsage: x509.KeyUsageDigitalSignature, ExtKeyUsage: []x509.ExtKeyUsage{x509.ExtKeyUsageServerAuth},
		DNSNames: []string{"localhost"}, IPAddresses: []net.IP{net.ParseIP("127.0.0.1")}}
	der, err := x509.CreateCertificate(crand.Reader, tmpl, tmpl, &priv.PublicKey, priv)
	if err != nil {
		return "", "", err
	}
	kb, err := x509.MarshalECPrivateKey(priv)
	if err != nil {
		return "", "", err
	}
	cert, key = filepath.Join(dir, "cert.pem"), filepath.Join(dir, "key.pem")
	os.WriteFile(cert, pem.EncodeToMemory(&pem.Block{Type: "CERTIFICATE", Bytes: der}), 0600)  //nolint:errcheck
	os.WriteFile(key, pem.EncodeToMemory(&pem.Block{Type: "EC PRIVATE KEY", Bytes: kb}), 0600) //nolint:errcheck
	return cert, key, nil
}

// startTLSAgent starts the binary with all five listener kinds, either with `run` (the agent binds
// the addresses itself) or with `runsa` (the sockets are created here and handed over the way
// systemd does: descriptors 3.., LISTEN_PID / LISTEN_FDS / LISTEN_FDNAMES).
func startTLSAgent(bin, cfg, dir, mode, cert, key string, extra ...string) (*tlsAgent, error) {
	a := &tlsAgent{mode: mode}
	a.tlsc = &tls.Config{InsecureSkipVerify: true} //nolint:gosec
	a.httpc = &http.Client{Timeout: 30 * time.Second}
	a.httpsc = &http.Client{Timeout: 30 * time.Second, Transport: &http.Transport{TLSClientConfig: a.tlsc}}
	a.Sasl = filepath.Join(dir, "auth-"+mode+".sock")
	os.Remove(a.Sasl) //nolint:errcheck
	tlsy := fmt.Sprintf("  tls:\n    certificate: %s\n    certificate-key: %s\n", cert, key)
	lc := filepath.Join(dir, "listener-"+mode+".yml")
	args := append([]string{"--store", cfg}, extra...)
	var files []*os.File
	if mode == "run" {
		y := fmt.Sprintf("saslauthd:\n  listen:\n    - %s\nhttp:\n  listen:\n    - 127.0.0.1:0\nhttps:\n  listen:\n    - 127.0.0.1:0\n%sldap:\n  listen:\n    - 127.0.0.1:0\n%sldaps:\n  listen:\n    - 127.0.0.1:0\n%s", a.Sasl, tlsy, tlsy, tlsy)
		os.WriteFile(lc, []byte(y), 0600) //nolint:errcheck
		args = append(args, "run", "--listener", lc)
		a.cmd = exec.Command(bin, args...)
	} else {
		y := fmt.Sprintf("saslauthd:\n  listen: []\nhttp:\n  listen: []\nhttps:\n  listen: []\n%sldap:\n  listen: []\n%sldaps:\n  listen: []\n%s", tlsy, tlsy, tlsy)
		os.WriteFile(lc, []byte(y), 0600) //nolint:errcheck
		ul, err := net.ListenUnix("unix", &net.UnixAddr{Name: a.Sasl, Net: "unix"})
		if err != nil {
			return nil, err
		}
		ul.SetUnlinkOnClose(false)
		f, _ := ul.File()
		files = append(files, f)
		ul.Close() //nolint:errcheck
		addrs := make([]string, 4)
		for i := range addrs {
			tl, err := net.Listen("tcp", "127.0.0.1:0")
			if err != nil {
				return nil, err
			}
			addrs[i] = tl.Addr().String()
			f, _ := tl.(*net.TCPListener).File()
			files = append(files, f)
			tl.Close() //nolint:errcheck
		}
		a.HTTP, a.HTTPS, a.LDAP, a.LDAPS = addrs[0], addrs[1], addrs[2], addrs[3]
		args = append(args, "runsa", "--listener", lc)
		// LISTEN_PID must be the pid of the agent itself: let a shell export its own pid and exec the binary
		sh := "LISTEN_PID=$$ LISTEN_FDS=5 LISTEN_FDNAMES=saslauthd:http:https:ldap:ldaps exec \"$0\" \"$@\""
		a.cmd = exec.Command("/bin/sh", append([]string{"-c", sh, bin}, args...)...)
		a.cmd.ExtraFiles = files
	}
	a.cmd.SysProcAttr = &syscall.SysProcAttr{Pdeathsig: syscall.SIGKILL, Setpgid: true}
	stdout, _ := a.cmd.StdoutPipe()
	stderr, _ := a.cmd.StderrPipe()
	if err := a.cmd.Start(); err != nil {
		return nil, err
	}
	for _, f := range files {
		f.Close() //nolint:errcheck
	}
	found := make(chan struct{}, 16)
	scan := func(r io.Reader) {
		sc := bufio.NewScanner(r)
		for sc.Scan() {
			l := sc.Text()
			a.mu.Lock()
			a.out.WriteString(l + "\n")
			if i := strings.Index(l, "listening on '"); i >= 0 {
				addr := l[i+len("listening on '"):]
				if j := strings.Index(addr, "'"); j >= 0 {
					rest := addr[j:]
					addr = addr[:j]
					if mode == "run" {
						switch {
						case strings.Contains(l, "web-api:") && strings.Contains(rest, "using TLS"):
							a.HTTPS = addr
						case strings.Contains(l, "web-api:"):
							a.HTTP = addr
						case strings.Contains(l, "ldap:") && strings.Contains(rest, "using TLS"):
							a.LDAPS = addr
						case strings.Contains(l, "ldap:"):
							a.LDAP = addr
						}
					}
					found <- struct{}{}
				}
			}
			a.mu.Unlock()
		}
	}
	go scan(stdout)
	go scan(stderr)
	// wait until every TCP listener has announced itself (run: addresses are learnt from the lines; runsa: four lines)
	complete := func() bool {
		a.mu.Lock()
		defer a.mu.Unlock()
		if mode == "run" {
			return a.HTTP != "" && a.HTTPS != "" && a.LDAP != "" && a.LDAPS != ""
		}
		return strings.Count(a.out.String(), "web-api: listening on '") >= 2 && strings.Count(a.out.String(), "ldap: listening on '") >= 2
	}
	deadline := time.After(60 * time.Second)
	for !complete() {
		select {
		case <-found:
		case <-time.After(200 * time.Millisecond):
		case <-deadline:
			a.Stop()
			return nil, fmt.Errorf("agent (%s) did not report its listeners: %s", mode, a.Output())
		}
	}
	for i := 0; i < 300; i++ {
		if c, err := net.Dial("unix", a.Sasl); err == nil {
			c.Close() //nolint:errcheck
			break
		}
		time.Sleep(20 * time.Millisecond)
	}
	a.mu.Lock()
	defer a.mu.Unlock()
	if a.HTTP == "" || a.HTTPS == "" || a.LDAP == "" || a.LDAPS == "" {
		go a.Stop()
		return nil, fmt.Errorf("agent (%s): listener addresses incomplete: %s", mode, a.out.String())
	}
	return a, nil
}

func (a *tlsAgent) sasl(user, pw string) string {
	if user == "" || pw == "" || len(user) > 256 || len(pw) > 256 {
		return "n/a"
	}
	ok, _, err := sasl.NewClient(a.Sasl).Auth(user, pw, "svc", "realm")
	if err != nil {
		return "error:" + err.Error()
	}
	if ok {
		return "ok"
	}
	return "denied"
}

func (a *tlsAgent) basic(c *http.Client, url, user, pw string) string {
	if user == "" || pw == "" || strings.Contains(user, ":") {
		return "n/a"
	}
	req, _ := http.NewRequest("GET", url+"/basic-auth", nil)
	req.Header.Set("Authorization", "Basic "+base64.StdEncoding.EncodeToString([]byte(user+":"+pw)))
	resp, err := c.Do(req)
	if err != nil {
		return "error:" + err.Error()
	}
	defer resp.Body.Close()        //nolint:errcheck
	io.Copy(io.Discard, resp.Body) //nolint:errcheck
	switch resp.StatusCode {
	case 200:
		return "ok"
	case 401:
		return "denied"
	}
	return fmt.Sprintf("status-%d", resp.StatusCode)
}

func (a *tlsAgent) api(c *http.Client, url, user, pw string) string {
	if user == "" || pw == "" || !utf8.ValidString(user) || !utf8.ValidString(pw) {
		return "n/a"
	}
	body, _ := json.Marshal(map[string]string{"username": user, "password": pw})
	resp, err := c.Post(url+"/api/authenticate", "application/json", bytes.NewReader(body))
	if err != nil {
		return "error:" + err.Error()
	}
	defer resp.Body.Close() //nolint:errcheck
	var m map[string]any
	json.NewDecoder(resp.Body).Decode(&m) //nolint:errcheck
	sess, _ := m["session"].(string)
	switch {
	case resp.StatusCode == 200 && sess != "":
		return "ok"
	case resp.StatusCode == 200:
		return "status-200-without-session"
	case resp.StatusCode >= 400 && resp.StatusCode < 500 && sess == "":
		return "denied"
	}
	return fmt.Sprintf("status-%d", resp.StatusCode)
}

// ldapStartTLSBind speaks just enough LDAP itself (the bundled client's StartTLS reads the answer while its own
// reader goroutine holds the connection): StartTLS extended request, TLS handshake, one simple bind.
func (a *tlsAgent) ldapStartTLSBind(dn, pw string) string {
	raw, err := net.DialTimeout("tcp", a.LDAP, 10*time.Second)
	if err != nil {
		return "error:" + err.Error()
	}
	defer raw.Close()                                 //nolint:errcheck
	raw.SetDeadline(time.Now().Add(60 * time.Second)) //nolint:errcheck
	p := ber.Encode(ber.ClassUniversal, ber.TypeConstructed, ber.TagSequence, nil, "LDAP Request")
	p.AppendChild(ber.NewInteger(ber.ClassUniversal, ber.TypePrimitive, ber.TagInteger, uint64(1), "MessageID"))
	rq := ber.Encode(ber.ClassApplication, ber.TypeConstructed, 23, nil, "Start TLS")
	rq.AppendChild(ber.NewString(ber.ClassContext, ber.TypePrimitive, 0, "1.3.6.1.4.1.1466.20037", "TLS Extended Command"))
	p.AppendChild(rq)
	if _, err = raw.Write(p.Bytes()); err != nil {
		return "error:starttls:" + err.Error()
	}
	rp, err := ber.ReadPacket(raw)
	if err != nil || len(rp.Children) < 2 || len(rp.Children[1].Children) < 1 {
		return fmt.Sprintf("error:starttls-response:%v", err)
	}
	if code, _ := rp.Children[1].Children[0].Value.(int64); code != 0 {
		return fmt.Sprintf("error:starttls-refused:%v", rp.Children[1].Children[0].Value)
	}
	tc := tls.Client(raw, a.tlsc)
	if err = tc.Handshake(); err != nil {
		return "error:starttls-handshake:" + err.Error()
	}
	b := ber.Encode(ber.ClassUniversal, ber.TypeConstructed, ber.TagSequence, nil, "LDAP Request")
	b.AppendChild(ber.NewInteger(ber.ClassUniversal, ber.TypePrimitive, ber.TagInteger, uint64(2), "MessageID"))
	br := ber.Encode(ber.ClassApplication, ber.TypeConstructed, 0, nil, "Bind Request")
	br.AppendChild(ber.NewInteger(ber.ClassUniversal, ber.TypePrimitive, ber.TagInteger, uint64(3), "Version"))
	br.AppendChild(ber.NewString(ber.ClassUniversal, ber.TypePrimitive, ber.TagOctetString, dn, "User Name"))
	br.AppendChild(ber.NewString(ber.ClassContext, ber.TypePrimitive, 0, pw, "Password"))
	b.AppendChild(br)
	if _, err = tc.Write(b.Bytes()); err != nil {
		return "error:bind-write:" + err.Error()
	}
	rp, err = ber.ReadPacket(tc)
	if err != nil || len(rp.Children) < 2 || len(rp.Children[1].Children) < 1 {
		return fmt.Sprintf("error:bind-response:%v", err)
	}
	code, ok := rp.Children[1].Children[0].Value.(int64)
	switch {
	case !ok:
		return fmt.Sprintf("error:bind-result-type:%T", rp.Children[1].Children[0].Value)
	case code == 0:
		return "ok"
	case code == 49:
		return "denied"
	}
	return fmt.Sprintf("ldap-result-%d", code)
}

// ldapBindVia: how = plain | starttls | ldaps
func (a *tlsAgent) ldapBindVia(how, dn, pw string) string {
	if dn == "" || pw == "" {
		return "n/a"
	}
	if how == "starttls" {
		return a.ldapStartTLSBind(dn, pw)
	}
	var c *ldap.Conn
	var err error
	switch how {
	case "ldaps":
		c, err = ldap.DialTLSDialer("tcp", a.LDAPS, a.tlsc, &net.Dialer{Timeout: 10 * time.Second})
	default:
		c, err = ldap.DialTimeout("tcp", a.LDAP, 10*time.Second)
	}
	if err != nil {
		return "error:" + err.Error()
	}
	defer c.Close()
	err = c.Bind(dn, pw)
	if err == nil {
		return "ok"
	}
	if le, ok := err.(*ldap.Error); ok {
		if le.ResultCode == ldap.LDAPResultInvalidCredentials {
			return "denied"
		}
		return fmt.Sprintf("ldap-result-%d", le.ResultCode)
	}
	return "error:" + err.Error()
}

// rebind: one LDAP connection used for several binds in a row (the verdict of each bind must be its own)
func (a *tlsAgent) ldapRebind(how string, seq [][2]string) []string {
	var c *ldap.Conn
	var err error
	if how == "ldaps" {
		c, err = ldap.DialTLSDialer("tcp", a.LDAPS, a.tlsc, &net.Dialer{Timeout: 10 * time.Second})
	} else {
		c, err = ldap.DialTimeout("tcp", a.LDAP, 10*time.Second)
	}
	if err != nil {
		return []string{"error:" + err.Error()}
	}
	defer c.Close()
	var out []string
	for _, p := range seq {
		err = c.Bind(p[0], p[1])
		switch {
		case err == nil:
			out = append(out, "ok")
		default:
			if le, ok := err.(*ldap.Error); ok && le.ResultCode == ldap.LDAPResultInvalidCredentials {
				out = append(out, "denied")
			} else {
				out = append(out, "error:"+err.Error())
			}
		}
	}
	return out
}

func c04tls() {
	R := vr.New("C04", "tls-and-activation", "the built binary serves the same store twice: started with `run` (saslauthd socket, HTTP, HTTPS, LDAP with StartTLS, LDAPS on port 0) and with `runsa` (all five sockets created by the harness and handed over as systemd does, LISTEN_PID/LISTEN_FDS/LISTEN_FDNAMES); for generated (user, password) pairs the verdict of every listener (SASL, basic-auth and API over HTTP and HTTPS, LDAP bind plain / after StartTLS / over LDAPS, several binds on one LDAP connection) is compared with store.Dir.Authenticate on the same quiescent directory (name cut at the first '@' for LDAP); a concurrent phase mixes right and wrong credentials on the TLS listeners. Non-trivial: every pair other than (existing user, right ASCII password); distinct by (mode, user, password, listener)")
	defer R.Write()
	rng := R.Rand("c04tls")
	bin := filepath.Join(os.Getenv("VERIF_BIN"), "whawty-auth")
	if b := os.Getenv("VERIF_AGENT_BIN"); b != "" {
		bin = filepath.Join(os.Getenv("VERIF_BIN"), b)
	}
	dir := filepath.Join(workDir(), "c04tls")
	os.RemoveAll(dir) //nolint:errcheck
	base := filepath.Join(dir, "base")
	os.MkdirAll(filepath.Join(base, ".tmp"), 0700) //nolint:errcheck
	sets := ref.CheapSets(rng, 2)
	cfg := filepath.Join(dir, "store.yml")
	os.WriteFile(cfg, []byte(ref.YAML(base, 1, sets)), 0600) //nolint:errcheck
	d, err := store.NewDirFromConfig(cfg)
	if err != nil {
		R.Fatal = err.Error()
		return
	}
	cert, key, err := c04SelfSigned(dir)
	if err != nil {
		R.Fatal = err.Error()
		return
	}
	bin256 := make([]byte, 256)
	for i := range bin256 {
		bin256[i] = byte(1 + rng.Intn(255))
	}
	users := map[string]string{
		"root": "root-Password", "alice": "secret", "a": "pw-of-a", "a@b": "pw-of-a-at-b", "Alice": "Secret",
		"colon": "pa:ss:word", "unicode": "pässwörd-日本語-🔑", "binary": string([]byte{0xff, 0xfe, 0x01, 0x80, 'x'}),
		"long": string(bin256), "spacey": " lead and trail ", "nl": "line\n",
	}
	if err := d.Init("root", users["root"]); err != nil {
		R.Fatal = err.Error()
		return
	}
	for u, p := range users {
		if u != "root" {
			if err := d.AddUser(u, p, u == "Alice"); err != nil {
				R.Fatal = fmt.Sprintf("add %s: %v", u, err)
				return
			}
		}
	}
	type pair struct{ u, p, class string }
	var pairs []pair
	for u, p := range users {
		pairs = append(pairs, pair{u, p, "right"})
		pairs = append(pairs, pair{u, p + " ", "trailing-blank"}, pair{u, p[:len(p)-1], "prefix"}, pair{u, strings.ToUpper(p), "upper"})
		pairs = append(pairs, pair{u + "@example.org", p, "name-with-realm"}, pair{strings.ToUpper(u), p, "name-upper"}, pair{" " + u, p, "name-blank"})
	}
	pairs = append(pairs, pair{"a@b", users["a"], "realm-cut-matches-other-user"}, pair{"a", users["a@b"], "other-users-password"},
		pair{"nobody", "x", "unknown"}, pair{"../base/alice", users["alice"], "invalid-name"}, pair{"alice\x00", users["alice"], "name-nul"},
		pair{"alice", users["alice"] + "\x00", "password-nul"}, pair{"binary", string([]byte{0xff, 0xfe, 0x01, 0x80}), "binary-prefix"},
		pair{"long", string(bin256[:255]), "long-prefix"}, pair{"nl", "line", "newline-dropped"}, pair{"nl", "line\r\n", "newline-crlf"})
	rng.Shuffle(len(pairs), func(i, j int) { pairs[i], pairs[j] = pairs[j], pairs[i] })
	if !vr.Thorough() && len(pairs) > 60 {
		// keep all right pairs, sample the rest
		var keep []pair
		n := 0
		for _, p := range pairs {
			if p.class == "right" || n < 45 {
				keep = append(keep, p)
				if p.class != "right" {
					n++
				}
			}
		}
		pairs = keep
	}
	oracle := func(u, p string) string {
		ok, _, _, _, _ := d.Authenticate(u, p)
		if ok {
			return "ok"
		}
		return "denied"
	}
	for _, mode := range []string{"run", "runsa"} {
		agent, err := startTLSAgent(bin, cfg, dir, mode, cert, key)
		if err != nil {
			R.Fatal = "the agent did not come up with all five listener kinds (" + mode + "): " + err.Error()
			return
		}
		R.Set("listeners:"+mode, map[string]string{"sasl": agent.Sasl, "http": agent.HTTP, "https": agent.HTTPS, "ldap": agent.LDAP, "ldaps": agent.LDAPS})
		for pi, p := range pairs {
			id := fmt.Sprintf("%s/p%d", mode, pi)
			if !R.Want(id) {
				continue
			}
			R.Mark(id)
			want := oracle(p.u, p.p)
			lu, _, _ := strings.Cut(p.u, "@")
			wantL := oracle(lu, p.p)
			got := map[string]string{
				"sasl":          agent.sasl(p.u, p.p),
				"basic-http":    agent.basic(agent.httpc, "http://"+agent.HTTP, p.u, p.p),
				"basic-https":   agent.basic(agent.httpsc, "https://"+agent.HTTPS, p.u, p.p),
				"api-http":      agent.api(agent.httpc, "http://"+agent.HTTP, p.u, p.p),
				"api-https":     agent.api(agent.httpsc, "https://"+agent.HTTPS, p.u, p.p),
				"ldap-plain":    agent.ldapBindVia("plain", p.u, p.p),
				"ldap-starttls": agent.ldapBindVia("starttls", p.u, p.p),
				"ldaps":         agent.ldapBindVia("ldaps", p.u, p.p),
			}
			if oracle(p.u, p.p) != want {
				R.Inconcl("store verdict changed while quiescent")
				continue
			}
			for fe, v := range got {
				w := want
				if strings.HasPrefix(fe, "ldap") {
					w = wantL
				}
				R.Case(fmt.Sprintf("%s|%s|%s|%s", mode, p.u, p.p, fe), !(p.class == "right" && len(p.p) < 30))
				if v == "n/a" {
					R.Count("not_expressible:"+fe, 1)
					continue
				}
				R.Count("tls_verdicts:"+mode+":"+fe, 1)
				if w == "ok" {
					R.Count("tls_store_accepts", 1)
				}
				if v != w {
					kind := "frontend-accepts-store-denies"
					if w == "ok" {
						kind = "frontend-denies-store-accepts"
					}
					if v != "ok" && v != "denied" {
						kind = "frontend-gives-no-verdict"
					}
					R.Violate(fmt.Sprintf("c04:tls:%s:%s:%s:%s", kind, mode, fe, p.class), fmt.Sprintf("[%s] %s says %q, store.Dir.Authenticate says %q for user %s password %s", mode, fe, v, w, vr.Q(p.u), vr.Q(p.p)), id,
						map[string]any{"mode": mode, "class": p.class, "user": vr.Q(p.u), "password": vr.Q(p.p), "frontend": fe, "frontend_verdict": v, "store_verdict": w})
				}
			}
			if len(R.Samples) < 4 && pi < 2 {
				R.Sample(map[string]any{"mode": mode, "user": vr.Q(p.u), "password": vr.Q(p.p), "class": p.class, "store": want, "listeners": got})
			}
		}
		// several binds on one connection: each verdict is that bind's own
		for _, how := range []string{"plain", "ldaps"} {
			id := mode + "/rebind-" + how
			if !R.Want(id) {
				continue
			}
			R.Mark(id)
			seq := [][2]string{{"alice", users["alice"]}, {"alice", "wrong"}, {"a@b", users["a"]}, {"nobody", "x"}, {"root", users["root"]}, {"root", users["alice"]}}
			got := agent.ldapRebind(how, seq)
			for i, p := range seq {
				lu, _, _ := strings.Cut(p[0], "@")
				w := oracle(lu, p[1])
				R.Case(fmt.Sprintf("%s|rebind|%s|%d", mode, how, i), true)
				R.Count("ldap_rebinds", 1)
				if i >= len(got) || got[i] != w {
					g := "missing"
					if i < len(got) {
						g = got[i]
					}
					R.Violate("c04:tls:rebind-verdict-differs:"+mode+":"+how, fmt.Sprintf("[%s] bind #%d on one %s connection (%s) says %q, the store says %q", mode, i, how, vr.Q(p[0]), g, w), id, map[string]any{"sequence": seq, "got": got})
				}
			}
		}
		// concurrent phase on the TLS listeners
		id := mode + "/concurrent"
		if R.Want(id) {
			R.Mark(id)
			var wg sync.WaitGroup
			n := vr.Pick(96, 480)
			for k := 0; k < n; k++ {
				p := pairs[k%len(pairs)]
				fe := []string{"basic-https", "api-https", "ldaps", "ldap-starttls"}[k%4]
				lu, _, _ := strings.Cut(p.u, "@")
				w := oracle(p.u, p.p)
				if strings.HasPrefix(fe, "ldap") {
					w = oracle(lu, p.p)
				}
				wg.Add(1)
				go func(k int, p pair, fe, w string) {
					defer wg.Done()
					var v string
					switch fe {
					case "basic-https":
						v = agent.basic(agent.httpsc, "https://"+agent.HTTPS, p.u, p.p)
					case "api-https":
						v = agent.api(agent.httpsc, "https://"+agent.HTTPS, p.u, p.p)
					case "ldaps":
						v = agent.ldapBindVia("ldaps", p.u, p.p)
					default:
						v = agent.ldapBindVia("starttls", p.u, p.p)
					}
					if v == "n/a" {
						return
					}
					R.Case(fmt.Sprintf("%s|conc|%d", mode, k), true)
					R.Count("tls_concurrent_verdicts", 1)
					if v != w {
						R.Violate(fmt.Sprintf("c04:tls:concurrent-requests-get-wrong-verdict:%s:%s", mode, fe), fmt.Sprintf("[%s] concurrent %s request for user %s password %s got %q, the store says %q", mode, fe, vr.Q(p.u), vr.Q(p.p), v, w), id, nil)
					}
				}(k, p, fe, w)
				if k%16 == 15 {
					wg.Wait()
				}
			}
			wg.Wait()
		}
		alive := agent.cmd.Process.Signal(syscall.Signal(0)) == nil
		if !alive {
			R.Violate("c04:tls:agent-died:"+mode, "the agent process died: "+agent.Output(), mode, nil)
		}
		agent.Stop()
	}
}
