package main

import (
	"fmt"
	"os"
	"path/filepath"
	"strings"
	"time"

	"github.com/whawty/auth/zz_verif/ref"
	"github.com/whawty/auth/zz_verif/vr"
)

func init() { stages["c09agent"] = c09agent }

// c09agent: the built binary under strace -ff -ttt -T with local upgrades; logins of users whose records are upgradeable
// make the agent rewrite their records on its own. The runner then inspects the syscall logs: a record may be renamed
// onto its final name only after its content has been fsynced.
func c09agent() {
	R := vr.New("C09", "agent-upgrade", "the built binary runs under strace -ff -ttt -T with --do-upgrades local; users whose records are upgradeable (with auxiliary lines) log in over the saslauthd socket and the agent rewrites their records on its own; the runner merges the thread logs by time stamp and requires, for every rename from the work area onto a name in the base directory, a successful fsync of that very file which returned before the rename was entered, with no write to the file in between (a record never becomes visible under its final name before its content is durable - also for the writes nobody waits for). Non-trivial: every upgrade observed; distinct by user")
	defer R.Write()
	rng := R.Rand("c09a")
	bin := filepath.Join(os.Getenv("VERIF_BIN"), "whawty-auth")
	dir := filepath.Join(workDir(), "c09a")
	os.RemoveAll(dir) //nolint:errcheck
	base := filepath.Join(dir, "base")
	os.MkdirAll(filepath.Join(base, ".tmp"), 0700) //nolint:errcheck
	sets := ref.CheapSets(rng, 2)
	cfg := filepath.Join(dir, "store.yml")
	os.WriteFile(cfg, []byte(ref.YAML(base, 1, sets)), 0600) //nolint:errcheck
	plant := func(name, pw string, set int, admin bool, aux string) {
		ps := sets[set-1]
		salt := make([]byte, ps.SaltLen())
		rng.Read(salt)
		ext := ".user"
		if admin {
			ext = ".admin"
		}
		os.WriteFile(filepath.Join(base, name+ext), []byte(ps.Record([]byte(pw), salt, time.Now().Unix()-90*86400)+"\n"+aux), 0600) //nolint:errcheck
	}
	plant("root", "root-pw", 1, true, "")
	n := vr.Pick(6, 30)
	for i := 0; i < n; i++ {
		plant(fmt.Sprintf("up%d", i), fmt.Sprintf("pw-%d", i), 2, i%3 == 0, strings.Repeat("totp: QUJDREVGR0hJSktMTU5PUA==\n", 1+i*40))
	}
	trace := filepath.Join(workDir(), "agent-trace")
	os.WriteFile(filepath.Join(workDir(), "agent-base.txt"), []byte(base), 0600) //nolint:errcheck
	agentWrap = []string{"strace", "-ff", "-y", "-ttt", "-T", "-s", "64", "-o", trace}
	agent, err := startAgent(bin, cfg, dir, []string{"sasl"}, "--do-upgrades", "local")
	agentWrap = nil
	if err != nil {
		R.Fatal = err.Error()
		return
	}
	for i := 0; i < n; i++ {
		u := fmt.Sprintf("up%d", i)
		id := "upgrade/" + u
		R.Mark(id)
		v := agent.saslAuth(u, fmt.Sprintf("pw-%d", i))
		upgraded := false
		for k := 0; k < 200 && !upgraded; k++ {
			time.Sleep(50 * time.Millisecond)
			for _, ext := range []string{".user", ".admin"} {
				if b, err := os.ReadFile(filepath.Join(base, u+ext)); err == nil {
					if rec, ok := ref.ParseStrict(b); ok && rec.ID == 1 {
						upgraded = true
					}
				}
			}
		}
		R.Case(id, upgraded)
		R.Count("agent_logins", 1)
		if upgraded {
			R.Count("agent_upgrades_observed", 1)
		}
		if v != "ok" {
			R.Violate("c09:agent:login-refused", "login of "+u+" with its password: "+v, id, nil)
		}
	}
	time.Sleep(200 * time.Millisecond)
	agent.Stop()
	time.Sleep(200 * time.Millisecond)
}
