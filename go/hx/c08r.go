package main

import (
	"bytes"
	"fmt"
	"os"
	"os/exec"
	"path/filepath"
	"strconv"
	"sync"
	"time"

	"github.com/whawty/auth/store"
	"github.com/whawty/auth/zz_verif/ref"
	"github.com/whawty/auth/zz_verif/vr"
)

func c08pw(i int) string { return fmt.Sprintf("pw-%06d", i) }

// c08writer <dir> <n>: performs n updates of alice with passwords pw-1..pw-n
func c08writer() {
	dir := os.Args[2]
	n, _ := strconv.Atoi(os.Args[3])
	d, err := store.NewDirFromConfig(filepath.Join(dir, "store.yml"))
	if err != nil {
		fmt.Fprintln(os.Stderr, err)
		os.Exit(2)
	}
	for i := 1; i <= n; i++ {
		if err := d.UpdateUser("alice", c08pw(i)); err != nil {
			fmt.Fprintln(os.Stderr, "update failed:", err)
			os.Exit(3)
		}
	}
}

// c08writer2 <dir> <n>: n updates of alice that keep the password ("stable-pw") and alternate the parameter set
// (two configurations of the same directory with different defaults): what upgrades and re-hashing do
func c08writer2() {
	dir := os.Args[2]
	n, _ := strconv.Atoi(os.Args[3])
	d1, err1 := store.NewDirFromConfig(filepath.Join(dir, "store.yml"))
	d2, err2 := store.NewDirFromConfig(filepath.Join(dir, "store-alt.yml"))
	if err1 != nil || err2 != nil {
		fmt.Fprintln(os.Stderr, err1, err2)
		os.Exit(2)
	}
	for i := 1; i <= n; i++ {
		d := d1
		if i%2 == 1 {
			d = d2
		}
		if err := d.UpdateUser("alice", "stable-pw"); err != nil {
			fmt.Fprintln(os.Stderr, "update failed:", err)
			os.Exit(3)
		}
	}
}

func c08readers() {
	R := vr.New("C08", "readers", "a separate writer process performs a series of updates of one user (record with auxiliary lines) while 4 reader goroutines in this process poll the file raw and through Authenticate; every raw observation must be a complete record: strict first line whose digest matches one of the written passwords (monotonically advancing) followed by the intact auxiliary bytes. Non-trivial: an observation made while the writer is running; distinct by observed record line")
	defer R.Write()
	dir := filepath.Join(workDir(), "c08r")
	os.RemoveAll(dir) //nolint:errcheck
	self, _ := os.Executable()
	if out, err := exec.Command(self, "scprep", "update-aux5k", dir).CombinedOutput(); err != nil {
		R.Fatal = "prep: " + string(out)
		return
	}
	sets := ref.SetMap(scSets())
	d, err := store.NewDirFromConfig(filepath.Join(dir, "store.yml"))
	if err != nil {
		R.Fatal = err.Error()
		return
	}
	target := filepath.Join(dir, "base", "alice.user")
	orig, _ := os.ReadFile(target)
	_, aux, _ := bytes.Cut(orig, []byte("\n"))
	n := vr.Pick(3000, 20000)
	cmd := exec.Command(self, "c08writer", dir, strconv.Itoa(n))
	cmd.Stderr = os.Stderr
	if err := cmd.Start(); err != nil {
		R.Fatal = err.Error()
		return
	}
	done := make(chan error, 1)
	go func() { done <- cmd.Wait() }()
	var wg sync.WaitGroup
	stop := make(chan struct{})
	for r := 0; r < 4; r++ {
		wg.Add(1)
		go func(r int) {
			defer wg.Done()
			last := 0
			for {
				select {
				case <-stop:
					return
				default:
				}
				data, err := os.ReadFile(target)
				if err != nil {
					R.Violate("c08:reader-saw-missing-file", "reader could not read the hash file during updates: "+err.Error(), "readers", nil)
					time.Sleep(time.Millisecond)
					continue
				}
				line, rest, found := bytes.Cut(data, []byte("\n"))
				ok := found && bytes.Equal(rest, aux)
				matched := -1
				if ok {
					rec := append(append([]byte{}, line...), '\n')
					if last == 0 && ref.MustAccept(sets, rec, []byte("alice-old")) {
						matched = 0
					} else {
						for k := last; k <= last+400 && k <= n; k++ {
							if k > 0 && ref.MustAccept(sets, rec, []byte(c08pw(k))) {
								matched = k
								break
							}
						}
					}
				}
				R.Case(string(line), true)
				R.Count("reader_observations", 1)
				if matched < 0 {
					R.Violate("c08:reader-saw-incomplete-record", "a concurrent reader observed file content that is not a complete record of any written password with intact auxiliary data", "readers", map[string]any{"observed": vr.Q(string(data)), "last_matched_password_index": last})
				} else {
					if matched > last {
						R.Count("reader_distinct_versions", 1)
					}
					last = matched
					if r == 0 && matched%7 == 0 {
						// the library view agrees: the matched password authenticates or a newer one is already in place
						if ok, _, _, _, _ := d.Authenticate("alice", c08pw(matched)); !ok && matched > 0 {
							if ok2, _, _, _, _ := d.Authenticate("alice", c08pw(matched+1)); !ok2 {
								R.Count("auth_lagging", 1)
							}
						}
					}
				}
			}
		}(r)
	}
	err = <-done
	close(stop)
	wg.Wait()
	if err != nil {
		R.Violate("c08:writer-failed", "writer process failed: "+err.Error(), "readers", nil)
	}
	R.Set("updates_performed", n)
	c08AuthReaders(R, dir, self)
	R.Sample(map[string]any{"updates": n, "readers": 4, "target": "alice.user with 5000 bytes of auxiliary data"})
}

// c08AuthReaders: readers that go through Authenticate while another process re-hashes the same password under
// alternating parameter sets. The password is right for the old and for the new record at every instant, so every
// verdict must be positive (and a near miss negative): a reader that combines pieces of two records sees neither.
func c08AuthReaders(R *vr.Result, dir, self string) {
	if !R.Want("auth-readers") {
		return
	}
	R.Mark("auth-readers")
	d, err := store.NewDirFromConfig(filepath.Join(dir, "store.yml"))
	if err != nil {
		R.Fatal = err.Error()
		return
	}
	if err := d.UpdateUser("alice", "stable-pw"); err != nil {
		R.Fatal = "auth-readers prep: " + err.Error()
		return
	}
	sets := scSets()
	alt := uint(2)
	if scFind("update-aux5k").Algo == "argon" {
		alt = 1
	}
	os.WriteFile(filepath.Join(dir, "store-alt.yml"), []byte(ref.YAML(filepath.Join(dir, "base"), alt, sets)), 0600) //nolint:errcheck
	n := vr.Pick(4000, 30000)
	cmd := exec.Command(self, "c08writer2", dir, strconv.Itoa(n))
	cmd.Stderr = os.Stderr
	if err := cmd.Start(); err != nil {
		R.Fatal = err.Error()
		return
	}
	done := make(chan error, 1)
	go func() { done <- cmd.Wait() }()
	stop := make(chan struct{})
	var wg sync.WaitGroup
	for r := 0; r < 6; r++ {
		wg.Add(1)
		go func(r int) {
			defer wg.Done()
			lastUp, flips := false, 0
			for i := 0; ; i++ {
				select {
				case <-stop:
					R.Count("auth_reader_versions_seen", flips)
					return
				default:
				}
				ok, _, up, _, err := d.Authenticate("alice", "stable-pw")
				R.Count("auth_reader_observations", 1)
				if up != lastUp {
					flips++
					lastUp = up
				}
				if !ok {
					R.Case(fmt.Sprintf("auth-readers|rejected|%d|%d", r, i), true)
					R.Violate("c08:reader-authenticate-rejects-unchanged-password-during-update", fmt.Sprintf("while another process re-hashes alice's (unchanged) password under alternating parameter sets, Authenticate with that password answered false (error: %v): the password is the right one for the old record and for the new one, a reader that rejects it has combined parts of both", err), "auth-readers", map[string]any{"error": fmt.Sprint(err), "reader": r, "iteration": i})
					time.Sleep(time.Millisecond)
				}
				if i%8 == 0 {
					if ok2, _, _, _, _ := d.Authenticate("alice", "stable-pW"); ok2 {
						R.Violate("c08:reader-authenticate-accepts-near-miss-during-update", "a near miss of the password authenticated while the record was being rewritten", "auth-readers", nil)
					}
				}
			}
		}(r)
	}
	err = <-done
	close(stop)
	wg.Wait()
	R.Case("auth-readers", true)
	if err != nil {
		R.Violate("c08:writer-failed", "writer process (alternating parameter sets) failed: "+err.Error(), "auth-readers", nil)
	}
	R.Set("rehash_updates_performed", n)
}
