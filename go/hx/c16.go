package main

import (
	"fmt"
	"math/rand"
	"os"
	"os/exec"
	"path/filepath"
	"sort"
	"strings"
	"time"

	"github.com/whawty/auth/store"
	"github.com/whawty/auth/zz_verif/ref"
	"github.com/whawty/auth/zz_verif/vr"
)

func init() { stages["c16"] = c16 }

type c16Entry struct {
	Name    string // file name incl. extension
	Content string // supported1 supported2 unknown-set malformed empty subdir wrong-algo
}

type c16Dir struct {
	Entries []c16Entry
	Tmp     string // absent dir file dir-with-leftover
}

// c16Predicate is the reference consistency predicate (sandwich on "supported").
// returns (mustAccept, mustReject): at most one is true; both false = latitude.
func c16Predicate(d c16Dir) (mustAccept, mustReject bool, why string) {
	names := map[string][]string{}
	adminStrict, adminPerm := false, false
	for _, e := range d.Entries {
		ext := filepath.Ext(e.Name)
		if ext != ".user" && ext != ".admin" {
			return false, true, "entry " + e.Name + " is neither <name>.user nor <name>.admin"
		}
		base := strings.TrimSuffix(e.Name, ext)
		names[base] = append(names[base], ext)
		if ext == ".admin" {
			switch e.Content {
			case "supported1", "supported2":
				adminStrict, adminPerm = true, true
			case "supported-nonewline":
				adminPerm = true
			}
		}
	}
	for n, exts := range names {
		if len(exts) > 1 {
			return false, true, "user " + n + " has both extensions"
		}
	}
	if !adminPerm {
		return false, true, "no .admin file with a supported hash"
	}
	if adminStrict {
		return true, false, ""
	}
	return false, false, "only borderline-supported admin records"
}

func c16Content(rng *rand.Rand, sets []ref.ParamSet, kind string) []byte {
	mk := func(ps ref.ParamSet) string {
		salt := make([]byte, ps.SaltLen())
		rng.Read(salt)
		return ps.Record([]byte("pw"), salt, time.Now().Unix()-50)
	}
	switch kind {
	case "supported1":
		return []byte(mk(sets[0]) + "\n")
	case "supported2":
		return []byte(mk(sets[1]) + "\ntotp: QUJD\n")
	case "supported-nonewline":
		return []byte(mk(sets[0]))
	case "unknown-set":
		return []byte(strings.Replace(mk(sets[0]), fmt.Sprintf(":%d:", sets[0].ID), ":77:", 1) + "\n")
	case "wrong-algo":
		return []byte(strings.Replace(mk(sets[0]), sets[0].Algo, sets[1].Algo, 1) + "\n")
	case "malformed":
		return []byte("this is not a hash\n")
	case "empty":
		return nil
	}
	return nil
}

func c16Materialise(rng *rand.Rand, sets []ref.ParamSet, base string, d c16Dir) {
	os.RemoveAll(base)      //nolint:errcheck
	os.MkdirAll(base, 0700) //nolint:errcheck
	type item struct {
		name string
		f    func()
	}
	var items []item
	for _, e := range d.Entries {
		e := e
		items = append(items, item{e.Name, func() {
			p := filepath.Join(base, e.Name)
			if e.Content == "subdir" {
				os.Mkdir(p, 0700) //nolint:errcheck
				return
			}
			os.WriteFile(p, c16Content(rng, sets, e.Content), 0600) //nolint:errcheck
		}})
	}
	switch d.Tmp {
	case "dir":
		items = append(items, item{".tmp", func() { os.Mkdir(filepath.Join(base, ".tmp"), 0700) }}) //nolint:errcheck
	case "file":
		items = append(items, item{".tmp", func() { os.WriteFile(filepath.Join(base, ".tmp"), []byte("x"), 0600) }}) //nolint:errcheck
	case "dir-with-leftover":
		items = append(items, item{".tmp", func() {
			os.Mkdir(filepath.Join(base, ".tmp"), 0700)                                   //nolint:errcheck
			os.WriteFile(filepath.Join(base, ".tmp", "123456"), []byte("leftover"), 0600) //nolint:errcheck
		}})
	}
	// creation order shuffled so that readdir order varies
	rng.Shuffle(len(items), func(i, j int) { items[i], items[j] = items[j], items[i] })
	for _, it := range items {
		it.f()
	}
}

func c16Gen(rng *rand.Rand) c16Dir {
	var d c16Dir
	n := 1 + rng.Intn(8)
	if rng.Intn(6) == 0 {
		n = 20 + rng.Intn(21)
	}
	used := map[string]bool{}
	contents := []string{"supported1", "supported2", "supported1", "unknown-set", "malformed", "empty", "subdir", "wrong-algo", "supported-nonewline"}
	for i := 0; i < n; i++ {
		name := ref.ValidName(rng)
		ext := []string{".user", ".admin", ".user", ".admin", ".user"}[rng.Intn(5)]
		e := c16Entry{Name: name + ext, Content: contents[rng.Intn(len(contents))]}
		if used[e.Name] {
			continue
		}
		used[e.Name] = true
		d.Entries = append(d.Entries, e)
	}
	// hostile features, each with some probability
	if rng.Intn(4) == 0 && len(d.Entries) > 0 { // duplicate across extensions
		e := d.Entries[rng.Intn(len(d.Entries))]
		ext := filepath.Ext(e.Name)
		other := map[string]string{".user": ".admin", ".admin": ".user"}[ext]
		n2 := strings.TrimSuffix(e.Name, ext) + other
		if !used[n2] {
			used[n2] = true
			d.Entries = append(d.Entries, c16Entry{Name: n2, Content: contents[rng.Intn(len(contents))]})
		}
	}
	if rng.Intn(5) == 0 {
		bad := []string{".txt", "", ".USER", ".Admin", ".admin.bak", ".user~", ".users", ".adm", ".user.orig", ".json"}[rng.Intn(10)]
		n2 := ref.ValidName(rng)
		n2 = strings.ReplaceAll(n2, ".", "x") + bad
		if !used[n2] {
			used[n2] = true
			d.Entries = append(d.Entries, c16Entry{Name: n2, Content: contents[rng.Intn(len(contents))]})
		}
	}
	d.Tmp = []string{"absent", "dir", "dir", "file", "dir-with-leftover"}[rng.Intn(5)]
	return d
}

// c16GenLarge: directories with hundreds of entries (several readdir batches) and at most one defect.
func c16GenLarge(rng *rand.Rand) c16Dir {
	var d c16Dir
	n := 129 + rng.Intn(500)
	used := map[string]bool{}
	contents := []string{"supported1", "supported2", "supported1", "supported2", "supported1", "unknown-set", "malformed", "empty"}
	d.Entries = append(d.Entries, c16Entry{Name: "root.admin", Content: "supported1"})
	used["root"] = true
	oneAdmin := rng.Intn(2) == 0
	for len(d.Entries) < n {
		name := ref.ValidName(rng)
		if used[name] {
			continue
		}
		used[name] = true
		ext := []string{".user", ".admin", ".user"}[rng.Intn(3)]
		if oneAdmin {
			ext = ".user" // root is the only administrator: wherever the listing returns it, it must count
		}
		d.Entries = append(d.Entries, c16Entry{Name: name + ext, Content: contents[rng.Intn(len(contents))]})
	}
	switch rng.Intn(4) {
	case 0, 1: // one name with both extensions
		e := d.Entries[rng.Intn(len(d.Entries))]
		ext := filepath.Ext(e.Name)
		other := map[string]string{".user": ".admin", ".admin": ".user"}[ext]
		d.Entries = append(d.Entries, c16Entry{Name: strings.TrimSuffix(e.Name, ext) + other, Content: "supported1"})
	case 2: // one foreign file
		d.Entries = append(d.Entries, c16Entry{Name: "notes" + []string{".txt", "", ".USER", ".user~"}[rng.Intn(4)], Content: "malformed"})
	}
	d.Tmp = []string{"absent", "dir", "dir-with-leftover"}[rng.Intn(3)]
	return d
}

func c16() {
	R := vr.New("C16", "predicate", "generated directories (1-40 entries, and 129-630 entries with at most one defect, from valid user names x extensions {.user,.admin,.txt,none,.USER,.admin.bak,...} x contents {supported (both algorithms), unknown set, other algorithm id, malformed, empty, sub-directory} x duplicates across extensions x .tmp {absent, directory, file, directory with leftover}, creation order shuffled): Check is compared with a reference predicate (sandwich on 'supported'); Init must succeed exactly on empty directories (ignoring .tmp) and produce a valid store; the built binary must exit 3 for every command except init/check on directories failing the predicate, without changing them, and run them with --do-check=false. Non-trivial: every directory other than a single supported admin; distinct by directory listing+contents")
	defer R.Write()
	rng := R.Rand("c16")
	root := filepath.Join(workDir(), "c16")
	os.RemoveAll(root) //nolint:errcheck
	base := filepath.Join(root, "base")
	os.MkdirAll(base, 0700) //nolint:errcheck
	sets := ref.CheapSets(rng, 2)
	cfg := filepath.Join(root, "store.yml")
	os.WriteFile(cfg, []byte(ref.YAML(base, 1, sets)), 0600) //nolint:errcheck
	d, err := store.NewDirFromConfig(cfg)
	if err != nil {
		R.Fatal = err.Error()
		return
	}
	n := vr.Pick(1500, 30000)
	// systematic small cases first
	var dirs []c16Dir
	for _, c1 := range []string{"supported1", "supported2", "unknown-set", "malformed", "empty", "subdir", "wrong-algo"} {
		for _, tmp := range []string{"absent", "dir", "file"} {
			dirs = append(dirs, c16Dir{Entries: []c16Entry{{"root.admin", c1}}, Tmp: tmp})
			dirs = append(dirs, c16Dir{Entries: []c16Entry{{"root.user", c1}}, Tmp: tmp})
			dirs = append(dirs, c16Dir{Entries: []c16Entry{{"root.admin", "supported1"}, {"a.user", c1}, {"a.admin", c1}}, Tmp: tmp})
			dirs = append(dirs, c16Dir{Entries: []c16Entry{{"root.admin", "supported1"}, {"zz.admin", c1}, {"zz.user", "supported1"}}, Tmp: tmp})
			dirs = append(dirs, c16Dir{Entries: []c16Entry{{"root.admin", c1}, {"b.admin", "supported2"}}, Tmp: tmp})
		}
	}
	dirs = append(dirs, c16Dir{Tmp: "absent"}, c16Dir{Tmp: "dir"}, c16Dir{Tmp: "file"}, c16Dir{Tmp: "dir-with-leftover"})
	for i := 0; i < vr.Pick(24, 240); i++ {
		dirs = append(dirs, c16GenLarge(rng))
	}
	for len(dirs) < n {
		dirs = append(dirs, c16Gen(rng))
	}
	for i, cd := range dirs {
		id := fmt.Sprintf("d%d", i)
		if !R.Want(id) {
			continue
		}
		R.Mark(id)
		c16Materialise(rng, sets, base, cd)
		acc, rej, why := c16Predicate(cd)
		var cerr error
		pan := vr.Safe(func() { cerr = d.Check() })
		key := fmt.Sprintf("%v|%s", cd.Entries, cd.Tmp)
		R.Case(key, !(len(cd.Entries) == 1 && acc))
		R.Count("check_calls", 1)
		wit := map[string]any{"entries": cd.Entries, "tmp": cd.Tmp, "check_error": fmt.Sprint(cerr), "reference": why}
		if pan != "" {
			R.Violate("c16:panic:check", pan, id, wit)
			continue
		}
		if len(cd.Entries) > 128 {
			R.Count("large_directories", 1)
		}
		if acc {
			R.Count("reference_accepts", 1)
		}
		if rej {
			R.Count("reference_rejects", 1)
		}
		if acc && cerr != nil {
			R.Violate("c16:check-rejects-valid-directory", "Check refuses a directory the predicate accepts: "+cerr.Error(), id, wit)
		}
		if rej && cerr == nil {
			R.Violate("c16:check-accepts-invalid-directory:"+c16Why(why), "Check accepts a directory the predicate rejects: "+why, id, wit)
		}
		// Init on this directory
		if i%4 == 0 || len(cd.Entries) == 0 {
			empty := len(cd.Entries) == 0
			before := ref.TakeSnap(base)
			var ierr error
			pan := vr.Safe(func() { ierr = d.Init("initadmin", "init-pw") })
			R.Count("init_calls", 1)
			if pan != "" {
				R.Violate("c16:panic:init", pan, id, wit)
			}
			if ierr == nil {
				if !empty {
					R.Violate("c16:init-on-non-empty-directory", "Init succeeded on a directory that is not empty", id, wit)
				}
				if err := d.Check(); err != nil {
					R.Violate("c16:init-result-fails-check", "after a successful Init the store fails Check: "+err.Error(), id, wit)
				}
				if ok, adm, _, _, _ := d.Authenticate("initadmin", "init-pw"); !ok || !adm {
					R.Violate("c16:init-admin-does-not-authenticate", "", id, wit)
				}
			} else {
				if empty && cd.Tmp != "file" {
					R.Violate("c16:init-refuses-empty-directory", "Init failed on an empty directory (tmp="+cd.Tmp+"): "+ierr.Error(), id, wit)
				}
				if diff := ref.Diff(before, ref.TakeSnap(base), ref.DiffOpts{IgnorePath: ref.IgnoreTmpDir}); len(diff) > 0 && !(cd.Tmp == "file") {
					R.Violate("c16:failed-init-changed-directory", fmt.Sprint(diff), id, wit)
				}
			}
		}
		if len(R.Samples) < 4 && len(cd.Entries) > 1 && len(cd.Entries) < 6 {
			R.Sample(map[string]any{"case": id, "entries": cd.Entries, "tmp": cd.Tmp, "reference_accepts": acc, "reference_rejects": rej, "check": fmt.Sprint(cerr)})
		}
	}
	c16InitOrder(R, rng, sets)
	c16Binary(R, rng, root, sets)
}

// c16InitOrder: Init on many small non-empty directories that also hold a .tmp work area, in both creation orders and
// on two file systems (hashed readdir order on the work file system, creation order on tmpfs): the verdict must not depend
// on which entry the directory listing returns first.
func c16InitOrder(R *vr.Result, rng *rand.Rand, sets []ref.ParamSet) {
	roots := []string{filepath.Join(workDir(), "c16-init")}
	if shm, err := os.MkdirTemp("/dev/shm", "verif-c16-"); err == nil {
		roots = append(roots, shm)
		defer os.RemoveAll(shm) //nolint:errcheck
	}
	n := vr.Pick(1500, 6000)
	for ri, root := range roots {
		os.RemoveAll(root)      //nolint:errcheck
		os.MkdirAll(root, 0700) //nolint:errcheck
		cfg := filepath.Join(root, "store.yml")
		for i := 0; i < n; i++ {
			base := filepath.Join(root, fmt.Sprintf("d%d", i))
			os.MkdirAll(base, 0700)                                  //nolint:errcheck
			os.WriteFile(cfg, []byte(ref.YAML(base, 1, sets)), 0600) //nolint:errcheck
			d, err := store.NewDirFromConfig(cfg)
			if err != nil {
				R.Fatal = err.Error()
				return
			}
			name := ref.ValidName(rng) + []string{".user", ".admin", ".txt", "", ".user"}[rng.Intn(5)]
			tmpFirst := i%2 == 0
			mk := func() {
				if i%7 == 3 {
					os.Mkdir(filepath.Join(base, name), 0700) //nolint:errcheck
				} else {
					os.WriteFile(filepath.Join(base, name), c16Content(rng, sets, "supported1"), 0600) //nolint:errcheck
				}
			}
			if tmpFirst {
				os.Mkdir(filepath.Join(base, ".tmp"), 0700) //nolint:errcheck
				mk()
			} else {
				mk()
				os.Mkdir(filepath.Join(base, ".tmp"), 0700) //nolint:errcheck
			}
			var ierr error
			pan := vr.Safe(func() { ierr = d.Init("initadmin", "init-pw") })
			R.Case(fmt.Sprintf("initorder|%d|%s|%v", ri, name, tmpFirst), true)
			R.Count("init_on_nonempty_with_tmp", 1)
			if pan != "" || ierr == nil {
				R.Violate(fmt.Sprintf("c16:init-on-non-empty-directory:tmp-created-first=%v:fs=%d", tmpFirst, ri), fmt.Sprintf("Init succeeded on a directory holding .tmp and %q (%s)", name, pan), fmt.Sprintf("initorder/%d/%d", ri, i), map[string]any{"entry": name, "tmp_created_first": tmpFirst, "root": root})
				break
			}
			os.RemoveAll(base) //nolint:errcheck
		}
		os.RemoveAll(root) //nolint:errcheck
	}
}

func c16Why(why string) string {
	switch {
	case strings.Contains(why, "neither"):
		return "foreign-entry"
	case strings.Contains(why, "both"):
		return "both-extensions"
	case strings.Contains(why, "no .admin"):
		return "no-supported-admin"
	}
	return "other"
}

func c16Binary(R *vr.Result, rng *rand.Rand, root string, sets []ref.ParamSet) {
	bin := filepath.Join(os.Getenv("VERIF_BIN"), "whawty-auth")
	if _, err := os.Stat(bin); err != nil {
		R.Fatal = "agent binary not built"
		return
	}
	base := filepath.Join(root, "bbase")
	cfg := filepath.Join(root, "bstore.yml")
	os.WriteFile(cfg, []byte(ref.YAML(base, 1, sets)), 0600) //nolint:errcheck
	lc := filepath.Join(root, "listener.yml")
	os.WriteFile(lc, []byte("saslauthd:\n  listen:\n    - "+filepath.Join(root, "b.sock")+"\n"), 0600) //nolint:errcheck
	run := func(args ...string) (int, string) {
		cmd := exec.Command("timeout", append([]string{"3", bin, "--store", cfg}, args...)...)
		out, err := cmd.CombinedOutput()
		if ee, ok := err.(*exec.ExitError); ok {
			return ee.ExitCode(), string(out)
		}
		return 0, string(out)
	}
	invalid := []c16Dir{
		{Entries: []c16Entry{{"root.user", "supported1"}}, Tmp: "dir"},
		{Entries: []c16Entry{{"root.admin", "unknown-set"}}, Tmp: "dir"},
		{Entries: []c16Entry{{"root.admin", "supported1"}, {"notes.txt", "malformed"}}, Tmp: "dir"},
		{Entries: []c16Entry{{"root.admin", "supported1"}, {"a.user", "supported1"}, {"a.admin", "supported1"}}, Tmp: "absent"},
		{Entries: []c16Entry{{"root.admin", "empty"}, {"u.user", "supported2"}}, Tmp: "file"},
		{Tmp: "dir"},
	}
	n := vr.Pick(len(invalid), len(invalid)+20)
	for len(invalid) < n {
		g := c16Gen(rng)
		if _, rej, _ := c16Predicate(g); rej {
			invalid = append(invalid, g)
		}
	}
	cmds := [][]string{{"add", "newuser", "pw"}, {"remove", "root"}, {"update", "root", "newpw"}, {"set-admin", "root", "false"}, {"list"}, {"list", "--full"}, {"authenticate", "root", "pw"}, {"run", "--listener", lc}}
	for i, cd := range invalid {
		c16Materialise(rng, sets, base, cd)
		for _, c := range cmds {
			before := ref.TakeSnap(base)
			code, out := run(c...)
			diff := ref.Diff(before, ref.TakeSnap(base), ref.DiffOpts{Inode: true, IgnorePath: ref.IgnoreTmpDir})
			R.Case(fmt.Sprintf("bin|%v|%s|%v", cd.Entries, cd.Tmp, c), true)
			R.Count("binary_commands_on_invalid_dirs", 1)
			wit := map[string]any{"entries": cd.Entries, "tmp": cd.Tmp, "command": c, "exit": code, "output": out}
			if code != 3 {
				R.Violate("c16:binary-runs-on-invalid-directory:"+c[0], fmt.Sprintf("'%s' on a directory failing the check exited %d, expected 3", strings.Join(c, " "), code), fmt.Sprintf("bin/%d", i), wit)
			}
			if len(diff) > 0 {
				R.Violate("c16:binary-changed-invalid-directory:"+c[0], fmt.Sprint(diff), fmt.Sprintf("bin/%d", i), wit)
				c16Materialise(rng, sets, base, cd)
			}
		}
		// check must report it too, init must refuse a non-empty one
		if code, _ := run("check"); code != 3 {
			R.Violate("c16:binary-check-accepts-invalid-directory", fmt.Sprintf("exit %d", code), fmt.Sprintf("bin/%d", i), nil)
		}
		// with checking disabled the command runs
		if len(cd.Entries) > 0 {
			code, out := run("--do-check=false", "list", "--full")
			R.Count("binary_do_check_false", 1)
			foreign := false
			for _, e := range cd.Entries {
				if ext := filepath.Ext(e.Name); ext != ".user" && ext != ".admin" {
					foreign = true
				}
			}
			if code != 0 && !foreign {
				R.Violate("c16:do-check-false-not-honoured", fmt.Sprintf("list --full with --do-check=false exited %d: %s", code, out), fmt.Sprintf("bin/%d", i), nil)
			}
		}
	}
	// a valid directory: commands run (exit 0), default do-check is on
	c16Materialise(rng, sets, base, c16Dir{Entries: []c16Entry{{"root.admin", "supported1"}, {"u.user", "supported2"}}, Tmp: "dir"})
	for _, c := range [][]string{{"check"}, {"list"}, {"authenticate", "root", "pw"}, {"add", "v", "pw"}, {"remove", "v"}} {
		if code, out := run(c...); code != 0 {
			R.Violate("c16:binary-refuses-valid-directory:"+c[0], fmt.Sprintf("exit %d: %s", code, out), "bin/valid", nil)
		}
		R.Count("binary_commands_on_valid_dir", 1)
	}
	names := []string{}
	for _, c := range cmds {
		names = append(names, c[0])
	}
	sort.Strings(names)
	R.Set("binary_commands", names)
}
