package main

import (
	"fmt"
	"os"
	"os/exec"
	"path/filepath"
	"strings"

	"github.com/whawty/auth/store"
	"github.com/whawty/auth/zz_verif/ref"
	"github.com/whawty/auth/zz_verif/vr"
)

func init() { stages["c15cli"] = c15cli }

// c15cli: the command line's read-only and failing commands (and the library calls a reload makes) on sandboxes whose
// whole tree - not only the base directory - is compared before and after.
func c15cli() {
	R := vr.New("C15", "command-line", "the built binary's read-only commands (check, list, list --full, authenticate right / wrong / unknown, with and without --do-check) and semantically failing commands (add of an existing user, update / set-admin / remove of a missing one, init on a non-empty directory, every command on a directory that fails the check), plus the library calls a reload makes (NewDirFromConfig, Check, List, Authenticate), on three sandboxes: a valid store, a store carrying the residue of interrupted operations (empty reserved names, files in the work area), and a configuration whose base directory does not exist (several missing path components). The whole sandbox tree - everything next to and above the base directory too - must be byte-, inode- and mtime-identical afterwards: nothing modified, nothing created. Non-trivial: every command; distinct by (sandbox, command)")
	defer R.Write()
	rng := R.Rand("c15cli")
	bin := filepath.Join(os.Getenv("VERIF_BIN"), "whawty-auth")
	root := filepath.Join(workDir(), "c15cli")
	os.RemoveAll(root) //nolint:errcheck
	sets := ref.CheapSets(rng, 2)
	type sandbox struct {
		name, dir, cfg, base string
		missing              bool
	}
	var boxes []sandbox
	mk := func(name string, residue, missing bool) {
		dir := filepath.Join(root, name)
		base := filepath.Join(dir, "var", "lib", "whawty", "auth", "store")
		cfg := filepath.Join(dir, "etc", "store.yml")
		os.MkdirAll(filepath.Dir(cfg), 0700)                                   //nolint:errcheck
		os.WriteFile(filepath.Join(dir, "neighbour.txt"), []byte("x\n"), 0600) //nolint:errcheck
		os.WriteFile(cfg, []byte(ref.YAML(base, 1, sets)), 0600)               //nolint:errcheck
		if !missing {
			os.MkdirAll(filepath.Join(base, ".tmp"), 0700) //nolint:errcheck
			d, err := store.NewDirFromConfig(cfg)
			if err != nil {
				R.Fatal = err.Error()
				return
			}
			d.Init("root", "root-pw")             //nolint:errcheck
			d.AddUser("alice", "alice-pw", false) //nolint:errcheck
			salt := make([]byte, sets[1].SaltLen())
			rng.Read(salt)
			os.WriteFile(filepath.Join(base, "old.user"), []byte(sets[1].Record([]byte("old-pw"), salt, 1700000000)+"\ntotp: QUJD\n"), 0600) //nolint:errcheck
			if residue {
				os.WriteFile(filepath.Join(base, "erin.user"), nil, 0600)                                     //nolint:errcheck
				os.WriteFile(filepath.Join(base, "frank.admin"), nil, 0600)                                   //nolint:errcheck
				os.WriteFile(filepath.Join(base, ".tmp", "alice.user.123456789"), []byte("leftover\n"), 0600) //nolint:errcheck
				os.WriteFile(filepath.Join(base, ".tmp", "erin.user.42"), nil, 0600)                          //nolint:errcheck
			}
		} else {
			os.MkdirAll(filepath.Join(dir, "var"), 0700) //nolint:errcheck
		}
		boxes = append(boxes, sandbox{name, dir, cfg, base, missing})
	}
	mk("valid", false, false)
	mk("residue", true, false)
	mk("missing-basedir", false, true)
	if R.Fatal != "" {
		return
	}
	type command struct {
		name string
		args []string
		// exit: 0 must succeed, 1 must fail, -1 either (on the valid sandboxes); on the missing one everything must fail
		exit int
	}
	cmds := []command{
		{"check", []string{"check"}, 0},
		{"list", []string{"list"}, 0},
		{"list-full", []string{"list", "--full"}, 0},
		{"list-nocheck", []string{"--do-check=false", "list"}, 0},
		{"authenticate-right", []string{"authenticate", "alice", "alice-pw"}, 0},
		{"authenticate-wrong", []string{"authenticate", "alice", "nope"}, 1},
		{"authenticate-unknown", []string{"authenticate", "ghost", "x"}, 1},
		{"authenticate-upgradeable", []string{"authenticate", "old", "old-pw"}, 0},
		{"authenticate-upgradeable-local", []string{"--do-upgrades", "local", "authenticate", "old", "nope"}, 1},
		{"authenticate-reserved-name", []string{"authenticate", "erin", "x"}, 1},
		{"authenticate-reserved-admin", []string{"--do-check=false", "authenticate", "frank", "x"}, 1},
		{"add-existing", []string{"add", "alice", "Another-Pw-1234"}, 1},
		{"update-missing", []string{"update", "ghost", "Another-Pw-1234"}, 1},
		{"set-admin-missing", []string{"set-admin", "ghost", "true"}, 1},
		{"remove-missing", []string{"remove", "ghost"}, -1},
		{"init-nonempty", []string{"init", "root2", "Another-Pw-1234"}, 1},
		{"update-invalid-name", []string{"update", "../alice", "Another-Pw-1234"}, 1},
	}
	snapOpts := ref.DiffOpts{Inode: true, FileMtime: true, DirMtime: true}
	for _, b := range boxes {
		for _, c := range cmds {
			id := b.name + "/" + c.name
			if !R.Want(id) {
				continue
			}
			R.Mark(id)
			if b.missing && c.name == "init-nonempty" {
				continue // init on a missing directory is a different question (C16 / C09), not a failing command by definition
			}
			before := ref.TakeSnap(b.dir)
			cmd := exec.Command(bin, append([]string{"--store", b.cfg}, c.args...)...)
			cmd.Dir = b.dir // a relative path the command might create would land in the sandbox
			out, err := cmd.CombinedOutput()
			code := 0
			if ee, ok := err.(*exec.ExitError); ok {
				code = ee.ExitCode()
			} else if err != nil {
				R.Fatal = "cannot run the binary: " + err.Error()
				return
			}
			after := ref.TakeSnap(b.dir)
			R.Case(id, true)
			R.Count("cli_commands", 1)
			kind := "read-only"
			if c.exit != 0 && !strings.HasPrefix(c.name, "authenticate") {
				kind = "failing"
			}
			if b.missing {
				R.Count("cli_commands_on_missing_basedir", 1)
			}
			if diff := ref.Diff(before, after, snapOpts); len(diff) > 0 {
				R.Violate(fmt.Sprintf("c15:command-line:%s-command-changed-the-file-system:%s:%s", kind, b.name, c.name), fmt.Sprintf("`whawty-auth %s` (exit %d) on the %s sandbox left the tree different: %v", strings.Join(c.args, " "), code, b.name, diff), id, map[string]any{"diff": diff, "output": string(out), "exit": code})
			}
			if c.name == "remove-missing" {
				continue
			}
			wantFail := c.exit == 1 || b.missing
			if strings.Contains(c.name, "reserved") && !b.missing && b.name != "residue" {
				wantFail = true
			}
			if wantFail && code == 0 {
				R.Violate(fmt.Sprintf("c15:command-line:command-should-fail:%s:%s", b.name, c.name), fmt.Sprintf("`whawty-auth %s` on the %s sandbox exits 0: %s", strings.Join(c.args, " "), b.name, out), id, nil)
			}
			if !wantFail && c.exit == 0 && code != 0 {
				R.Violate(fmt.Sprintf("c15:command-line:read-only-command-fails:%s:%s", b.name, c.name), fmt.Sprintf("`whawty-auth %s` on the %s sandbox exits %d: %s", strings.Join(c.args, " "), b.name, code, out), id, nil)
			}
		}
		// what a reload does with this configuration
		id := b.name + "/library-reload-calls"
		if R.Want(id) {
			R.Mark(id)
			before := ref.TakeSnap(b.dir)
			if p := vr.Safe(func() {
				if d, err := store.NewDirFromConfig(b.cfg); err == nil {
					d.Check()                             //nolint:errcheck
					d.List()                              //nolint:errcheck
					d.ListFull()                          //nolint:errcheck
					d.Authenticate("alice", "alice-pw")   //nolint:errcheck
					d.Authenticate("erin", "x")           //nolint:errcheck
					d.Exists("frank")                     //nolint:errcheck
					d.Exists("erin")                      //nolint:errcheck
					d.UpdateUser("ghost", "Another-Pw-1") //nolint:errcheck
				}
			}); p != "" {
				R.Violate("c15:command-line:panic:"+b.name, p, id, nil)
			}
			after := ref.TakeSnap(b.dir)
			R.Case(id, true)
			R.Count("library_reload_call_rounds", 1)
			if diff := ref.Diff(before, after, snapOpts); len(diff) > 0 {
				R.Violate("c15:library-read-only-calls-changed-the-file-system:"+b.name, fmt.Sprintf("NewDirFromConfig + Check / List / ListFull / Authenticate / Exists + a failing UpdateUser on the %s sandbox left the tree different: %v", b.name, diff), id, map[string]any{"diff": diff})
			}
		}
	}
}
