package main

import (
	"encoding/base64"
	"fmt"
	"math/rand"
	"os"
	"path/filepath"
	"strings"

	"github.com/whawty/auth/store"
	"github.com/whawty/auth/zz_verif/vr"
)

func init() { stages["c18"] = c18 }

// A tiny structural YAML model so that mutations can be applied field-wise.
type yField struct {
	Key string
	Val string   // scalar text (already YAML-quoted if needed); used when Sub == nil && List == nil
	Sub []yField // nested mapping
	Lst [][]yField
}

func yRender(fs []yField, indent string, b *strings.Builder) {
	for _, f := range fs {
		switch {
		case f.Lst != nil:
			fmt.Fprintf(b, "%s%s:\n", indent, f.Key)
			for _, item := range f.Lst {
				var ib strings.Builder
				yRender(item, indent+"    ", &ib)
				s := ib.String()
				if len(s) > len(indent)+4 {
					s = indent + "  - " + s[len(indent)+4:]
				} else {
					s = indent + "  - {}\n"
				}
				b.WriteString(s)
			}
			if len(f.Lst) == 0 {
				// explicit empty list
				b.Reset()
			}
		case f.Sub != nil:
			fmt.Fprintf(b, "%s%s:\n", indent, f.Key)
			yRender(f.Sub, indent+"  ", b)
		default:
			fmt.Fprintf(b, "%s%s: %s\n", indent, f.Key, f.Val)
		}
	}
}

type c18Case struct {
	ID     string
	Class  string
	YAML   string
	Expect string // accept | reject | either
	Why    string
}

func c18Key(rng *rand.Rand) string {
	k := make([]byte, 32)
	rng.Read(k)
	return fmt.Sprintf("%q", base64.StdEncoding.EncodeToString(k))
}

func c18Scrypt(rng *rand.Rand, id int) []yField {
	return []yField{{Key: "id", Val: fmt.Sprint(id)}, {Key: "scryptauth", Sub: []yField{{Key: "hmackey", Val: c18Key(rng)}, {Key: "cost", Val: fmt.Sprint(1 + rng.Intn(6))}, {Key: "r", Val: fmt.Sprint(1 + rng.Intn(8))}, {Key: "p", Val: fmt.Sprint(1 + rng.Intn(2))}}}}
}

func c18Argon(rng *rand.Rand, id int) []yField {
	return []yField{{Key: "id", Val: fmt.Sprint(id)}, {Key: "argon2id", Sub: []yField{{Key: "time", Val: fmt.Sprint(1 + rng.Intn(3))}, {Key: "memory", Val: fmt.Sprint(8 << rng.Intn(4))}, {Key: "threads", Val: fmt.Sprint(1 + rng.Intn(4))}, {Key: "length", Val: fmt.Sprint(16 << rng.Intn(3))}}}}
}

func c18Doc(base string, def int, sets [][]yField) string {
	var b strings.Builder
	doc := []yField{{Key: "basedir", Val: fmt.Sprintf("%q", base)}, {Key: "default", Val: fmt.Sprint(def)}}
	yRender(doc, "", &b)
	if len(sets) > 0 {
		b.WriteString("params:\n")
		for _, s := range sets {
			var ib strings.Builder
			yRender(s, "    ", &ib)
			b.WriteString("  - " + ib.String()[4:])
		}
	}
	return b.String()
}

func cloneSets(s [][]yField) [][]yField {
	out := make([][]yField, len(s))
	for i, x := range s {
		out[i] = make([]yField, len(x))
		for j, f := range x {
			out[i][j] = f
			if f.Sub != nil {
				out[i][j].Sub = append([]yField{}, f.Sub...)
			}
		}
	}
	return out
}

func c18Cases(rng *rand.Rand, base string, rounds int) []c18Case {
	var out []c18Case
	add := func(class, y, expect, why string) {
		out = append(out, c18Case{ID: fmt.Sprintf("k%d", len(out)), Class: class, YAML: y, Expect: expect, Why: why})
	}
	for round := 0; round < rounds; round++ {
		// a valid document with 1-4 sets
		n := 1 + rng.Intn(4)
		var sets [][]yField
		var ids []int
		for i := 0; i < n; i++ {
			id := 1 + i*(1+rng.Intn(3)) + rng.Intn(2)*1000*i
			if i > 0 && id <= ids[i-1] {
				id = ids[i-1] + 1
			}
			ids = append(ids, id)
			if rng.Intn(2) == 0 {
				sets = append(sets, c18Scrypt(rng, id))
			} else {
				sets = append(sets, c18Argon(rng, id))
			}
		}
		def := ids[rng.Intn(n)]
		add("valid", c18Doc(base, def, sets), "accept", "well-formed")
		// r / p omitted
		for si, s := range sets {
			if s[1].Key == "scryptauth" {
				c := cloneSets(sets)
				c[si][1].Sub = c[si][1].Sub[:2]
				add("valid-r-p-omitted", c18Doc(base, def, c), "accept", "r and p are optional")
			}
		}
		// --- structural must-reject
		add("basedir-empty", strings.Replace(c18Doc(base, def, sets), fmt.Sprintf("basedir: %q", base), `basedir: ""`, 1), "reject", "empty base directory")
		add("basedir-missing", strings.SplitN(c18Doc(base, def, sets), "\n", 2)[1], "reject", "no base directory")
		add("default-undefined", c18Doc(base, ids[n-1]+7, sets), "reject", "default names no defined set")
		add("default-zero-with-sets", c18Doc(base, 0, sets), "reject", "default 0 with parameter sets")
		add("default-missing-with-sets", strings.Replace(c18Doc(base, def, sets), fmt.Sprintf("default: %d\n", def), "", 1), "reject", "no default with parameter sets")
		for si := range sets {
			c := cloneSets(sets)
			c[si][0].Val = "0"
			d := def
			add("id-zero", c18Doc(base, d, c), "reject", "parameter-set id 0")
			c = cloneSets(sets)
			c[si] = c[si][1:]
			add("id-missing", c18Doc(base, def, c), "reject", "parameter-set without id (=0)")
			c = cloneSets(sets)
			c[si] = c[si][:1]
			add("no-algorithm", c18Doc(base, def, c), "reject", "parameter-set without algorithm")
			c = cloneSets(sets)
			if c[si][1].Key == "scryptauth" {
				c[si] = append(c[si], c18Argon(rng, 1)[1])
			} else {
				c[si] = append(c[si], c18Scrypt(rng, 1)[1])
			}
			add("two-algorithms", c18Doc(base, def, c), "reject", "parameter-set with two algorithms")
			// unknown keys at each level
			c = cloneSets(sets)
			c[si] = append(c[si], yField{Key: "bcrypt", Sub: []yField{{Key: "cost", Val: "10"}}})
			add("unknown-key-in-set", c18Doc(base, def, c), "reject", "unknown key in a parameter set")
			c = cloneSets(sets)
			c[si][1].Sub = append(c[si][1].Sub, yField{Key: "iterations", Val: "3"})
			add("unknown-key-in-algorithm", c18Doc(base, def, c), "reject", "unknown key in algorithm parameters")
			// wrong types
			c = cloneSets(sets)
			c[si][0].Val = `"one"`
			add("type-id-string", c18Doc(base, def, c), "reject", "id is not a number")
			c = cloneSets(sets)
			c[si][1].Sub[1].Val = `"many"`
			add("type-number-string", c18Doc(base, def, c), "reject", "numeric parameter given as a word")
			c = cloneSets(sets)
			c[si][1].Sub[1].Val = "[1, 2]"
			add("type-number-list", c18Doc(base, def, c), "reject", "numeric parameter given as a list")
			c = cloneSets(sets)
			c[si][1] = yField{Key: c[si][1].Key, Val: "7"}
			add("type-algorithm-scalar", c18Doc(base, def, c), "reject", "algorithm parameters given as a scalar")
			// duplicate key
			c = cloneSets(sets)
			c[si] = append(c[si], c[si][0])
			add("duplicate-key-id", c18Doc(base, def, c), "reject", "duplicate mapping key")
			// deletions inside the algorithm block (missing numeric => zero value): latitude
			for fi := range sets[si][1].Sub {
				c = cloneSets(sets)
				sub := append([]yField{}, c[si][1].Sub[:fi]...)
				sub = append(sub, c[si][1].Sub[fi+1:]...)
				name := c[si][1].Key + "." + c[si][1].Sub[fi].Key
				if len(sub) == 0 {
					continue
				}
				c[si][1].Sub = sub
				exp := "either"
				if name == "scryptauth.r" || name == "scryptauth.p" {
					exp = "accept"
				}
				add("field-deleted:"+name, c18Doc(base, ids[si], c), exp, "parameter "+name+" deleted")
			}
			// numeric edges: accepted-or-rejected is up to the loader, but an accepted set must work or fail cleanly
			if sets[si][1].Key == "scryptauth" {
				for _, e := range []struct{ f, v string }{{"cost", "0"}, {"cost", "32"}, {"cost", "33"}, {"cost", "4294967296"}, {"cost", "18446744073709551615"}, {"cost", "-1"}, {"cost", "1.5"},
					{"r", "0"}, {"r", "-1"}, {"r", "2147483647"}, {"r", "-2147483648"}, {"p", "0"}, {"p", "-1"}, {"p", "2147483647"},
					{"hmackey", `""`}, {"hmackey", `"AAAA"`}, {"hmackey", `"not base64 !!"`}, {"hmackey", fmt.Sprintf("%q", base64.StdEncoding.EncodeToString(make([]byte, 33)))}, {"hmackey", fmt.Sprintf("%q", base64.URLEncoding.EncodeToString([]byte("\xff\xfe\xfd\xfc\xfb\xfa\xf9\xf8\xf7\xf6\xf5\xf4\xf3\xf2\xf1\xf0\xff\xfe\xfd\xfc\xfb\xfa\xf9\xf8\xf7\xf6\xf5\xf4\xf3\xf2\xf1\xf0")))}} {
					c = cloneSets(sets)
					for fi := range c[si][1].Sub {
						if c[si][1].Sub[fi].Key == e.f {
							c[si][1].Sub[fi].Val = e.v
						}
					}
					add("edge:scrypt."+e.f+"="+strings.Trim(e.v, `"`)[:min(len(strings.Trim(e.v, `"`)), 12)], c18Doc(base, ids[si], c), "either", "edge value")
				}
			} else {
				for _, e := range []struct{ f, v string }{{"time", "0"}, {"time", "-1"}, {"time", "4294967296"}, {"memory", "0"}, {"memory", "1"}, {"memory", "7"}, {"memory", "262144"}, {"memory", "-8"},
					{"threads", "0"}, {"threads", "255"}, {"threads", "256"}, {"threads", "-1"}, {"length", "0"}, {"length", "1"}, {"length", "3"}, {"length", "1024"}, {"length", "-1"}, {"length", "4.0"}} {
					c = cloneSets(sets)
					for fi := range c[si][1].Sub {
						if c[si][1].Sub[fi].Key == e.f {
							c[si][1].Sub[fi].Val = e.v
						}
					}
					add("edge:argon2id."+e.f+"="+e.v, c18Doc(base, ids[si], c), "either", "edge value")
				}
			}
		}
		// top-level
		add("unknown-key-top", c18Doc(base, def, sets)+"comment: hello\n", "reject", "unknown top-level key")
		add("duplicate-key-top", c18Doc(base, def, sets)+fmt.Sprintf("default: %d\n", def), "reject", "duplicate top-level key")
		add("type-default-string", strings.Replace(c18Doc(base, def, sets), fmt.Sprintf("default: %d", def), `default: "x"`, 1), "reject", "default is not a number")
		add("type-default-negative", strings.Replace(c18Doc(base, def, sets), fmt.Sprintf("default: %d", def), "default: -1", 1), "reject", "negative default")
		add("type-params-scalar", c18Doc(base, def, nil)+"params: 5\n", "reject", "params is not a list")
		add("type-params-mapping", c18Doc(base, def, nil)+"params:\n  id: 1\n", "reject", "params is a mapping")
		add("type-basedir-list", strings.Replace(c18Doc(base, def, sets), fmt.Sprintf("basedir: %q", base), "basedir: [a, b]", 1), "reject", "basedir is a list")
		// null entries in the list of parameter sets (what is left when all fields of a set are deleted), YAML anchors / merge keys
		for _, nul := range []string{"  -\n", "  - ~\n", "  - null\n", "  - {}\n"} {
			doc := c18Doc(base, def, sets)
			add("null-entry-in-params:"+strings.TrimSpace(nul), doc+nul, "either", "a null / empty list entry")
			add("null-entry-first-in-params:"+strings.TrimSpace(nul), strings.Replace(doc, "params:\n", "params:\n"+nul, 1), "either", "a null / empty list entry")
		}
		add("params-null-list", c18Doc(base, 0, nil)+"params: [null]\n", "either", "a list holding only null")
		add("params-null", c18Doc(base, 0, nil)+"params: ~\n", "either", "params is null")
		add("basedir-null", strings.Replace(c18Doc(base, def, sets), fmt.Sprintf("basedir: %q", base), "basedir: ~", 1), "reject", "no base directory")
		add("default-null", strings.Replace(c18Doc(base, def, sets), fmt.Sprintf("default: %d", def), "default: ~", 1), "reject", "no default with parameter sets")
		add("not-yaml", "{{{ not yaml", "reject", "not YAML")
		add("empty-document", "", "reject", "empty document")
		add("no-sets-default-0", c18Doc(base, 0, nil), "accept", "no sets at all and default 0")
		add("no-sets-default-missing", fmt.Sprintf("basedir: %q\n", base), "accept", "no sets at all")
		add("no-sets-default-1", c18Doc(base, 1, nil), "reject", "default names no defined set")
		add("default-max", c18Doc(base, 0, sets)+"", "reject", "default 0 with sets")
		// duplicate ids: not mentioned by the property
		if n >= 2 {
			c := cloneSets(sets)
			c[1][0].Val = c[0][0].Val
			add("duplicate-ids", c18Doc(base, ids[0], c), "either", "duplicate ids are unspecified")
		}
	}
	return out
}

func c18() {
	R := vr.New("C18", "loader", "YAML documents derived from generated valid store configurations by field deletion, duplication, type change, unknown keys at every level and numeric edge values; the loader's verdict is compared with must-reject / must-accept predicates (generator knows which rule each mutation breaks; edge values are 'either'); every accepted configuration is then used to add a user and authenticate with the right and a wrong password, which must work or fail with an error, never panic or hang. Non-trivial: every document other than the unmodified valid one; distinct by YAML text")
	defer R.Write()
	rng := R.Rand("c18")
	root := filepath.Join(workDir(), "c18")
	os.RemoveAll(root) //nolint:errcheck
	base := filepath.Join(root, "base")
	os.MkdirAll(base, 0700) //nolint:errcheck
	cases := c18Cases(rng, base, vr.Pick(6, 60))
	cfg := filepath.Join(root, "store.yml")
	for _, c := range cases {
		if !R.Want(c.ID) {
			continue
		}
		R.Mark(c.ID + " " + c.Class)
		os.WriteFile(cfg, []byte(c.YAML), 0600) //nolint:errcheck
		var d *store.Dir
		var err error
		var pan string
		if timed(func() { pan = vr.Safe(func() { d, err = store.NewDirFromConfig(cfg) }) }) {
			R.Violate("c18:hang:loader:"+c.Class, "loader did not return", c.ID, c.YAML)
			continue
		}
		R.Case(c.YAML, c.Class != "valid")
		R.Count("expect:"+c.Expect, 1)
		wit := map[string]any{"class": c.Class, "yaml": c.YAML, "why": c.Why, "loader_error": fmt.Sprint(err)}
		if pan != "" {
			R.Violate("c18:panic:loader:"+c.Class, "loader panicked: "+pan, c.ID, wit)
			continue
		}
		accepted := err == nil
		if accepted {
			R.Count("accepted", 1)
		} else {
			R.Count("rejected", 1)
		}
		if c.Expect == "reject" && accepted {
			R.Violate("c18:loader-accepts:"+c.Class, "loader accepted a configuration that must be rejected: "+c.Why, c.ID, wit)
		}
		if c.Expect == "accept" && !accepted {
			R.Violate("c18:loader-rejects:"+c.Class, "loader rejected a well-formed configuration: "+fmt.Sprint(err), c.ID, wit)
		}
		if !accepted {
			continue
		}
		// an accepted configuration must hash-and-verify or fail with an error
		os.RemoveAll(base)      //nolint:errcheck
		os.MkdirAll(base, 0700) //nolint:errcheck
		d.BaseDir = base
		var aerr, e1, e2 error
		var ok1, ok2 bool
		hung := timed(func() {
			pan = vr.Safe(func() {
				aerr = d.AddUser("probe", "correct horse", true)
				if aerr == nil {
					ok1, _, _, _, e1 = d.Authenticate("probe", "correct horse")
					// several wrong passwords: with a configured digest length of one or two bytes a single wrong
					// password collides with probability 2^-8 / 2^-16, which is the configuration's doing
					ok2 = true
					for i := 0; i < 6 && ok2; i++ {
						ok2, _, _, _, e2 = d.Authenticate("probe", fmt.Sprintf("wrong horse %d", i))
					}
				}
			})
		})
		R.Count("accepted_sets_exercised", 1)
		wit["add_error"] = fmt.Sprint(aerr)
		switch {
		case hung:
			R.Violate("c18:hang:hash:"+c.Class, "hashing with an accepted parameter set did not return", c.ID, wit)
		case pan != "":
			R.Violate("c18:accepted-set-panics:"+c.Class, "an accepted parameter set panics on first use: "+pan, c.ID, wit)
		case aerr == nil && (!ok1 || ok2):
			R.Violate("c18:accepted-set-does-not-verify:"+c.Class, fmt.Sprintf("add succeeded but authenticate(right)=%v (%v) authenticate(6 wrong passwords) all true=%v (%v)", ok1, e1, ok2, e2), c.ID, wit)
		case aerr != nil:
			R.Count("accepted_but_add_errors", 1)
			if c.Expect == "accept" && c.Class != "no-sets-default-0" && c.Class != "no-sets-default-missing" {
				R.Violate("c18:valid-config-cannot-add:"+c.Class, "a well-formed ordinary configuration cannot add a user: "+aerr.Error(), c.ID, wit)
			}
		}
		if len(R.Samples) < 5 && (c.Class == "valid" || strings.HasPrefix(c.Class, "edge:")) {
			R.Sample(map[string]any{"case": c.ID, "class": c.Class, "expect": c.Expect, "accepted": accepted, "yaml": c.YAML})
		}
	}
}
