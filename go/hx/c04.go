package main

import (
	"bufio"
	"bytes"
	"encoding/base64"
	"encoding/json"
	"fmt"
	"io"
	"math/rand"
	"net"
	"net/http"
	"os"
	"os/exec"
	"path/filepath"
	"strings"
	"sync"
	"syscall"
	"time"
	"unicode/utf8"

	"github.com/glauth/ldap"
	"github.com/whawty/auth/sasl"
	"github.com/whawty/auth/store"
	"github.com/whawty/auth/zz_verif/ref"
	"github.com/whawty/auth/zz_verif/vr"
)

func init() { stages["c04"] = c04 }

// agentProc is a running `whawty-auth run` with its listener addresses.
type agentProc struct {
	cmd   *exec.Cmd
	Sasl  string
	HTTP  string
	LDAP  string
	out   *bytes.Buffer
	mu    sync.Mutex
	bin   string
	cfg   string
	extra []string
}

func startAgent(bin, cfg, dir string, listeners []string, extra ...string) (*agentProc, error) {
	a := &agentProc{out: &bytes.Buffer{}, bin: bin, cfg: cfg, extra: extra}
	lc := filepath.Join(dir, "listener.yml")
	var y strings.Builder
	want := 0
	for _, l := range listeners {
		switch l {
		case "sasl":
			a.Sasl = filepath.Join(dir, "auth.sock")
			os.Remove(a.Sasl) //nolint:errcheck
			fmt.Fprintf(&y, "saslauthd:\n  listen:\n    - %s\n", a.Sasl)
			want++
		case "http":
			y.WriteString("http:\n  listen:\n    - 127.0.0.1:0\n")
			want++
		case "ldap":
			y.WriteString("ldap:\n  listen:\n    - 127.0.0.1:0\n")
			want++
		}
	}
	os.WriteFile(lc, []byte(y.String()), 0600) //nolint:errcheck
	args := append([]string{"--store", cfg}, extra...)
	args = append(args, "run", "--listener", lc)
	if len(agentWrap) > 0 {
		args = append(append(append([]string{}, agentWrap[1:]...), bin), args...)
		a.cmd = exec.Command(agentWrap[0], args...)
	} else {
		a.cmd = exec.Command(bin, args...)
	}
	a.cmd.SysProcAttr = &syscall.SysProcAttr{Pdeathsig: syscall.SIGKILL, Setpgid: true}
	if g := os.Getenv("VERIF_AGENT_GORACE"); g != "" {
		a.cmd.Env = append(os.Environ(), "GORACE="+g)
	}
	stdout, _ := a.cmd.StdoutPipe()
	a.cmd.Stderr = a.out
	if err := a.cmd.Start(); err != nil {
		return nil, err
	}
	found := make(chan struct{}, 8)
	go func() {
		sc := bufio.NewScanner(stdout)
		for sc.Scan() {
			l := sc.Text()
			a.mu.Lock()
			a.out.WriteString(l + "\n")
			a.mu.Unlock()
			if i := strings.Index(l, "listening on '"); i >= 0 {
				addr := l[i+len("listening on '"):]
				addr = addr[:strings.Index(addr, "'")]
				switch {
				case strings.Contains(l, "web-api:"):
					a.HTTP = addr
				case strings.Contains(l, "ldap:"):
					a.LDAP = addr
				}
				found <- struct{}{}
			}
		}
	}()
	deadline := time.After(20 * time.Second)
	for i := 0; i < want; i++ {
		select {
		case <-found:
		case <-deadline:
			a.Stop()
			return nil, fmt.Errorf("agent did not report its listeners: %s", a.out.String())
		}
	}
	return a, nil
}

func (a *agentProc) Stop() {
	if a.cmd != nil && a.cmd.Process != nil {
		syscall.Kill(-a.cmd.Process.Pid, syscall.SIGKILL) //nolint:errcheck
		a.cmd.Process.Kill()                              //nolint:errcheck
		a.cmd.Wait()                                      //nolint:errcheck
	}
}

func (a *agentProc) Alive() bool { return a.cmd.Process.Signal(syscall.Signal(0)) == nil }

// verdicts: "ok", "denied", "n/a" (pair not expressible in this transport), "error:<...>" (transport failure)
func (a *agentProc) saslAuth(user, pw string) string {
	if user == "" || pw == "" {
		return "n/a"
	}
	if len(user) > 256 || len(pw) > 256 {
		// outside the SASL limit: send raw, must be denied
		conn, err := net.Dial("unix", a.Sasl)
		if err != nil {
			return "error:" + err.Error()
		}
		defer conn.Close() //nolint:errcheck
		raw := ref.EncodeParts([]byte(user), []byte(pw), []byte("svc"), nil)
		conn.Write(raw)                                        //nolint:errcheck
		conn.(*net.UnixConn).CloseWrite()                      //nolint:errcheck
		conn.SetReadDeadline(time.Now().Add(20 * time.Second)) //nolint:errcheck
		reply, _ := io.ReadAll(conn)
		if len(reply) >= 4 && string(reply[2:4]) == "OK" {
			return "ok"
		}
		return "denied-over-limit"
	}
	ok, _, err := sasl.NewClient(a.Sasl).Auth(user, pw, "svc", "realm")
	if err != nil {
		return "error:" + err.Error()
	}
	if ok {
		return "ok"
	}
	return "denied"
}

var c04HTTP = &http.Client{Timeout: 30 * time.Second}

func (a *agentProc) basicAuth(user, pw string) string {
	if user == "" || pw == "" || strings.Contains(user, ":") {
		return "n/a"
	}
	req, _ := http.NewRequest("GET", "http://"+a.HTTP+"/basic-auth", nil)
	req.Header.Set("Authorization", "Basic "+base64.StdEncoding.EncodeToString([]byte(user+":"+pw)))
	resp, err := c04HTTP.Do(req)
	if err != nil {
		return "error:" + err.Error()
	}
	defer resp.Body.Close()        //nolint:errcheck
	io.Copy(io.Discard, resp.Body) //nolint:errcheck
	switch resp.StatusCode {
	case 200:
		return "ok"
	case 401:
		return "denied"
	}
	return fmt.Sprintf("status-%d", resp.StatusCode)
}

func (a *agentProc) apiAuth(user, pw string, escape bool) string {
	if user == "" || pw == "" || !utf8.ValidString(user) || !utf8.ValidString(pw) {
		return "n/a"
	}
	var body []byte
	if escape {
		// everything as \uXXXX escapes (surrogate pairs for non-BMP)
		esc := func(s string) string {
			var b strings.Builder
			for _, r := range s {
				if r > 0xffff {
					r -= 0x10000
					fmt.Fprintf(&b, "\\u%04x\\u%04x", 0xd800+(r>>10), 0xdc00+(r&0x3ff))
				} else {
					fmt.Fprintf(&b, "\\u%04x", r)
				}
			}
			return b.String()
		}
		body = []byte(`{"password":"` + esc(pw) + `","username":"` + esc(user) + `"}`)
	} else {
		body, _ = json.Marshal(map[string]string{"username": user, "password": pw})
	}
	resp, err := c04HTTP.Post("http://"+a.HTTP+"/api/authenticate", "application/json", bytes.NewReader(body))
	if err != nil {
		return "error:" + err.Error()
	}
	defer resp.Body.Close() //nolint:errcheck
	var m map[string]any
	json.NewDecoder(resp.Body).Decode(&m) //nolint:errcheck
	sess, _ := m["session"].(string)
	switch {
	case resp.StatusCode == 200 && sess != "":
		return "ok"
	case resp.StatusCode == 200:
		return "status-200-without-session"
	case resp.StatusCode >= 400 && resp.StatusCode < 500 && sess == "":
		return "denied"
	}
	return fmt.Sprintf("status-%d", resp.StatusCode)
}

func (a *agentProc) ldapBind(dn, pw string) string {
	if dn == "" || pw == "" {
		return "n/a"
	}
	c, err := ldap.DialTimeout("tcp", a.LDAP, 10*time.Second)
	if err != nil {
		return "error:" + err.Error()
	}
	defer c.Close()
	err = c.Bind(dn, pw)
	if err == nil {
		return "ok"
	}
	if le, ok := err.(*ldap.Error); ok {
		if le.ResultCode == ldap.LDAPResultInvalidCredentials {
			return "denied"
		}
		return fmt.Sprintf("ldap-result-%d", le.ResultCode)
	}
	return "error:" + err.Error()
}

func (a *agentProc) cliAuth(user, pw string) string {
	if user == "" || pw == "" || strings.HasPrefix(user, "-") || strings.HasPrefix(pw, "-") || strings.ContainsRune(user, 0) || strings.ContainsRune(pw, 0) || len(user)+len(pw) > 100000 {
		return "n/a"
	}
	args := append([]string{"--store", a.cfg}, a.extra...)
	args = append(args, "authenticate", user, pw)
	cmd := exec.Command(a.bin, args...)
	err := cmd.Run()
	code := 0
	if ee, ok := err.(*exec.ExitError); ok {
		code = ee.ExitCode()
	} else if err != nil {
		return "error:" + err.Error()
	}
	switch code {
	case 0:
		return "ok"
	case 1, 3:
		return "denied"
	}
	return fmt.Sprintf("exit-%d", code)
}

type c04Pair struct {
	User, Pw string
	Class    string
}

func c04() {
	R := vr.New("C04", "frontends", "the built whawty-auth binary runs with a saslauthd socket and loopback HTTP and LDAP listeners (port 0); for generated (user, password) pairs - right passwords, near misses, bytes special to one transport (':' , JSON escapes / \\uXXXX / surrogate pairs / non-BMP, '@' ',' '=' in bind names, 0x00-0xff, 255/256/257-byte fields, case variants, blanks, user a@b next to user a, invalid names) - the verdict of every frontend (SASL OK/NO, basic-auth 200/401, API session/4xx, LDAP result 0/49, CLI exit 0/1/3) is compared with store.Dir.Authenticate on the same quiescent directory (name cut at the first '@' for LDAP); store states are advanced between rounds through CLI and API management operations; induced internal errors must be denials; a concurrent phase fires mixed right/wrong requests at every socket frontend. Non-trivial: every pair other than (existing user, right ASCII password); distinct by (state, user, password, frontend)")
	defer R.Write()
	rng := R.Rand("c04")
	bin := filepath.Join(os.Getenv("VERIF_BIN"), "whawty-auth")
	if b := os.Getenv("VERIF_AGENT_BIN"); b != "" {
		bin = filepath.Join(os.Getenv("VERIF_BIN"), b)
	}
	dir := filepath.Join(workDir(), "c04")
	os.RemoveAll(dir) //nolint:errcheck
	base := filepath.Join(dir, "base")
	os.MkdirAll(filepath.Join(base, ".tmp"), 0700) //nolint:errcheck
	sets := ref.CheapSets(rng, 2)
	cfg := filepath.Join(dir, "store.yml")
	os.WriteFile(cfg, []byte(ref.YAML(base, 1, sets)), 0600) //nolint:errcheck
	d, err := store.NewDirFromConfig(cfg)
	if err != nil {
		R.Fatal = err.Error()
		return
	}
	long := func(n int, c byte) string { return strings.Repeat(string(c), n) }
	users := map[string]string{
		"root":         "root-Password",
		"alice":        "secret",
		"a":            "pw-of-a",
		"a@b":          "pw-of-a-at-b",
		"Alice":        "Secret",
		"colon":        "pa:ss:word",
		"unicode":      "pässwörd-日本語-🔑",
		"json":         `q"uo\te/{}[]` + "\t\n",
		"spaces":       " lead and trail ",
		"binary":       "\x01\x02\xff\xfe\x80bin",
		"nulpw":        "nul\x00inside",
		"len255":       long(255, 'x'),
		"len256":       long(256, 'y'),
		"len257":       long(257, 'z'),
		"len300":       long(300, 'w'),
		"x.y-z_1":      "ldap,dn=chars,dc=example",
		long(200, 'n'): "longname-pw",
		"eq":           "a=b,c=d",
	}
	for u, p := range users {
		adm := u == "root"
		if err := d.AddUser(u, p, adm); err != nil {
			R.Fatal = "setup add " + u + ": " + err.Error()
			return
		}
	}
	agent, err := startAgent(bin, cfg, dir, []string{"sasl", "http", "ldap"})
	if err != nil {
		R.Fatal = err.Error()
		return
	}
	defer agent.Stop()
	R.Set("listeners", map[string]string{"sasl": agent.Sasl, "http": agent.HTTP, "ldap": agent.LDAP})
	rounds := vr.Pick(3, 12)
	ncli := 0
	for round := 0; round < rounds; round++ {
		// candidate pairs for this state
		var pairs []c04Pair
		names := []string{}
		for u := range users {
			names = append(names, u)
		}
		for u, p := range users {
			pairs = append(pairs, c04Pair{u, p, "right"})
			for _, nm := range [][]byte{[]byte(p + " "), []byte(" " + p), []byte(strings.TrimSpace(p)), []byte(strings.ToUpper(p)), []byte(strings.ToLower(p)), []byte(p[:len(p)-1]), []byte(p + "\x00"), []byte(p + "\n"), []byte(strings.TrimRight(p, "\x00"))} {
				if string(nm) != p {
					pairs = append(pairs, c04Pair{u, string(nm), "near-miss-password"})
				}
			}
			if len(p) > 256 {
				pairs = append(pairs, c04Pair{u, p[:256], "truncated-at-256"}, c04Pair{u, p[:255], "truncated-at-255"})
			}
			o := names[rng.Intn(len(names))]
			if o != u {
				pairs = append(pairs, c04Pair{u, users[o], "other-users-password"})
			}
			for _, un := range []string{strings.ToUpper(u), strings.ToLower(u), u + " ", " " + u, u + "\x00", u + "\n", u + "@", u + "@example.org", "cn=" + u + ",dc=example", u + ",dc=x", "./" + u, "../base/" + u, u + "/", "%s" + u} {
				if un != u {
					pairs = append(pairs, c04Pair{un, p, "name-variant"})
				}
			}
		}
		pairs = append(pairs, c04Pair{"ghost", "whatever", "unknown-user"}, c04Pair{"a@", "pw-of-a", "at-edge"}, c04Pair{"@b", "pw-of-a-at-b", "at-edge"}, c04Pair{"a@b@c", "pw-of-a", "at-edge"}, c04Pair{"a@b@c", "pw-of-a-at-b", "at-edge"}, c04Pair{"@", "x", "at-edge"},
			c04Pair{long(256, 'u'), "x", "name-256"}, c04Pair{long(257, 'u'), "x", "name-257"}, c04Pair{"alice", long(70000, 'p'), "huge-password"})
		for i := 0; i < vr.Pick(20, 100); i++ {
			pairs = append(pairs, c04Pair{names[rng.Intn(len(names))], string(ref.Password(rng)), "random-password"})
		}
		rng.Shuffle(len(pairs), func(i, j int) { pairs[i], pairs[j] = pairs[j], pairs[i] })
		if !vr.Thorough() && len(pairs) > 160 {
			// keep every 'right' pair and a sample of the rest
			var keep []c04Pair
			for _, p := range pairs {
				if p.Class == "right" || len(keep) < 160 {
					keep = append(keep, p)
				}
			}
			pairs = keep
		}
		for pi, p := range pairs {
			id := fmt.Sprintf("r%d/p%d", round, pi)
			if !R.Want(id) {
				continue
			}
			R.Mark(id)
			oracle := func(u string) string {
				ok, _, _, _, _ := d.Authenticate(u, p.Pw)
				if ok {
					return "ok"
				}
				return "denied"
			}
			before := oracle(p.User)
			ldapUser, _, _ := strings.Cut(p.User, "@")
			beforeL := oracle(ldapUser)
			got := map[string]string{
				"sasl":  agent.saslAuth(p.User, p.Pw),
				"basic": agent.basicAuth(p.User, p.Pw),
				"api":   agent.apiAuth(p.User, p.Pw, pi%2 == 1),
				"ldap":  agent.ldapBind(p.User, p.Pw),
			}
			if (pi%9 == 0 || p.Class == "right") && ncli < vr.Pick(60, 400) {
				got["cli"] = agent.cliAuth(p.User, p.Pw)
				ncli++
			}
			after := oracle(p.User)
			if before != after {
				R.Inconcl("store verdict changed while quiescent")
				continue
			}
			for fe, v := range got {
				want := before
				if fe == "ldap" {
					want = beforeL
				}
				R.Case(fmt.Sprintf("%d|%s|%s|%s", round, p.User, p.Pw, fe), !(p.Class == "right" && len(p.Pw) < 30))
				if v == "n/a" {
					R.Count("not_expressible:"+fe, 1)
					continue
				}
				R.Count("verdicts:"+fe, 1)
				if want == "ok" {
					R.Count("store_accepts", 1)
				}
				if v == "denied-over-limit" {
					if want == "ok" {
						R.Count("over_sasl_limit_denied_although_store_accepts", 1) // documented transport limit
					}
					continue
				}
				if v != want {
					wit := map[string]any{"class": p.Class, "user": vr.Q(p.User), "password": vr.Q(p.Pw), "frontend": fe, "frontend_verdict": v, "store_verdict": want, "round": round}
					kind := "frontend-accepts-store-denies"
					if want == "ok" {
						kind = "frontend-denies-store-accepts"
					}
					if strings.HasPrefix(v, "error:") || strings.HasPrefix(v, "status-") || strings.HasPrefix(v, "ldap-result-") || strings.HasPrefix(v, "exit-") {
						kind = "frontend-gives-no-verdict"
						if want != "ok" {
							// an internal error is a denial as long as it is not a success; transport-level failure still is not OK
							kind = "frontend-error-instead-of-denial"
						}
					}
					R.Violate(fmt.Sprintf("c04:%s:%s:%s", kind, fe, p.Class), fmt.Sprintf("%s says %q, store.Dir.Authenticate says %q for user %s password %s", fe, v, want, vr.Q(p.User), vr.Q(p.Pw)), id, wit)
				}
			}
			if len(R.Samples) < 5 && pi < 5 {
				R.Sample(map[string]any{"user": vr.Q(p.User), "password": vr.Q(p.Pw), "class": p.Class, "store": before, "frontends": got})
			}
		}
		if !agent.Alive() {
			R.Violate("c04:agent-died", "the agent process died: "+agent.out.String(), fmt.Sprintf("r%d", round), nil)
			return
		}
		// advance the store state through management operations (CLI and API)
		c04Advance(R, rng, agent, d, users, round)
	}
	c04InternalErrors(R, agent, d, base, sets)
	c04Methods(R, agent, d)
	c04Options(R, rng, bin, dir)
	c04Concurrent(R, rng, agent, users)
	R.Count("cli_calls", ncli)
}

func c04Advance(R *vr.Result, rng *rand.Rand, agent *agentProc, d *store.Dir, users map[string]string, round int) {
	cli := func(args ...string) error {
		return exec.Command(agent.bin, append([]string{"--store", agent.cfg}, args...)...).Run()
	}
	// API session of root
	body, _ := json.Marshal(map[string]string{"username": "root", "password": users["root"]})
	resp, err := c04HTTP.Post("http://"+agent.HTTP+"/api/authenticate", "application/json", bytes.NewReader(body))
	sess := ""
	if err == nil {
		var m map[string]any
		json.NewDecoder(resp.Body).Decode(&m) //nolint:errcheck
		resp.Body.Close()                     //nolint:errcheck
		sess, _ = m["session"].(string)
	}
	post := func(path string, m map[string]any) int {
		b, _ := json.Marshal(m)
		r, err := c04HTTP.Post("http://"+agent.HTTP+path, "application/json", bytes.NewReader(b))
		if err != nil {
			return -1
		}
		r.Body.Close() //nolint:errcheck
		return r.StatusCode
	}
	np := fmt.Sprintf("changed:%d:pw é", round)
	if cli("update", "alice", np) == nil {
		users["alice"] = np
	}
	np2 := fmt.Sprintf("api-changed-%d-ß", round)
	if post("/api/update", map[string]any{"session": sess, "username": "colon", "newpassword": np2}) == 200 {
		users["colon"] = np2
	}
	if cli("remove", "eq") == nil {
		delete(users, "eq")
	}
	nu := fmt.Sprintf("new%d@round", round)
	if post("/api/add", map[string]any{"session": sess, "username": nu, "password": "pw:" + nu, "admin": false}) == 200 {
		users[nu] = "pw:" + nu
	}
	nb := fmt.Sprintf("new%d", round)
	if cli("add", nb, "base-pw-"+nb) == nil {
		users[nb] = "base-pw-" + nb
	}
	cli("set-admin", "a", "true") //nolint:errcheck
	R.Count("management_operations", 6)
	// the model of passwords must agree with the store
	for u, p := range users {
		if ok, _, _, _, _ := d.Authenticate(u, p); !ok {
			R.Violate("c04:management-operation-not-reflected", fmt.Sprintf("after management operations user %s does not authenticate with the password set through CLI/API", vr.Q(u)), fmt.Sprintf("advance%d", round), nil)
		}
	}
}

func c04InternalErrors(R *vr.Result, agent *agentProc, d *store.Dir, base string, sets []ref.ParamSet) {
	// a record naming an unknown parameter set, a directory in place of the file, an unreadable-as-record file
	os.WriteFile(filepath.Join(base, "unk.user"), []byte("argon2id:1700000000:77:QUJDREVGR0hJSktMTU5PUA==:QUJDREVGR0hJSktMTU5PUFFSU1RVVldYWVo=\n"), 0600) //nolint:errcheck
	os.Mkdir(filepath.Join(base, "dir.user"), 0700)                                                                                                       //nolint:errcheck
	os.WriteFile(filepath.Join(base, "junk.user"), []byte("\x00\x01garbage"), 0600)                                                                       //nolint:errcheck
	os.WriteFile(filepath.Join(base, "empty.user"), nil, 0600)                                                                                            //nolint:errcheck
	for _, u := range []string{"unk", "dir", "junk", "empty"} {
		for _, pw := range []string{"x", "QUJD"} {
			got := map[string]string{"sasl": agent.saslAuth(u, pw), "basic": agent.basicAuth(u, pw), "api": agent.apiAuth(u, pw, false), "ldap": agent.ldapBind(u, pw), "cli": agent.cliAuth(u, pw)}
			for fe, v := range got {
				R.Case("internal-error|"+u+"|"+fe, true)
				R.Count("internal_error_probes", 1)
				if v != "denied" {
					R.Violate("c04:internal-error-not-a-denial:"+fe, fmt.Sprintf("user %s (store reports an error) gives %q on %s", u, v, fe), "internal/"+u, nil)
				}
			}
		}
	}
	for _, u := range []string{"unk", "junk", "empty"} {
		os.Remove(filepath.Join(base, u+".user")) //nolint:errcheck
	}
	os.Remove(filepath.Join(base, "dir.user")) //nolint:errcheck
}

func c04Concurrent(R *vr.Result, rng *rand.Rand, agent *agentProc, users map[string]string) {
	type job struct {
		u, p string
		want string
		fe   string
	}
	var names []string
	for u := range users {
		if len(u) < 50 && len(users[u]) <= 256 && utf8.ValidString(users[u]) && !strings.Contains(u, "@") {
			names = append(names, u)
		}
	}
	rounds := vr.Pick(20, 200)
	wrong := 0
	total := 0
	var first string
	var mu sync.Mutex
	for r := 0; r < rounds; r++ {
		var wg sync.WaitGroup
		gate := make(chan struct{})
		for i := 0; i < 32; i++ {
			u := names[rng.Intn(len(names))]
			j := job{u: u, p: users[u], want: "ok", fe: []string{"sasl", "basic", "api", "ldap"}[(i+r)%4]}
			if i%2 == 1 {
				j.p = users[names[(i+r)%len(names)]] + "-wrong"
				j.want = "denied"
			}
			wg.Add(1)
			go func(j job) {
				defer wg.Done()
				<-gate
				var v string
				switch j.fe {
				case "sasl":
					v = agent.saslAuth(j.u, j.p)
				case "basic":
					v = agent.basicAuth(j.u, j.p)
				case "api":
					v = agent.apiAuth(j.u, j.p, false)
				case "ldap":
					v = agent.ldapBind(j.u, j.p)
				}
				if v == "denied-over-limit" {
					v = "denied"
				}
				mu.Lock()
				total++
				if v != j.want && v != "n/a" {
					wrong++
					if first == "" {
						first = fmt.Sprintf("%s: user %s expected %s got %s", j.fe, vr.Q(j.u), j.want, v)
					}
				}
				mu.Unlock()
			}(j)
		}
		// two requests in flight whose user name and password, written one after the other, give the same bytes:
		// (alice, secret) is right, (a, licesecret) and (alic, esecret) are wrong - on every frontend, arriving together
		{
			for k := 0; k < 4; k++ {
				fe := []string{"sasl", "basic", "api", "ldap"}[(k+r)%4]
				cu := names[(k+r)%len(names)]
				for try := 0; len(cu) < 3 && try < len(names); try++ {
					cu = names[(k+r+try)%len(names)]
				}
				if len(cu) < 3 || len(users[cu]) > 200 || strings.ContainsAny(cu+users[cu], ":\x00") {
					continue
				}
				cp := users[cu]
				for _, j := range []job{{u: cu, p: cp, want: "ok", fe: fe}, {u: cu[:1], p: cu[1:] + cp, want: "denied", fe: fe}, {u: cu[:len(cu)-1], p: cu[len(cu)-1:] + cp, want: "denied", fe: fe}} {
					if _, exists := users[j.u]; exists && j.want == "denied" && users[j.u] == j.p {
						continue
					}
					wg.Add(1)
					go func(j job) {
						defer wg.Done()
						<-gate
						var v string
						switch j.fe {
						case "sasl":
							v = agent.saslAuth(j.u, j.p)
						case "basic":
							v = agent.basicAuth(j.u, j.p)
						case "api":
							v = agent.apiAuth(j.u, j.p, false)
						case "ldap":
							v = agent.ldapBind(j.u, j.p)
						}
						if v == "denied-over-limit" {
							v = "denied"
						}
						mu.Lock()
						total++
						if v != j.want && v != "n/a" {
							wrong++
							if first == "" {
								first = fmt.Sprintf("%s: user %s password %s expected %s got %s (requests with the same user+password concatenation in flight)", j.fe, vr.Q(j.u), vr.Q(j.p), j.want, v)
							}
						}
						mu.Unlock()
					}(j)
				}
			}
		}
		close(gate)
		wg.Wait()
	}
	R.Case("concurrent", true)
	R.Count("concurrent_requests", total)
	if wrong > 0 {
		R.Violate("c04:concurrent-requests-get-wrong-verdict", fmt.Sprintf("%d of %d concurrent requests received a verdict that is not the store's; first: %s", wrong, total, first), "concurrent", nil)
	}
}

// c04Options: the same comparison on agents started with hash upgrades and a password policy in every combination,
// over records of non-default parameter sets whose passwords pass / fail the policy: an auxiliary step that
// fails (the upgrade of a password the policy refuses) must not change the verdict.
func c04Options(R *vr.Result, rng *rand.Rand, bin, root string) {
	dir := filepath.Join(root, "opt")
	base := filepath.Join(dir, "base")
	sets := ref.CheapSets(rng, 3)
	cfg := filepath.Join(dir, "store.yml")
	type ou struct {
		name, pw string
		set      int
		admin    bool
	}
	users := []ou{{"root", "Root-Quartz-Zebra-Lamp-77!", 1, true}, {"weak2", "abc123", 2, false}, {"weak3", "password1", 3, true}, {"strong2", "Lamp-Quartz-Zebra-42-horse?", 2, false},
		{"strong3", "kT7#vQ2$mZ9!pL4^wX8&bN3", 3, false}, {"cur1", "abc", 1, false}}
	plant := func() {
		os.RemoveAll(dir)                                        //nolint:errcheck
		os.MkdirAll(filepath.Join(base, ".tmp"), 0700)           //nolint:errcheck
		os.WriteFile(cfg, []byte(ref.YAML(base, 1, sets)), 0600) //nolint:errcheck
		for _, u := range users {
			ps := sets[u.set-1]
			salt := make([]byte, ps.SaltLen())
			rng.Read(salt)
			ext := ".user"
			if u.admin {
				ext = ".admin"
			}
			os.WriteFile(filepath.Join(base, u.name+ext), []byte(ps.Record([]byte(u.pw), salt, time.Now().Unix()-1000)+"\n"), 0600) //nolint:errcheck
		}
	}
	combos := [][]string{
		{"--do-upgrades", "local", "--policy-type", "zxcvbn", "--policy-condition", "score >= 3"},
		{"--do-upgrades", "local"},
		{"--policy-type", "zxcvbn", "--policy-condition", "score >= 4"},
		{"--do-upgrades", "local", "--policy-type", "zxcvbn", "--policy-condition", "entropy >= 60", "--hooks-dir", filepath.Join(root, "opt-hooks")},
	}
	os.MkdirAll(filepath.Join(root, "opt-hooks"), 0700)                                         //nolint:errcheck
	os.WriteFile(filepath.Join(root, "opt-hooks", "h.sh"), []byte("#!/bin/sh\nexit 1\n"), 0700) //nolint:errcheck
	for ci, extra := range combos {
		plant()
		d, err := store.NewDirFromConfig(cfg)
		if err != nil {
			R.Fatal = "options: " + err.Error()
			return
		}
		agent, err := startAgent(bin, cfg, dir, []string{"sasl", "http", "ldap"}, extra...)
		if err != nil {
			R.Violate("c04:agent-does-not-start-with-options", fmt.Sprintf("%v: %v", extra, err), fmt.Sprintf("options/%d", ci), nil)
			continue
		}
		for _, u := range users {
			for _, pw := range []string{u.pw, u.pw + "x", strings.ToUpper(u.pw)} {
				for _, fe := range []string{"sasl", "basic", "api", "ldap", "cli"} {
					want, _, _, _, _ := d.Authenticate(u.name, pw)
					var got string
					switch fe {
					case "sasl":
						got = agent.saslAuth(u.name, pw)
					case "basic":
						got = agent.basicAuth(u.name, pw)
					case "api":
						got = agent.apiAuth(u.name, pw, false)
					case "ldap":
						got = agent.ldapBind(u.name, pw)
					case "cli":
						got = agent.cliAuth(u.name, pw)
					}
					R.Case(fmt.Sprintf("options|%d|%s|%s|%s", ci, u.name, vr.Q(pw), fe), true)
					R.Count("option_combination_probes", 1)
					if (got == "ok") != want || (got != "ok" && got != "denied") {
						kind := "frontend-denies-store-accepts"
						if !want {
							kind = "frontend-accepts-store-denies"
						}
						R.Violate(fmt.Sprintf("c04:%s:%s:with-options", kind, fe), fmt.Sprintf("agent started with %v: %s says %q for (%s, %s), the store says %v", extra, fe, got, u.name, vr.Q(pw), want), fmt.Sprintf("options/%d/%s", ci, u.name), map[string]any{"options": extra, "user": u.name, "record_set": u.set})
					}
				}
			}
		}
		agent.Stop()
	}
}

// c04Methods: whatever the HTTP method, content type or header spelling, a request whose credentials the store
// refuses (or that carries none) never gets a 2xx answer from the authentication endpoints.
func c04Methods(R *vr.Result, agent *agentProc, d *store.Dir) {
	type cred struct{ class, user, pw string }
	creds := []cred{{"wrong-password", "alice", "not-the-password"}, {"unknown-user", "nobody-here", "secret"}, {"no-credentials", "", ""}, {"empty-password", "alice", ""}, {"right", "root", "root-Password"}}
	for _, m := range []string{"GET", "HEAD", "POST", "PUT", "DELETE", "PATCH", "OPTIONS", "PROPFIND", "TRACE", "CONNECT", "get", "FOO"} {
		for _, ep := range []string{"/basic-auth", "/api/authenticate"} {
			for _, c := range creds {
				for _, ct := range []string{"application/json", "text/plain", ""} {
					if ep == "/basic-auth" && ct != "" {
						continue
					}
					var body io.Reader
					if ep == "/api/authenticate" && c.class != "no-credentials" {
						b, _ := json.Marshal(map[string]string{"username": c.user, "password": c.pw})
						body = bytes.NewReader(b)
					}
					req, err := http.NewRequest(m, "http://"+agent.HTTP+ep, body)
					if err != nil {
						continue
					}
					if ct != "" {
						req.Header.Set("Content-Type", ct)
					}
					if ep == "/basic-auth" && c.class != "no-credentials" {
						req.Header.Set("Authorization", "Basic "+base64.StdEncoding.EncodeToString([]byte(c.user+":"+c.pw)))
					}
					req.Header.Set("Origin", "https://example.org")
					req.Header.Set("Access-Control-Request-Method", "POST")
					want, _, _, _, _ := d.Authenticate(c.user, c.pw)
					resp, err := c04HTTP.Do(req)
					if err != nil {
						R.Count("method_probe_transport_errors", 1)
						continue
					}
					io.Copy(io.Discard, resp.Body) //nolint:errcheck
					resp.Body.Close()              //nolint:errcheck
					R.Case(fmt.Sprintf("method|%s|%s|%s|%s", m, ep, c.class, ct), true)
					R.Count("method_probes", 1)
					if !want && resp.StatusCode >= 200 && resp.StatusCode < 300 {
						R.Violate(fmt.Sprintf("c04:frontend-accepts-store-denies:http-method:%s", strings.ToUpper(m)), fmt.Sprintf("%s %s with %s (content type %q) is answered %d although the store refuses these credentials", m, ep, c.class, ct, resp.StatusCode), "methods/"+m+ep, map[string]any{"method": m, "endpoint": ep, "credentials": c.class, "status": resp.StatusCode})
					}
				}
			}
		}
	}
}
