package main

import (
	"bytes"
	"encoding/json"
	"fmt"
	"net/http"
	"os"
	"path/filepath"
	"sync"
	"time"

	"github.com/whawty/auth/store"
	"github.com/whawty/auth/zz_verif/ref"
	"github.com/whawty/auth/zz_verif/vr"
)

func init() { stages["c11bin"] = c11bin }

// c11bin: the built binary with all listeners and local upgrades: a password change through the web API races
// logins of the same (upgradeable) user with the OLD password on the saslauthd socket and the LDAP port. Once the
// agent is idle, exactly the acknowledged new password must work - whichever listener the racing logins came through.
func c11bin() {
	R := vr.New("C11", "binary-frontends", "the built binary (`run` with saslauthd, HTTP and LDAP listeners, --do-upgrades local) on a store whose users' records are upgradeable and whose default set costs ~100 ms per hash; per round one user's password is changed through /api/update (admin session) while logins with the old password arrive on the saslauthd socket, the LDAP port and basic-auth; after the reply to the update and an idle period the directory is read with the store library: the acknowledged new password must authenticate and the old one must not (an internal hash upgrade triggered by a racing login must never re-store the old password), and the directory must pass the consistency check. Non-trivial: every round in which at least one racing login succeeded (so an upgrade was triggered); distinct by round")
	defer R.Write()
	rng := R.Rand("c11bin")
	bin := filepath.Join(os.Getenv("VERIF_BIN"), "whawty-auth")
	dir := filepath.Join(workDir(), "c11bin")
	os.RemoveAll(dir) //nolint:errcheck
	base := filepath.Join(dir, "base")
	os.MkdirAll(filepath.Join(base, ".tmp"), 0700) //nolint:errcheck
	key := make([]byte, 32)
	rng.Read(key)
	sets := []ref.ParamSet{{ID: 1, Algo: ref.AlgoScrypt, HmacKey: key, Cost: 16, R: 8, P: 1}, {ID: 2, Algo: ref.AlgoScrypt, HmacKey: key, Cost: 2, R: 1, P: 1}}
	cfg := filepath.Join(dir, "store.yml")
	os.WriteFile(cfg, []byte(ref.YAML(base, 1, sets)), 0600) //nolint:errcheck
	plant := func(name, pw string, admin bool) {
		salt := make([]byte, sets[1].SaltLen())
		rng.Read(salt)
		ext := ".user"
		if admin {
			ext = ".admin"
		}
		os.WriteFile(filepath.Join(base, name+ext), []byte(sets[1].Record([]byte(pw), salt, time.Now().Unix()-5000)+"\ntotp: QUJD\n"), 0600) //nolint:errcheck
	}
	rounds := vr.Pick(8, 60)
	plant("root", "root-pw", true)
	for i := 0; i < rounds; i++ {
		plant(fmt.Sprintf("u%d", i), fmt.Sprintf("old-%d", i), false)
	}
	d, err := store.NewDirFromConfig(cfg)
	if err != nil {
		R.Fatal = err.Error()
		return
	}
	agent, err := startAgent(bin, cfg, dir, []string{"sasl", "http", "ldap"}, "--do-upgrades", "local")
	if err != nil {
		R.Fatal = err.Error()
		return
	}
	defer agent.Stop()
	post := func(path string, m map[string]any) (int, map[string]any) {
		b, _ := json.Marshal(m)
		resp, err := c04HTTP.Post("http://"+agent.HTTP+path, "application/json", bytes.NewReader(b))
		if err != nil {
			return -1, nil
		}
		defer resp.Body.Close() //nolint:errcheck
		var out map[string]any
		json.NewDecoder(resp.Body).Decode(&out) //nolint:errcheck
		return resp.StatusCode, out
	}
	_, am := post("/api/authenticate", map[string]any{"username": "root", "password": "root-pw"})
	sess, _ := am["session"].(string)
	if sess == "" {
		R.Fatal = "no admin session"
		return
	}
	// how long does one update (one hash under the default set) take?
	plant("calib", "calib-old", false)
	tc := time.Now()
	post("/api/update", map[string]any{"session": sess, "username": "calib", "newpassword": "calib-new"})
	hashT := time.Since(tc)
	os.Remove(filepath.Join(base, "calib.user")) //nolint:errcheck
	R.Set("update_duration_ms", hashT.Milliseconds())
	for r := 0; r < rounds; r++ {
		u, oldpw, newpw := fmt.Sprintf("u%d", r), fmt.Sprintf("old-%d", r), fmt.Sprintf("new-%d-%08x", r, rng.Uint32())
		id := fmt.Sprintf("round%d", r)
		if !R.Want(id) {
			continue
		}
		R.Mark(id)
		var wg sync.WaitGroup
		var mu sync.Mutex
		logins := map[string]string{}
		fire := func(name string, delay time.Duration, f func() string) {
			wg.Add(1)
			go func() {
				defer wg.Done()
				time.Sleep(delay)
				v := f()
				mu.Lock()
				logins[name] = v
				mu.Unlock()
			}()
		}
		// the update starts 20 ms after the first login; the other logins arrive while the new hash is being computed
		f := func(pct int) time.Duration { return 20*time.Millisecond + hashT*time.Duration(pct+rng.Intn(15))/100 }
		if r%2 == 1 { // in every other round a login is already being upgraded when the update arrives
			fire("sasl", 0, func() string { return agent.saslAuth(u, oldpw) })
		}
		fire("ldap", f(10), func() string { return agent.ldapBind(u, oldpw) })
		fire("basic", f(35), func() string { return agent.basicAuth(u, oldpw) })
		fire("sasl2", f(55), func() string { return agent.saslAuth(u, oldpw) })
		fire("ldap2", f(75), func() string { return agent.ldapBind(u, oldpw) })
		time.Sleep(20 * time.Millisecond)
		code, _ := post("/api/update", map[string]any{"session": sess, "username": u, "newpassword": newpw})
		wg.Wait()
		// idle: the record must be stable for a while (an upgrade queued by a racing login has run or was skipped)
		stable := 0
		var last []byte
		for i := 0; i < 200 && stable < 8; i++ {
			time.Sleep(100 * time.Millisecond)
			b, _ := os.ReadFile(filepath.Join(base, u+".user"))
			if bytes.Equal(b, last) {
				stable++
			} else {
				stable, last = 0, b
			}
		}
		okLogins := 0
		for _, v := range logins {
			if v == "ok" {
				okLogins++
			}
		}
		R.Case(id, okLogins > 0)
		R.Count("binary_rounds", 1)
		R.Count("racing_logins_accepted", okLogins)
		wit := map[string]any{"user": u, "update_status": code, "racing_logins": logins, "record_now": vr.Q(string(last))}
		if code != http.StatusOK {
			R.Violate("c11:binary:update-refused", fmt.Sprintf("/api/update by the administrator answered %d", code), id, wit)
			continue
		}
		newOK, _, _, _, _ := d.Authenticate(u, newpw)
		oldOK, _, _, _, _ := d.Authenticate(u, oldpw)
		if !newOK || oldOK {
			R.Violate("c11:binary:acknowledged-update-undone", fmt.Sprintf("after the update of %s was acknowledged and the agent was idle, new password authenticates=%v, old password authenticates=%v", u, newOK, oldOK), id, wit)
		}
		if err := d.Check(); err != nil {
			R.Violate("c11:binary:check-fails-at-quiescence", err.Error(), id, wit)
		}
		if tmp, _ := os.ReadDir(filepath.Join(base, ".tmp")); len(tmp) > 0 {
			R.Violate("c11:binary:tmp-residue", fmt.Sprintf("%d files in .tmp while idle", len(tmp)), id, wit)
		}
	}
	if !agent.Alive() {
		R.Violate("c11:binary:agent-died", agent.out.String(), "final", nil)
	}
}
