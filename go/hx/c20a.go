package main

import (
	"bufio"
	"bytes"
	"encoding/hex"
	"fmt"
	"os"
	"os/exec"
	"path/filepath"
	"strconv"
	"strings"

	"github.com/whawty/auth/store"
	"github.com/whawty/auth/zz_verif/ref"
	"github.com/whawty/auth/zz_verif/vr"
)

func init() { stages["c20agent"] = c20agent }

// c20agent: the compiled PAM module against the real agent binary; the verdict must be the store's verdict
// for the (clipped) credentials, and success only on an OK reply.
func c20agent() {
	R := vr.New("C20", "real-agent", "the sanitizer build of the PAM module talks to the saslauthd socket of the real whawty-auth binary; users and passwords of 1..300 bytes (binary), unknown and hostile names (which make the agent produce long error replies); PAM_SUCCESS must coincide with store.Dir.Authenticate for the fields clipped to 256 bytes. Non-trivial: every pair other than a short right password; distinct by (user, password)")
	defer R.Write()
	rng := R.Rand("c20a")
	bin := filepath.Join(os.Getenv("VERIF_BIN"), "whawty-auth")
	pamh := filepath.Join(os.Getenv("VERIF_BIN"), "pamh")
	dir := filepath.Join(workDir(), "c20a")
	os.RemoveAll(dir) //nolint:errcheck
	base := filepath.Join(dir, "base")
	os.MkdirAll(filepath.Join(base, ".tmp"), 0700) //nolint:errcheck
	sets := ref.CheapSets(rng, 2)
	cfg := filepath.Join(dir, "store.yml")
	os.WriteFile(cfg, []byte(ref.YAML(base, 1, sets)), 0600) //nolint:errcheck
	d, err := store.NewDirFromConfig(cfg)
	if err != nil {
		R.Fatal = err.Error()
		return
	}
	bin256 := make([]byte, 256)
	for i := range bin256 {
		bin256[i] = byte(1 + i%255)
	}
	users := map[string]string{"root": "root-pw", "alice": "secret", "binpw": string(bin256[:40]), "p255": strings.Repeat("x", 255), "p256": string(bin256), "p257": strings.Repeat("z", 257), "p300": strings.Repeat("w", 300), strings.Repeat("n", 200): "long-name-pw", "a.b-c_d@e": "pw with spaces "}
	for u, p := range users {
		if err := d.AddUser(u, p, u == "root"); err != nil {
			R.Fatal = err.Error()
			return
		}
	}
	agent, err := startAgent(bin, cfg, dir, []string{"sasl"})
	if err != nil {
		R.Fatal = err.Error()
		return
	}
	defer agent.Stop()
	type pc struct{ id, u, p string }
	var cases []pc
	n := 0
	add := func(u, p string) { n++; cases = append(cases, pc{fmt.Sprintf("a%d", n), u, p}) }
	for u, p := range users {
		add(u, p)
		add(u, p+"x")
		add(u, p[:len(p)-1])
		add(u, strings.ToUpper(p))
		if len(p) > 256 {
			add(u, p[:256])
		}
	}
	for _, u := range []string{"ghost", strings.Repeat("g", 250), strings.Repeat("g", 256), strings.Repeat("g", 300), "../base/alice", "alice ", "ALICE", "", "-x", "ali\tce"} {
		add(u, "secret")
	}
	add("alice", "")
	var sb strings.Builder
	for _, c := range cases {
		fmt.Fprintf(&sb, "%s\t%s\t%s\tstack\ttry_first_pass\t%s\t0\t0\t0\n", c.id, hex.EncodeToString([]byte(c.u)), hex.EncodeToString([]byte(c.p)), agent.Sasl)
	}
	f := filepath.Join(dir, "cases.txt")
	os.WriteFile(f, []byte(sb.String()), 0600) //nolint:errcheck
	cmd := exec.Command("timeout", "-s", "KILL", "300", pamh, f)
	cmd.Env = append(os.Environ(), "ASAN_OPTIONS=detect_leaks=1:exitcode=99")
	var stderr bytes.Buffer
	cmd.Stderr = &stderr
	out, _ := cmd.Output()
	rc := map[string]int{}
	sc := bufio.NewScanner(bytes.NewReader(out))
	for sc.Scan() {
		fl := strings.Split(sc.Text(), "\t")
		if fl[0] == "END" && len(fl) > 2 {
			rc[fl[1]], _ = strconv.Atoi(fl[2])
		}
	}
	if cmd.ProcessState != nil && cmd.ProcessState.ExitCode() != 0 {
		R.Violate("c20:sanitizer-or-crash-against-real-agent", fmt.Sprintf("pam harness exited %d: %s", cmd.ProcessState.ExitCode(), stderr.String()), "real-agent", nil)
	}
	clip := func(s string) string {
		if len(s) > 256 {
			return s[:256]
		}
		return s
	}
	for _, c := range cases {
		got, ok := rc[c.id]
		if !ok {
			R.Inconcl("no result for " + c.id)
			continue
		}
		want := false
		if c.u != "" && c.p != "" {
			want, _, _, _, _ = d.Authenticate(clip(c.u), clip(c.p))
		}
		R.Case(c.u+"\x00"+c.p, !(want && len(c.p) < 20))
		R.Count("real_agent_cases", 1)
		if want {
			R.Count("real_agent_store_accepts", 1)
		}
		if (got == 0) != want {
			R.Violate(fmt.Sprintf("c20:real-agent-verdict:pam-success=%v:store-accepts=%v", got == 0, want), fmt.Sprintf("PAM return code %d for user %s password %s (store verdict for the fields clipped to 256 bytes: %v)", got, vr.Q(c.u), vr.Q(c.p), want), c.id, nil)
		}
	}
	if !agent.Alive() {
		R.Violate("c20:agent-died", agent.out.String(), "real-agent", nil)
	}
	R.Sample(map[string]any{"cases": len(cases), "socket": agent.Sasl})
}
