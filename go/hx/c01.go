package main

import (
	"fmt"
	"math/rand"
	"os"
	"path/filepath"
	"sort"
	"strings"
	"time"

	"github.com/whawty/auth/store"
	"github.com/whawty/auth/zz_verif/ref"
	"github.com/whawty/auth/zz_verif/vr"
)

func init() { stages["c01"] = c01 }

type c01User struct {
	exists bool
	pw     []byte
	admin  bool
	set    uint
	tLo    int64
	tHi    int64
}

type c01Op struct {
	Op   string `json:"op"`
	User string `json:"user,omitempty"`
	Pw   string `json:"pw,omitempty"`
	Adm  bool   `json:"admin,omitempty"`
	Res  string `json:"res,omitempty"`
}

func c01() {
	R := vr.New("C01", "history", "seeded operation histories (add/update/set-admin/remove/failed ops, records whose time field another tool set to the future / 0 / the past, hash files that are symbolic links to a file outside the base directory, add/update failing half-way because <base>/.tmp is not a directory/default switch/set removal) over 3-6 users on stores with 4 parameter sets; after every step the whole observable state is compared with a sequential reference model and near-miss passwords are probed. Non-trivial: a history with >=2 users, >=1 successful update and >=1 failed operation; distinct by operation sequence hash")
	defer R.Write()
	nh := vr.Pick(150, 1200)
	nops := vr.Pick(25, 40)
	root := filepath.Join(workDir(), "c01")
	for h := 0; h < nh; h++ {
		id := fmt.Sprintf("h%d", h)
		if !R.Want(id) {
			continue
		}
		R.Mark(id)
		rng := R.Rand(id)
		dir := filepath.Join(root, id)
		os.RemoveAll(dir) //nolint:errcheck
		c01History(R, rng, id, dir, nops)
		os.RemoveAll(dir) //nolint:errcheck
	}
}

func c01History(R *vr.Result, rng *rand.Rand, id, dir string, nops int) {
	base := filepath.Join(dir, "base")
	os.MkdirAll(base, 0700) //nolint:errcheck
	cfg := filepath.Join(dir, "store.yml")
	all := ref.CheapSets(rng, 4)
	active := map[uint]bool{1: true, 2: true, 3: true, 4: true}
	def := uint(1 + rng.Intn(4))
	var d *store.Dir
	reopen := func() bool {
		var sets []ref.ParamSet
		for _, s := range all {
			if active[s.ID] {
				sets = append(sets, s)
			}
		}
		os.WriteFile(cfg, []byte(ref.YAML(base, def, sets)), 0600) //nolint:errcheck
		var err error
		if p := vr.Safe(func() { d, err = store.NewDirFromConfig(cfg) }); p != "" || err != nil {
			R.Violate("c01:reopen-failed", fmt.Sprintf("NewDirFromConfig on a generated valid config failed: %v %s", err, p), id, ref.YAML(base, def, sets))
			return false
		}
		return true
	}
	if !reopen() {
		return
	}
	nusers := 3 + rng.Intn(4)
	special := []string{"a.user", "x@y.z", "a", "A", "a.admin", "0", "u-_.@"}
	var names []string
	seen := map[string]bool{}
	for len(names) < nusers {
		n := ref.ValidName(rng)
		if rng.Intn(3) == 0 {
			n = special[rng.Intn(len(special))]
		}
		if !seen[n] {
			seen[n] = true
			names = append(names, n)
		}
	}
	invalid := []string{"", "-x", ".x", "_x", "@x", "a b", "a/b", "a:b", "ä", "a\n", "a\x00"}
	model := map[string]*c01User{}
	for _, n := range names {
		model[n] = &c01User{}
	}
	var hist []c01Op
	nUpd, nFail := 0, 0
	viol := func(sig, what string) {
		R.Violate(sig, what, id, map[string]any{"history": hist, "default": def})
	}
	for step := 0; step < nops; step++ {
		u := names[rng.Intn(len(names))]
		m := model[u]
		op := c01Op{User: u}
		switch k := rng.Intn(100); {
		case k < 30: // add
			name := u
			wantErr := m.exists
			if rng.Intn(6) == 0 {
				name = invalid[rng.Intn(len(invalid))]
				wantErr = true
			}
			pw := ref.Password(rng)
			adm := rng.Intn(3) == 0
			op = c01Op{Op: "add", User: name, Pw: vr.Q(string(pw)), Adm: adm}
			t0 := time.Now().Unix()
			var err error
			if p := vr.Safe(func() { err = d.AddUser(name, string(pw), adm) }); p != "" {
				viol("c01:panic:add", "AddUser panicked: "+p)
			}
			t1 := time.Now().Unix()
			op.Res = errStr(err)
			hist = append(hist, op)
			if (err != nil) != wantErr {
				viol(fmt.Sprintf("c01:op-result:add:want-err=%v", wantErr), fmt.Sprintf("AddUser(%q) returned %v", name, err))
			}
			if err == nil && !wantErr {
				*m = c01User{exists: true, pw: pw, admin: adm, set: def, tLo: t0, tHi: t1}
			} else {
				nFail++
			}
		case k < 55: // update
			pw := ref.Password(rng)
			op = c01Op{Op: "update", User: u, Pw: vr.Q(string(pw))}
			wantErr := !m.exists || !active[m.set]
			t0 := time.Now().Unix()
			var err error
			if p := vr.Safe(func() { err = d.UpdateUser(u, string(pw)) }); p != "" {
				viol("c01:panic:update", "UpdateUser panicked: "+p)
			}
			t1 := time.Now().Unix()
			op.Res = errStr(err)
			hist = append(hist, op)
			if (err != nil) != wantErr {
				viol(fmt.Sprintf("c01:op-result:update:want-err=%v", wantErr), fmt.Sprintf("UpdateUser(%q) returned %v", u, err))
			}
			if err == nil && !wantErr {
				m.pw, m.set, m.tLo, m.tHi = pw, def, t0, t1
				nUpd++
			} else {
				nFail++
			}
		case k < 70: // set-admin
			adm := rng.Intn(2) == 0
			op = c01Op{Op: "setadmin", User: u, Adm: adm}
			var err error
			if p := vr.Safe(func() { err = d.SetAdmin(u, adm) }); p != "" {
				viol("c01:panic:setadmin", "SetAdmin panicked: "+p)
			}
			op.Res = errStr(err)
			hist = append(hist, op)
			if (err != nil) != !m.exists {
				viol(fmt.Sprintf("c01:op-result:setadmin:want-err=%v", !m.exists), fmt.Sprintf("SetAdmin(%q,%v) returned %v", u, adm, err))
			}
			if err == nil && m.exists {
				m.admin = adm
			} else {
				nFail++
			}
		case k < 82: // remove
			op = c01Op{Op: "remove", User: u}
			if p := vr.Safe(func() { d.RemoveUser(u) }); p != "" {
				viol("c01:panic:remove", "RemoveUser panicked: "+p)
			}
			hist = append(hist, op)
			m.exists = false
		case k < 86: // another tool (a sync from a host whose clock differs) rewrites only the time field of the record
			if !m.exists {
				continue
			}
			ext := ".user"
			if m.admin {
				ext = ".admin"
			}
			p := filepath.Join(base, u+ext)
			if rng.Intn(3) == 0 {
				// the record is kept on another volume and linked back (or the link already exists: nothing to do)
				if fi, err := os.Lstat(p); err == nil && fi.Mode().IsRegular() {
					side := filepath.Join(dir, "side")
					os.MkdirAll(side, 0700) //nolint:errcheck
					tgt := filepath.Join(side, fmt.Sprintf("%s%s.%d", u, ext, step))
					if os.Rename(p, tgt) == nil && os.Symlink(tgt, p) == nil {
						hist = append(hist, c01Op{Op: "relink", User: u})
						R.Count("symlinked_records", 1)
					}
				}
				c01Observe(R, rng, d, names, model, all, active, def, viol)
				continue
			}
			data, err := os.ReadFile(p)
			f := strings.SplitN(string(data), ":", 3)
			if err != nil || len(f) != 3 {
				continue
			}
			nowT := time.Now().Unix()
			T := []int64{nowT + 90, nowT + 86400, 4102444800, 0, 1, nowT - 10*365*86400}[rng.Intn(6)]
			os.WriteFile(p, []byte(f[0]+":"+fmt.Sprint(T)+":"+f[2]), 0600) //nolint:errcheck
			m.tLo, m.tHi = T, T
			hist = append(hist, c01Op{Op: "restamp", User: u, Res: fmt.Sprint(T)})
			R.Count("restamped_records", 1)
		case k < 91: // add / update that fails half-way: <base>/.tmp is not a directory while the call runs
			pw := ref.Password(rng)
			tmp := filepath.Join(base, ".tmp")
			os.RemoveAll(tmp)                          //nolint:errcheck
			os.WriteFile(tmp, []byte("decoy\n"), 0600) //nolint:errcheck
			var err error
			if rng.Intn(3) == 0 {
				adm := rng.Intn(2) == 0
				op = c01Op{Op: "add-obstructed", User: u, Pw: vr.Q(string(pw)), Adm: adm}
				if p := vr.Safe(func() { err = d.AddUser(u, string(pw), adm) }); p != "" {
					viol("c01:panic:add", "AddUser panicked: "+p)
				}
			} else {
				op = c01Op{Op: "update-obstructed", User: u, Pw: vr.Q(string(pw))}
				if p := vr.Safe(func() { err = d.UpdateUser(u, string(pw)) }); p != "" {
					viol("c01:panic:update", "UpdateUser panicked: "+p)
				}
			}
			os.Remove(tmp) //nolint:errcheck
			op.Res = errStr(err)
			hist = append(hist, op)
			if err == nil {
				viol("c01:op-result:"+op.Op+":want-err=true", fmt.Sprintf("%s(%q) succeeded although no temporary file can be created", op.Op, u))
			}
			nFail++
			R.Count("obstructed_ops", 1)
		case k < 95: // switch default
			var cand []uint
			for i := range active {
				if active[i] {
					cand = append(cand, i)
				}
			}
			sort.Slice(cand, func(i, j int) bool { return cand[i] < cand[j] })
			def = cand[rng.Intn(len(cand))]
			hist = append(hist, c01Op{Op: "default", Res: fmt.Sprint(def)})
			if !reopen() {
				return
			}
		default: // deactivate / reactivate a non-default set
			sid := uint(1 + rng.Intn(4))
			if sid != def {
				active[sid] = !active[sid]
				hist = append(hist, c01Op{Op: "toggle-set", Res: fmt.Sprintf("%d=%v", sid, active[sid])})
				if !reopen() {
					return
				}
			}
		}
		c01Observe(R, rng, d, names, model, all, active, def, viol)
	}
	key := fmt.Sprint(hist)
	R.Case(key, len(names) >= 2 && nUpd >= 1 && nFail >= 1)
	R.Count("ops", len(hist))
	R.Count("successful_updates", nUpd)
	R.Count("failed_ops", nFail)
	R.Sample(map[string]any{"history": id, "users": names, "ops": hist})
}

func errStr(err error) string {
	if err == nil {
		return "ok"
	}
	s := err.Error()
	if len(s) > 80 {
		s = s[:80]
	}
	return "err: " + s
}

func c01Observe(R *vr.Result, rng *rand.Rand, d *store.Dir, names []string, model map[string]*c01User, all []ref.ParamSet, active map[uint]bool, def uint, viol func(sig, what string)) {
	sets := ref.SetMap(all)
	// list / list-full
	var list store.UserList
	var full store.UserListFull
	var lerr, ferr error
	if p := vr.Safe(func() { list, lerr = d.List(); full, ferr = d.ListFull() }); p != "" {
		viol("c01:panic:list", "List/ListFull panicked: "+p)
		return
	}
	if lerr != nil || ferr != nil {
		viol("c01:list-error", fmt.Sprintf("List/ListFull error: %v / %v", lerr, ferr))
	}
	wantList, wantFull := 0, 0
	for _, u := range names {
		m := model[u]
		var ex, adm bool
		var err error
		if p := vr.Safe(func() { ex, adm, err = d.Exists(u) }); p != "" {
			viol("c01:panic:exists", p)
		}
		if err != nil || ex != m.exists || (ex && adm != m.admin) {
			viol("c01:exists-mismatch", fmt.Sprintf("Exists(%q)=(%v,%v,%v) model=(%v,%v)", u, ex, adm, err, m.exists, m.admin))
		}
		supported := m.exists && active[m.set]
		if m.exists {
			wantFull++
			fe, ok := full[u]
			if !ok {
				viol("c01:listfull-missing", fmt.Sprintf("ListFull lacks %q", u))
			} else if fe.IsAdmin != m.admin || fe.IsValid != true || fe.IsSupported != supported || fe.ParamID != m.set || fe.FormatID != sets[m.set].Algo || fe.LastChanged.Unix() < m.tLo || fe.LastChanged.Unix() > m.tHi {
				viol("c01:listfull-mismatch", fmt.Sprintf("ListFull[%q]=%+v model admin=%v supported=%v set=%d t=[%d,%d]", u, fe, m.admin, supported, m.set, m.tLo, m.tHi))
			}
		} else if _, ok := full[u]; ok {
			viol("c01:listfull-stale", fmt.Sprintf("ListFull still has removed/never-added %q", u))
		}
		le, inList := list[u]
		if supported {
			wantList++
			if !inList {
				viol("c01:list-missing", fmt.Sprintf("List lacks %q", u))
			} else if le.IsAdmin != m.admin || le.LastChanged.Unix() < m.tLo || le.LastChanged.Unix() > m.tHi {
				viol("c01:list-mismatch", fmt.Sprintf("List[%q]=%+v model admin=%v t=[%d,%d]", u, le, m.admin, m.tLo, m.tHi))
			}
		} else if inList {
			viol("c01:list-stale", fmt.Sprintf("List has %q which is removed or unsupported", u))
		}
		// authenticate with the model's password
		auth := func(pw []byte) (bool, bool, bool, time.Time, error, string) {
			var ok, ad, up bool
			var lc time.Time
			var err error
			p := vr.Safe(func() { ok, ad, up, lc, err = d.Authenticate(u, string(pw)) })
			return ok, ad, up, lc, err, p
		}
		if m.pw != nil || m.exists {
			ok, ad, up, lc, err, p := auth(m.pw)
			if p != "" {
				viol("c01:panic:authenticate", p)
			}
			R.Count("auth_probes", 1)
			if ok != supported {
				viol(fmt.Sprintf("c01:auth-verdict:want=%v", supported), fmt.Sprintf("Authenticate(%q, last-written pw %s) = %v (%v); model exists=%v supported=%v", u, vr.Q(string(m.pw)), ok, err, m.exists, supported))
			}
			if ok && supported {
				if ad != m.admin {
					viol("c01:auth-admin-flag", fmt.Sprintf("Authenticate(%q) admin=%v model=%v", u, ad, m.admin))
				}
				if up != (m.set != def) {
					viol("c01:auth-upgradeable", fmt.Sprintf("Authenticate(%q) upgradeable=%v but record set=%d default=%d", u, up, m.set, def))
				}
				if lc.Unix() < m.tLo || lc.Unix() > m.tHi {
					viol("c01:auth-lastchanged", fmt.Sprintf("Authenticate(%q) lastchanged=%d not in [%d,%d]", u, lc.Unix(), m.tLo, m.tHi))
				}
			}
			if !ok && err == nil && p == "" && false {
				_ = err
			}
		}
		// near misses, for a sample of users per step (all users in thorough)
		if supported && (vr.Thorough() || rng.Intn(len(names)) == 0) {
			ps := sets[m.set]
			cands := ref.NearMisses(rng, m.pw, vr.Thorough() && rng.Intn(4) == 0)
			for _, o := range names {
				if o != u && model[o].pw != nil {
					cands = append(cands, model[o].pw)
				}
			}
			for _, c := range cands {
				same := ps.SamePassword(c, m.pw)
				ok, _, _, _, err, p := auth(c)
				R.Count("nearmiss_probes", 1)
				if p != "" {
					viol("c01:panic:authenticate", p)
				}
				if ok != same {
					kind := nearKind(c, m.pw)
					viol(fmt.Sprintf("c01:nearmiss:%s:algo=%s:got=%v", kind, ps.Algo, ok), fmt.Sprintf("user %q pw=%s candidate=%s (%s) authenticate=%v err=%v, reference says same-key=%v", u, vr.Q(string(m.pw)), vr.Q(string(c)), kind, ok, err, same))
				}
				if same && string(c) != string(m.pw) {
					R.Count("equivalent_key_probes", 1)
				}
			}
		}
	}
	if len(list) != wantList {
		viol("c01:list-extra", fmt.Sprintf("List has %d entries, model %d: %v", len(list), wantList, keysOf(list)))
	}
	if len(full) != wantFull {
		viol("c01:listfull-extra", fmt.Sprintf("ListFull has %d entries, model %d", len(full), wantFull))
	}
}

func keysOf(l store.UserList) []string {
	var k []string
	for n := range l {
		k = append(k, n)
	}
	sort.Strings(k)
	return k
}

func nearKind(c, pw []byte) string {
	cs, ps := string(c), string(pw)
	switch {
	case len(c) < len(pw) && strings.HasPrefix(ps, cs):
		return "prefix"
	case len(c) > len(pw) && strings.HasPrefix(cs, ps):
		return "extension"
	case len(c) > len(pw) && strings.HasSuffix(cs, ps):
		return "prepended"
	case len(c) == len(pw) && strings.EqualFold(cs, ps):
		return "case"
	case len(c) == len(pw):
		return "samelen-differs"
	case len(c) == 32 && len(pw) != 32:
		return "sha256-or-other"
	}
	return "other"
}
