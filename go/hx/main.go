// Command hx is the black-box harness: one sub-command per monitor stage.
package main

import (
	"fmt"
	"os"
)

var stages = map[string]func(){}

func main() {
	if len(os.Args) < 2 {
		fmt.Fprintln(os.Stderr, "usage: hx <stage> [args]")
		os.Exit(2)
	}
	f, ok := stages[os.Args[1]]
	if !ok {
		fmt.Fprintln(os.Stderr, "unknown stage", os.Args[1])
		os.Exit(2)
	}
	f()
}

// workDir returns the scratch directory for this stage (created).
func workDir() string {
	d := os.Getenv("VERIF_WORK")
	if d == "" {
		d = "/verif/.work/adhoc"
	}
	os.MkdirAll(d, 0700) //nolint:errcheck
	return d
}
