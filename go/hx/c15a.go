package main

import (
	"bytes"
	"fmt"
	"io"
	"net"
	"os"
	"path/filepath"
	"strings"
	"time"

	"github.com/glauth/ldap"
	"github.com/whawty/auth/store"
	"github.com/whawty/auth/zz_verif/ref"
	"github.com/whawty/auth/zz_verif/vr"
)

func init() { stages["c15agent"] = c15agent }

var agentWrap []string // command prefix for startAgent (e.g. strace ...)

func ldapRaw(addr string, msgs ...[]byte) int {
	c, err := net.DialTimeout("tcp", addr, 5*time.Second)
	if err != nil {
		return 0
	}
	defer c.Close() //nolint:errcheck
	n := 0
	for _, m := range msgs {
		c.Write(m)                                         //nolint:errcheck
		c.SetReadDeadline(time.Now().Add(2 * time.Second)) //nolint:errcheck
		buf := make([]byte, 4096)
		if k, _ := c.Read(buf); k > 0 {
			n++
		}
	}
	return n
}

func berMsg(id byte, op []byte) []byte {
	body := append([]byte{0x02, 0x01, id}, op...)
	return append([]byte{0x30, byte(len(body))}, body...)
}

// c15agent: the running binary (under strace, started by this stage) receives only requests that must not mutate the store.
func c15agent() {
	R := vr.New("C15", "agent-readonly", "the built binary runs under strace -ff (upgrades off) on a sandbox store while clients send requests that must not mutate anything: saslauthd requests (right, wrong, hostile, malformed), LDAP bind / search / modify / add / delete / unbind, HTTP basic-auth, API authenticate, and refused HTTP API requests (no session, garbage / foreign / ordinary-user session on admin endpoints, malformed bodies, wrong old password); afterwards the whole directory must be byte- and inode-identical, and the runner inspects every thread's syscall log: no create/write/rename/unlink/mkdir/chmod/truncate and no open with a write or create flag on the store. Non-trivial: every request; distinct by request")
	defer R.Write()
	rng := R.Rand("c15a")
	bin := filepath.Join(os.Getenv("VERIF_BIN"), "whawty-auth")
	dir := filepath.Join(workDir(), "c15a")
	os.RemoveAll(dir) //nolint:errcheck
	base := filepath.Join(dir, "base")
	os.MkdirAll(filepath.Join(base, ".tmp"), 0700) //nolint:errcheck
	sets := ref.CheapSets(rng, 2)
	cfg := filepath.Join(dir, "store.yml")
	os.WriteFile(cfg, []byte(ref.YAML(base, 1, sets)), 0600) //nolint:errcheck
	d, err := store.NewDirFromConfig(cfg)
	if err != nil {
		R.Fatal = err.Error()
		return
	}
	d.AddUser("root", "root-pw", true)    //nolint:errcheck
	d.AddUser("alice", "alice-pw", false) //nolint:errcheck
	// an upgradeable record (non-default set): with upgrades off a login must not rewrite it
	salt := make([]byte, sets[1].SaltLen())
	rng.Read(salt)
	os.WriteFile(filepath.Join(base, "old.user"), []byte(sets[1].Record([]byte("old-pw"), salt, 1700000000)+"\ntotp: QUJD\n"), 0600) //nolint:errcheck
	// residue of interrupted operations: names reserved by adds that were killed, files left in the work area
	os.WriteFile(filepath.Join(base, "erin.user"), nil, 0600)                                     //nolint:errcheck
	os.WriteFile(filepath.Join(base, "frank.admin"), nil, 0600)                                   //nolint:errcheck
	os.WriteFile(filepath.Join(base, ".tmp", "alice.user.123456789"), []byte("leftover\n"), 0600) //nolint:errcheck
	trace := filepath.Join(workDir(), "agent-trace")
	os.WriteFile(filepath.Join(workDir(), "agent-base.txt"), []byte(base), 0600) //nolint:errcheck
	agentWrap = []string{"strace", "-ff", "-y", "-s", "300", "-o", trace}
	agent, err := startAgent(bin, cfg, dir, []string{"sasl", "http", "ldap"})
	agentWrap = nil
	if err != nil {
		R.Fatal = err.Error()
		return
	}
	before := ref.TakeSnap(base)
	n := 0
	rec := func(kind string) { n++; R.Case(fmt.Sprintf("%s/%d", kind, n), true); R.Count("requests:"+kind, 1) }
	// SASL
	for _, c := range [][2]string{{"alice", "alice-pw"}, {"alice", "wrong"}, {"old", "old-pw"}, {"old", "nope"}, {"ghost", "x"}, {"../x", "y"}, {"root", "root-pw"}, {strings.Repeat("u", 256), strings.Repeat("p", 256)}, {strings.Repeat("u", 300), "p"}, {"erin", "x"}, {"frank", "y"}} {
		agent.saslAuth(c[0], c[1])
		rec("sasl")
	}
	for _, raw := range [][]byte{{}, {0}, {0, 5, 'a'}, bytes.Repeat([]byte{0xff}, 50), ref.EncodeParts([]byte("a"), []byte("b"))} {
		if c, err := net.Dial("unix", agent.Sasl); err == nil {
			c.Write(raw)                                       //nolint:errcheck
			c.(*net.UnixConn).CloseWrite()                     //nolint:errcheck
			c.SetReadDeadline(time.Now().Add(5 * time.Second)) //nolint:errcheck
			io.ReadAll(c)                                      //nolint:errcheck
			c.Close()                                          //nolint:errcheck
		}
		rec("sasl-malformed")
	}
	// LDAP: bind, search, modify, add, delete, unbind
	for _, c := range [][2]string{{"alice", "alice-pw"}, {"alice@example.org", "alice-pw"}, {"alice", "wrong"}, {"old", "old-pw"}, {"cn=root,dc=x", "root-pw"}, {"erin", "x"}, {"frank@example.org", "y"}} {
		agent.ldapBind(c[0], c[1])
		rec("ldap-bind")
	}
	if c, err := ldap.DialTimeout("tcp", agent.LDAP, 5*time.Second); err == nil {
		c.Bind("alice", "alice-pw")                                                                                                                        //nolint:errcheck
		c.Search(ldap.NewSearchRequest("dc=example", ldap.ScopeWholeSubtree, ldap.NeverDerefAliases, 0, 0, false, "(objectClass=*)", []string{"cn"}, nil)) //nolint:errcheck
		rec("ldap-search")
		m := ldap.NewModifyRequest("cn=alice,dc=example")
		m.Replace("userPassword", []string{"hacked"})
		c.Modify(m) //nolint:errcheck
		rec("ldap-modify")
		c.Unbind() //nolint:errcheck
		rec("ldap-unbind")
	}
	dn := []byte("cn=eve,dc=example")
	add := append([]byte{0x68, byte(2 + len(dn) + 2), 0x04, byte(len(dn))}, append(dn, 0x30, 0x00)...)
	del := append([]byte{0x4a, byte(len(dn))}, dn...)
	ldapRaw(agent.LDAP, berMsg(1, add), berMsg(2, del), berMsg(3, []byte{0x42, 0x00}))
	rec("ldap-add")
	rec("ldap-delete")
	// HTTP: authentication and refused management requests
	agent.basicAuth("alice", "alice-pw")
	agent.basicAuth("alice", "wrong")
	agent.basicAuth("old", "old-pw")
	agent.basicAuth("erin", "x")
	agent.apiAuth("frank", "y", false)
	rec("http-basic")
	rec("http-api-authenticate")
	rec("http-basic")
	rec("http-basic")
	rec("http-basic")
	agent.apiAuth("alice", "alice-pw", false)
	agent.apiAuth("old", "old-pw", true)
	agent.apiAuth("alice", "wrong", false)
	rec("http-api-authenticate")
	rec("http-api-authenticate")
	rec("http-api-authenticate")
	// an ordinary user's session
	userSess := ""
	{
		resp, err := c04HTTP.Post("http://"+agent.HTTP+"/api/authenticate", "application/json", strings.NewReader(`{"username":"alice","password":"alice-pw"}`))
		if err == nil {
			b, _ := io.ReadAll(resp.Body)
			resp.Body.Close() //nolint:errcheck
			if i := bytes.Index(b, []byte(`"session":"`)); i >= 0 {
				rest := b[i+11:]
				userSess = string(rest[:bytes.IndexByte(rest, '"')])
			}
		}
	}
	for _, ep := range []string{"add", "remove", "update", "set-admin", "list", "list-full"} {
		for _, sess := range []string{"", "garbage", "AAAAAAAAAAAAAAAA:AAAAAAAAAAAAAAAAAAAAAAAAAAAAAAAAAAAA", userSess} {
			body := fmt.Sprintf(`{"session":%q,"username":"root","password":"New-Pw-12345","newpassword":"New-Pw-12345","admin":true}`, sess)
			if resp, err := c04HTTP.Post("http://"+agent.HTTP+"/api/"+ep, "application/json", strings.NewReader(body)); err == nil {
				resp.Body.Close() //nolint:errcheck
			}
			rec("http-refused-" + ep)
		}
		for _, body := range []string{"", "{", "[]", `{"session":5}`, strings.Repeat("x", 70000)} {
			if resp, err := c04HTTP.Post("http://"+agent.HTTP+"/api/"+ep, "application/json", strings.NewReader(body)); err == nil {
				resp.Body.Close() //nolint:errcheck
			}
			rec("http-malformed-" + ep)
		}
	}
	if resp, err := c04HTTP.Post("http://"+agent.HTTP+"/api/update", "application/json", strings.NewReader(`{"username":"alice","oldpassword":"wrong","newpassword":"New-Pw-12345"}`)); err == nil {
		resp.Body.Close() //nolint:errcheck
	}
	rec("http-refused-update-wrong-oldpw")
	time.Sleep(200 * time.Millisecond)
	after := ref.TakeSnap(base)
	if diff := ref.Diff(before, after, ref.DiffOpts{Inode: true, FileMtime: true, IgnorePath: func(rel string) bool { return rel == "." }}); len(diff) > 0 {
		R.Violate("c15:read-only-requests-changed-store", fmt.Sprintf("after %d read-only / refused requests the store differs: %v", n, diff), "agent", map[string]any{"diff": diff})
	}
	alive := agent.Alive()
	agent.Stop()
	if !alive {
		R.Violate("c15:agent-died", agent.out.String(), "agent", nil)
	}
	R.Count("requests_total", n)
	R.Sample(map[string]any{"requests": n, "kinds": "sasl, sasl-malformed, ldap bind/search/modify/add/delete/unbind, http basic/api authenticate, refused and malformed management requests"})
}
