package main

import (
	"fmt"
	"os"
	"path/filepath"
	"sync"

	"github.com/whawty/auth/store"
	"github.com/whawty/auth/zz_verif/ref"
	"github.com/whawty/auth/zz_verif/vr"
)

func init() { stages["c15race"] = c15race }

// c15race: two overlapping adds of the same user (as two command-line invocations would be): the one that
// reports failure must not damage what the successful one created.
func c15race() {
	R := vr.New("C15", "concurrent-adds", "pairs of AddUser calls for the same new user name (same admin flag, different passwords) are started at the same moment on two store handles of one directory, with a deliberately slow parameter set so that both pass the existence test before either reserves the name; exactly one may report success, and afterwards the user's file must be the complete record of the successful call (the failing call leaves the store as the successful one made it), with an empty work area. Non-trivial: every pair in which both calls overlapped (one failed with 'exists'); distinct by pair")
	defer R.Write()
	rng := R.Rand("c15race")
	dir := filepath.Join(workDir(), "c15race")
	os.RemoveAll(dir) //nolint:errcheck
	base := filepath.Join(dir, "base")
	os.MkdirAll(filepath.Join(base, ".tmp"), 0700) //nolint:errcheck
	key := make([]byte, 32)
	rng.Read(key)
	sets := []ref.ParamSet{{ID: 1, Algo: ref.AlgoScrypt, HmacKey: key, Cost: 12, R: 8, P: 1}} // ~15 ms per hash
	cfg := filepath.Join(dir, "store.yml")
	os.WriteFile(cfg, []byte(ref.YAML(base, 1, sets)), 0600) //nolint:errcheck
	d1, err := store.NewDirFromConfig(cfg)
	d2, err2 := store.NewDirFromConfig(cfg)
	if err != nil || err2 != nil {
		R.Fatal = fmt.Sprint(err, err2)
		return
	}
	d1.AddUser("root", "rootpw", true) //nolint:errcheck
	n := vr.Pick(40, 400)
	for i := 0; i < n; i++ {
		u := fmt.Sprintf("race%d", i)
		adm := i%2 == 0
		var wg sync.WaitGroup
		gate := make(chan struct{})
		errs := make([]error, 2)
		for k, d := range []*store.Dir{d1, d2} {
			wg.Add(1)
			go func(k int, d *store.Dir) {
				defer wg.Done()
				<-gate
				errs[k] = d.AddUser(u, fmt.Sprintf("pw-%d-%d", i, k), adm)
			}(k, d)
		}
		close(gate)
		wg.Wait()
		nOK := 0
		winner := -1
		for k, e := range errs {
			if e == nil {
				nOK++
				winner = k
			}
		}
		R.Case(u, nOK == 1)
		R.Count("pairs", 1)
		if nOK == 1 {
			R.Count("pairs_with_one_failure", 1)
		}
		wit := map[string]any{"user": u, "errors": []string{fmt.Sprint(errs[0]), fmt.Sprint(errs[1])}}
		switch {
		case nOK == 2:
			R.Violate("c15:concurrent-adds:both-report-success", "two adds of the same user both reported success", u, wit)
		case nOK == 1:
			ok, isAdm, _, _, aerr := d1.Authenticate(u, fmt.Sprintf("pw-%d-%d", i, winner))
			if !ok || isAdm != adm {
				ex, _, _ := d1.Exists(u)
				R.Violate("c15:concurrent-adds:failed-add-damaged-the-successful-one", fmt.Sprintf("after one add succeeded and the overlapping one failed (%v), the user exists=%v and authenticates with the successful call's password: %v (%v)", errs[1-winner], ex, ok, aerr), u, wit)
			}
		}
		if tmp, _ := os.ReadDir(filepath.Join(base, ".tmp")); len(tmp) > 0 {
			R.Violate("c15:concurrent-adds:tmp-residue", fmt.Sprintf("%d files left in .tmp", len(tmp)), u, wit)
		}
	}
	if err := d1.Check(); err != nil {
		R.Violate("c15:concurrent-adds:store-invalid", err.Error(), "final", nil)
	}
	R.Sample(map[string]any{"pairs": n, "parameter_set": "scrypt cost 12 r 8"})
}
