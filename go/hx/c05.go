package main

import (
	"bytes"
	"context"
	"errors"
	"fmt"
	"io"
	"math/rand"
	"net"
	"os"
	"path/filepath"
	"strings"
	"sync"
	"syscall"
	"time"

	"github.com/whawty/auth/sasl"
	"github.com/whawty/auth/zz_verif/ref"
	"github.com/whawty/auth/zz_verif/vr"
)

func init() { stages["c05"] = c05 }

type c05Outcome struct {
	OK     bool
	ErrLen int // 0 = nil error
	MsgLen int
	Binary bool
	Delay  int // the callback takes this many milliseconds (a busy store)
	// ErrKind selects what the non-nil error is (ErrLen > 0): "" plain text; otherwise errors as a store under stress
	// produces them - transient OS errors (wrapped or not), deadline and context errors, an error with Temporary()/Timeout()
	ErrKind string
}

type c05TempErr struct{ text string }

func (e c05TempErr) Error() string   { return e.text }
func (e c05TempErr) Temporary() bool { return true }
func (e c05TempErr) Timeout() bool   { return true }

var c05ErrKinds = []string{"emfile-patherror", "eintr-wrapped", "eagain", "etimedout-syscallerror", "deadline-exceeded", "context-deadline", "context-canceled", "io-eof", "unexpected-eof", "temporary-timeout", "net-operror-timeout", "joined"}

func c05MkErr(kind string, n int) error {
	text := strings.Repeat("é", n/2) + strings.Repeat("e", n%2)
	switch kind {
	case "emfile-patherror":
		return &os.PathError{Op: "open", Path: "/var/lib/whawty/" + text, Err: syscall.EMFILE}
	case "eintr-wrapped":
		return fmt.Errorf("reading hash of %s: %w", text, syscall.EINTR)
	case "eagain":
		return syscall.EAGAIN
	case "etimedout-syscallerror":
		return os.NewSyscallError("read", syscall.ETIMEDOUT)
	case "deadline-exceeded":
		return fmt.Errorf("%s: %w", text, os.ErrDeadlineExceeded)
	case "context-deadline":
		return context.DeadlineExceeded
	case "context-canceled":
		return fmt.Errorf("%s: %w", text, context.Canceled)
	case "io-eof":
		return io.EOF
	case "unexpected-eof":
		return io.ErrUnexpectedEOF
	case "temporary-timeout":
		return c05TempErr{text}
	case "net-operror-timeout":
		return &net.OpError{Op: "dial", Net: "tcp", Err: c05TempErr{text}}
	case "joined":
		return errors.Join(errors.New(text), syscall.ENFILE)
	}
	return errors.New(text)
}

func (o c05Outcome) String() string {
	return fmt.Sprintf("ok=%v errlen=%d errkind=%q msglen=%d binary=%v delay_ms=%d", o.OK, o.ErrLen, o.ErrKind, o.MsgLen, o.Binary, o.Delay)
}

type c05Expect struct {
	fields  [4]string
	outcome c05Outcome
	calls   int
	badArgs string
}

type c05Mon struct {
	mu         sync.Mutex
	expect     map[string]*c05Expect
	unexpected []string
}

func (m *c05Mon) cb(login, password, service, realm string) (bool, string, error) {
	m.mu.Lock()
	e := m.expect[login]
	if e == nil {
		if len(m.unexpected) < 20 {
			m.unexpected = append(m.unexpected, fmt.Sprintf("login=%s password=%s service=%s realm=%s", vr.Q(login), vr.Q(password), vr.Q(service), vr.Q(realm)))
		} else {
			m.unexpected = append(m.unexpected, "")
		}
		m.mu.Unlock()
		return false, "unexpected", nil
	}
	e.calls++
	if [4]string{login, password, service, realm} != e.fields {
		e.badArgs = fmt.Sprintf("got (%s,%s,%s,%s)", vr.Q(login), vr.Q(password), vr.Q(service), vr.Q(realm))
	}
	o := e.outcome
	m.mu.Unlock()
	if o.Delay > 0 {
		time.Sleep(time.Duration(o.Delay) * time.Millisecond)
	}
	msg := make([]byte, o.MsgLen)
	for i := range msg {
		switch {
		case o.Binary && o.MsgLen%4 == 1:
			msg[i] = byte(i*7 + 1)
		case o.Binary: // multi-byte UTF-8 text
			msg[i] = "äöü€"[i%9]
		default:
			msg[i] = 'm'
		}
	}
	var err error
	if o.ErrLen > 0 {
		err = c05MkErr(o.ErrKind, o.ErrLen)
	}
	return o.OK, string(msg), err
}

type c05Case struct {
	ID       string
	Class    string
	Stream   []byte
	Chunks   []int
	Pause    bool
	EndClose bool // close without reading instead of half-close
	Outcome  c05Outcome
	Login    string
}

func c05() {
	R := vr.New("C05", "server", "raw unix-socket client against sasl.Server (race-detector build): streams = valid requests (field lengths up to 256), truncations at every byte, over-long / zero / 65535 length fields, trailing garbage up to 64 KiB, empty and random streams; each under several fragmentations (one write, 2-way splits, k-way, 1-byte writes, with pauses) and ended by half-close or close; callback outcomes scripted per connection (ok x error x message length 0..70000). Sequential phase then 64-way concurrent phase. Non-trivial: stream is not an unfragmented valid request with a short message; distinct by (stream, fragmentation, outcome)")
	defer R.Write()
	dir := filepath.Join(workDir(), "c05")
	os.RemoveAll(dir)      //nolint:errcheck
	os.MkdirAll(dir, 0700) //nolint:errcheck
	sock := filepath.Join(dir, "s.sock")
	mon := &c05Mon{expect: map[string]*c05Expect{}}
	srv, err := sasl.NewServer(sock, mon.cb)
	if err != nil {
		R.Fatal = "cannot start sasl server: " + err.Error()
		return
	}
	go srv.Run() //nolint:errcheck
	rng := R.Rand("c05")
	cases := c05Cases(rng)
	// thorough: further rounds of the same generator with other random contents, fragmentations and outcomes
	for round := 1; round < vr.Pick(1, 12); round++ {
		more := c05Cases(R.Rand(fmt.Sprintf("c05-round%d", round)))
		for i := range more {
			more[i].ID = fmt.Sprintf("seq%d/%d", round, i)
		}
		cases = append(cases, more...)
	}
	R.Set("cases_generated", len(cases))
	// sequential phase
	for _, c := range cases {
		if !R.Want(c.ID) {
			continue
		}
		R.Mark(c.ID)
		c05Run(R, mon, sock, c)
	}
	// concurrent phase: 64 workers over a shuffled copy with fresh logins
	conc := c05Cases(R.Rand("c05-conc"))
	for round := 1; round < vr.Pick(1, 20); round++ {
		conc = append(conc, c05Cases(R.Rand(fmt.Sprintf("c05-conc%d", round)))...)
	}
	rng.Shuffle(len(conc), func(i, j int) { conc[i], conc[j] = conc[j], conc[i] })
	if len(conc) > vr.Pick(3000, 60000) {
		conc = conc[:vr.Pick(3000, 60000)]
	}
	// a busy store: the callback takes seconds (they run among the others, so the phase is not longer than the slowest)
	for i, o := range []c05Outcome{{OK: true, Delay: 4000}, {OK: false, ErrLen: 10, Delay: 3500}, {OK: true, MsgLen: 20, Delay: 6000}, {OK: false, Delay: 2000}} {
		login := fmt.Sprintf("slow-callback-%02d-%08x", i, rng.Uint32())
		stream := ref.EncodeParts([]byte(login), []byte("pw"), []byte("svc"), nil)
		slow := c05Case{Class: "slow-callback", Stream: stream, Chunks: []int{len(stream)}, Outcome: o, Login: login}
		if i%2 == 1 {
			slow.Chunks = []int{5, len(stream) - 5}
			slow.Pause = true
		}
		conc = append([]c05Case{slow}, conc...)
	}
	var wg sync.WaitGroup
	ch := make(chan c05Case)
	for w := 0; w < 64; w++ {
		wg.Add(1)
		go func() {
			defer wg.Done()
			for c := range ch {
				c05Run(R, mon, sock, c)
			}
		}()
	}
	for i, c := range conc {
		c.ID = fmt.Sprintf("conc/%d", i)
		if R.Want(c.ID) {
			ch <- c
		}
	}
	close(ch)
	wg.Wait()
	time.Sleep(300 * time.Millisecond)
	mon.mu.Lock()
	if n := len(mon.unexpected); n > 0 {
		R.Violate("c05:callback-for-undecodable-request", fmt.Sprintf("the callback was invoked %d times with arguments that no complete valid request carried", n), "", mon.unexpected[:min(n, 5)])
	}
	// late calls for close-mode cases
	for login, e := range mon.expect {
		if e.calls > 1 {
			R.Violate("c05:callback-called-twice", fmt.Sprintf("callback invoked %d times for one request (login %s)", e.calls, vr.Q(login)), "", nil)
		}
	}
	mon.mu.Unlock()
}

func c05Cases(rng *rand.Rand) []c05Case {
	var out []c05Case
	n := 0
	outcomes := []c05Outcome{}
	for _, ok := range []bool{true, false} {
		for _, el := range []int{0, 5, 300} {
			for _, ml := range []int{0, 1, 20, 252, 253, 254, 300, 65532, 65533, 70000} {
				outcomes = append(outcomes, c05Outcome{OK: ok, ErrLen: el, MsgLen: ml, Binary: ml%2 == 1})
				if ml > 200 {
					outcomes = append(outcomes, c05Outcome{OK: ok, ErrLen: el, MsgLen: ml + 2, Binary: true})
				}
			}
		}
	}
	for _, ok := range []bool{true, false} {
		for _, k := range c05ErrKinds {
			outcomes = append(outcomes, c05Outcome{OK: ok, ErrLen: 12, ErrKind: k, MsgLen: 7}, c05Outcome{OK: ok, ErrLen: 12, ErrKind: k, MsgLen: 7}, c05Outcome{OK: ok, ErrLen: 300, ErrKind: k, MsgLen: 0})
		}
	}
	pickOutcome := func() c05Outcome {
		if rng.Intn(3) == 0 {
			return outcomes[rng.Intn(len(outcomes))]
		}
		return c05Outcome{OK: rng.Intn(2) == 0, MsgLen: rng.Intn(40)}
	}
	uniq := func(l int) string {
		n++
		s := fmt.Sprintf("u%d-%d-", n, rng.Int63())
		for len(s) < l {
			s += "x"
		}
		if l > 0 && len(s) > l && l >= 12 {
			s = s[:l]
		}
		return s
	}
	field := func(l int) []byte {
		b := make([]byte, l)
		rng.Read(b)
		return b
	}
	add := func(class string, stream []byte, login string, o c05Outcome) {
		frs := [][]int{{len(stream)}}
		if len(stream) > 1 {
			ones := make([]int, len(stream))
			for i := range ones {
				ones[i] = 1
			}
			if len(stream) <= 600 {
				frs = append(frs, ones)
			}
			for k := 0; k < 2; k++ {
				i := 1 + rng.Intn(len(stream)-1)
				frs = append(frs, []int{i, len(stream) - i})
			}
			var kway []int
			left := len(stream)
			for left > 0 {
				m := 1 + rng.Intn(1+left/3+1)
				if m > left {
					m = left
				}
				kway = append(kway, m)
				left -= m
			}
			frs = append(frs, kway)
		}
		for fi, fr := range frs {
			if fi > 0 && login != "" {
				// every connection gets its own login so that callbacks can be attributed
				if len(stream) >= 2+len(login) && string(stream[2:2+len(login)]) == login && len(login) >= 12 {
					nl := uniq(len(login))
					stream = append([]byte{}, stream...)
					copy(stream[2:], nl)
					login = nl
				} else {
					continue
				}
			}
			c := c05Case{ID: fmt.Sprintf("seq/%d", len(out)), Class: class, Stream: stream, Chunks: fr, Pause: fi%2 == 1 && len(fr) < 50, EndClose: rng.Intn(10) == 0, Outcome: o, Login: login}
			out = append(out, c)
		}
	}
	// valid requests with each outcome
	for _, o := range outcomes {
		login := uniq(12 + rng.Intn(20))
		add("valid", ref.EncodeParts([]byte(login), field(1+rng.Intn(30)), field(rng.Intn(8)), field(rng.Intn(8))), login, o)
	}
	// field length boundaries at each position
	for _, l := range []int{0, 1, 255, 256, 257, 300, 65535} {
		for pos := 0; pos < 4; pos++ {
			f := [4][]byte{nil, field(5), field(3), field(3)}
			login := uniq(16)
			f[0] = []byte(login)
			if pos == 0 {
				if l >= 12 && l <= 256 {
					login = uniq(l)
					f[0] = []byte(login)
				} else {
					f[0] = field(l)
					login = string(f[0])
				}
			} else {
				f[pos] = field(l)
			}
			add(fmt.Sprintf("field%d-len%d", pos, l), ref.EncodeParts(f[0], f[1], f[2], f[3]), login, pickOutcome())
		}
	}
	// truncation at every byte of a typical and of a long request; every 2-way split of the typical one
	for _, lens := range [][4]int{{14, 6, 4, 5}, {200, 256, 0, 100}} {
		login := uniq(lens[0])
		full := ref.EncodeParts([]byte(login), field(lens[1]), field(lens[2]), field(lens[3]))
		step := 1
		if len(full) > 100 {
			step = 7
		}
		for i := 0; i < len(full); i += step {
			l2 := uniq(lens[0])
			s := ref.EncodeParts([]byte(l2), full[2+lens[0]+2:2+lens[0]+2+lens[1]], nil, nil)
			_ = s
			t := append([]byte{}, full...)
			copy(t[2:], l2)
			add("truncated", t[:i], l2, pickOutcome())
		}
	}
	{
		login := uniq(14)
		full := ref.EncodeParts([]byte(login), []byte("secret"), []byte("imap"), []byte("realm"))
		for i := 1; i < len(full); i++ {
			l2 := uniq(14)
			t := append([]byte{}, full...)
			copy(t[2:], l2)
			out = append(out, c05Case{ID: fmt.Sprintf("seq/%d", len(out)), Class: "valid-2way-split", Stream: t, Chunks: []int{i, len(t) - i}, Pause: i%2 == 0, Outcome: pickOutcome(), Login: l2})
		}
	}
	// trailing garbage
	for _, g := range []int{1, 2, 100, 4096, 65536} {
		login := uniq(14)
		s := ref.EncodeParts([]byte(login), field(8), field(2), field(2))
		add(fmt.Sprintf("trailing-garbage-%d", g), append(s, field(g)...), login, pickOutcome())
	}
	// empty, random
	add("empty", nil, "", pickOutcome())
	for k := 0; k < 30; k++ {
		b := field(1 + rng.Intn(64))
		add("random", b, "", pickOutcome())
	}
	return out
}

func c05Run(R *vr.Result, mon *c05Mon, sock string, c c05Case) {
	fields, _, valid, exact, why := ref.ReqValid(c.Stream)
	login := c.Login
	if valid {
		login = string(fields[0])
	}
	exp := &c05Expect{outcome: c.Outcome}
	if valid {
		exp.fields = [4]string{string(fields[0]), string(fields[1]), string(fields[2]), string(fields[3])}
	}
	if login != "" {
		mon.mu.Lock()
		if _, dup := mon.expect[login]; dup {
			mon.mu.Unlock()
			R.Inconcl("duplicate login generated")
			return
		}
		mon.expect[login] = exp
		mon.mu.Unlock()
	}
	wit := map[string]any{"class": c.Class, "stream": vr.Hex(c.Stream), "chunks": trimInts(c.Chunks), "pause": c.Pause, "end": map[bool]string{true: "close", false: "half-close"}[c.EndClose], "outcome": c.Outcome.String(), "ref": why}
	conn, err := net.Dial("unix", sock)
	if err != nil {
		R.Violate("c05:server-stopped-accepting", "dial failed: "+err.Error(), c.ID, wit)
		return
	}
	uc := conn.(*net.UnixConn)
	rest := c.Stream
	werr := error(nil)
	for _, n := range c.Chunks {
		if n > len(rest) {
			n = len(rest)
		}
		if n == 0 {
			continue
		}
		if _, werr = uc.Write(rest[:n]); werr != nil {
			break
		}
		rest = rest[n:]
		if c.Pause {
			time.Sleep(time.Duration(50+len(rest)%200) * time.Microsecond)
		}
	}
	R.Case(fmt.Sprintf("%x/%v/%v/%v", c.Stream, c.Chunks, c.Outcome, c.EndClose), !(valid && exact && len(c.Chunks) == 1 && c.Outcome.MsgLen < 100 && c.Outcome.ErrLen == 0))
	R.Count("connections", 1)
	R.Count("class:"+strings.SplitN(c.Class, "-len", 2)[0], 1)
	if c.EndClose {
		uc.Close() //nolint:errcheck
		R.Count("ended_by_close", 1)
		return
	}
	uc.CloseWrite()                                      //nolint:errcheck
	uc.SetReadDeadline(time.Now().Add(60 * time.Second)) //nolint:errcheck
	reply, rerr := io.ReadAll(uc)
	uc.Close() //nolint:errcheck
	if ne, ok := rerr.(net.Error); ok && ne.Timeout() {
		R.Inconcl("no EOF from server within 60 s watchdog")
		R.Violate("c05:connection-not-closed", "the server neither closed the connection nor finished its reply within the 60 s watchdog after the client half-closed", c.ID, wit)
		return
	}
	mon.mu.Lock()
	calls, bad := exp.calls, exp.badArgs
	mon.mu.Unlock()
	wit["reply"] = vr.Hex(reply)
	wit["callback_calls"] = calls
	// callback rules
	if !valid && calls > 0 {
		R.Violate("c05:callback-on-invalid-request:"+c.Class, "callback invoked although the stream is not a complete valid request: "+why, c.ID, wit)
	}
	if valid && exact && werr == nil && calls != 1 {
		R.Violate(fmt.Sprintf("c05:callback-count=%d-on-valid-request", calls), "a complete valid request must lead to exactly one callback invocation", c.ID, wit)
	}
	if calls > 1 {
		R.Violate("c05:callback-called-twice"+map[bool]string{true: ":error=" + c.Outcome.ErrKind}[c.Outcome.ErrKind != ""], "callback invoked more than once for one connection", c.ID, wit)
	}
	if bad != "" {
		R.Violate("c05:callback-args-differ", "callback arguments differ from the decoded fields: "+bad, c.ID, wit)
	}
	if valid {
		R.Count("valid_streams", 1)
	} else {
		R.Count("invalid_streams", 1)
	}
	// reply rules: exactly one length-prefixed part, then EOF
	parts, consumed, ok, _ := ref.DecodeParts(reply, 1)
	replyOK := len(reply) >= 2 && int(reply[0])<<8|int(reply[1]) == len(reply)-2
	approved := valid && calls == 1 && c.Outcome.OK && c.Outcome.ErrLen == 0
	sigOutcome := fmt.Sprintf("msglen=%d:errlen=%d", c.Outcome.MsgLen, c.Outcome.ErrLen)
	if c.Outcome.ErrKind != "" {
		sigOutcome += ":error=" + c.Outcome.ErrKind
		if calls > 0 {
			R.Count("callback_errors_of_os_kind", 1)
		}
	}
	if !replyOK {
		if len(reply) == 0 {
			R.Violate("c05:no-reply:"+c05ReplyClass(c, calls), "the server closed the connection without sending a reply", c.ID, wit)
		} else {
			R.Violate("c05:reply-not-one-part:"+c05ReplyClass(c, calls), fmt.Sprintf("reply is not exactly one length-prefixed part followed by EOF (%d bytes)", len(reply)), c.ID, wit)
		}
		return
	}
	_ = parts
	_ = consumed
	_ = ok
	text := reply[2:]
	positive := bytes.HasPrefix(text, []byte("OK"))
	negative := bytes.HasPrefix(text, []byte("NO"))
	if positive && !approved {
		R.Violate("c05:positive-reply-without-approval:"+c.Class, "reply starts with OK although the request did not decode completely or the callback did not approve without error", c.ID, wit)
	}
	if !positive && !negative {
		R.Violate("c05:reply-neither-ok-nor-no", "reply text starts with neither OK nor NO", c.ID, wit)
	}
	if approved && !positive {
		R.Violate("c05:approved-but-negative-reply", "callback approved a complete valid request but the reply is not OK", c.ID, wit)
	}
	if positive {
		R.Count("positive_replies", 1)
	} else {
		R.Count("negative_replies", 1)
	}
	// decodable by the bundled Go client decoder, yielding the verdict
	var resp sasl.Response
	derr := resp.Decode(bytes.NewReader(reply))
	if derr != nil {
		R.Violate("c05:reply-undecodable-by-go-client:"+c05ReplyClass(c, calls), "sasl.Response.Decode fails on the server's reply: "+derr.Error(), c.ID, wit)
	} else if resp.Result != approved {
		R.Violate("c05:go-client-verdict-differs:"+sigOutcome, fmt.Sprintf("decoded verdict %v, callback verdict %v", resp.Result, approved), c.ID, wit)
	}
	// PAM reader model: reads 2-byte length, at most 256 bytes of text, compares the first two bytes with OK
	if len(text) < 2 {
		R.Violate("c05:reply-undecodable-by-pam", "reply text shorter than 2 bytes", c.ID, wit)
	}
	if len(R.Samples) < 6 && (len(c.Stream) < 60) {
		R.Sample(map[string]any{"case": c.ID, "class": c.Class, "stream": vr.Hex(c.Stream), "chunks": trimInts(c.Chunks), "outcome": c.Outcome.String(), "callback_calls": calls, "reply": vr.Hex(reply)})
	}
}

// c05ReplyClass identifies what kind of reply the server had to produce.
func c05ReplyClass(c c05Case, calls int) string {
	if calls == 0 {
		return "decode-error-reply"
	}
	n := c.Outcome.MsgLen
	if c.Outcome.ErrLen > 0 {
		n = c.Outcome.ErrLen
	}
	switch {
	case n+3 <= 256:
		return "callback-message-fits"
	case n+3 <= 65535:
		return "callback-message>253"
	}
	return "callback-message>65532"
}
