package main

import (
	"fmt"
	"math/rand"
	"os"
	"path/filepath"
	"runtime"
	"strconv"
	"sync"

	"github.com/whawty/auth/store"
	"github.com/whawty/auth/zz_verif/ref"
)

func init() { stages["scconc"] = scconc }

// scconc <dir> <seed> <n>: n mutating operations on n different users of one store, started at the same moment on n
// goroutines (each locked to its own OS thread so that strace -ff attributes every system call to its operation).
// Markers: CBEGIN:<i>:<op>:<user> / CEND:<ok|err>:<i>.
func scconc() {
	dir := os.Args[2]
	seed, _ := strconv.ParseInt(os.Args[3], 10, 64)
	n, _ := strconv.Atoi(os.Args[4])
	rng := rand.New(rand.NewSource(seed))
	base := filepath.Join(dir, "base")
	os.RemoveAll(dir) //nolint:errcheck
	if err := os.MkdirAll(base, 0700); err != nil {
		fmt.Fprintln(os.Stderr, err)
		os.Exit(2)
	}
	sets := ref.CheapSets(rng, 2)
	def := uint(1 + rng.Intn(2))
	cfg := filepath.Join(dir, "store.yml")
	os.WriteFile(cfg, []byte(ref.YAML(base, def, sets)), 0600) //nolint:errcheck
	d, err := store.NewDirFromConfig(cfg)
	if err != nil {
		fmt.Fprintln(os.Stderr, err)
		os.Exit(2)
	}
	if err := d.Init("root", "root-pw"); err != nil {
		fmt.Fprintln(os.Stderr, err)
		os.Exit(2)
	}
	admin := make([]bool, n)
	for i := 0; i < n; i++ {
		admin[i] = rng.Intn(2) == 0
		if err := d.AddUser(fmt.Sprintf("c%d", i), fmt.Sprintf("old-%d", i), admin[i]); err != nil {
			fmt.Fprintln(os.Stderr, err)
			os.Exit(2)
		}
	}
	type job struct {
		op, user string
		adm      bool
	}
	jobs := make([]job, n)
	for i := range jobs {
		switch rng.Intn(4) {
		case 0:
			jobs[i] = job{"add", fmt.Sprintf("n%d", i), rng.Intn(2) == 0}
		case 1:
			jobs[i] = job{"update", fmt.Sprintf("c%d", i), false}
		case 2:
			jobs[i] = job{"setadmin", fmt.Sprintf("c%d", i), !admin[i]}
		default:
			jobs[i] = job{"remove", fmt.Sprintf("c%d", i), false}
		}
	}
	shared := rng.Intn(2) == 0
	var wg sync.WaitGroup
	gate := make(chan struct{})
	for i, j := range jobs {
		h := d
		if !shared {
			if h, err = store.NewDirFromConfig(cfg); err != nil {
				fmt.Fprintln(os.Stderr, err)
				os.Exit(2)
			}
		}
		wg.Add(1)
		go func(i int, j job, h *store.Dir) {
			defer wg.Done()
			runtime.LockOSThread()
			<-gate
			scMark(fmt.Sprintf("CBEGIN:%d:%s:%s", i, j.op, j.user))
			var err error
			switch j.op {
			case "add":
				err = h.AddUser(j.user, fmt.Sprintf("new-%d", i), j.adm)
			case "update":
				err = h.UpdateUser(j.user, fmt.Sprintf("new-%d", i))
			case "setadmin":
				err = h.SetAdmin(j.user, j.adm)
			case "remove":
				h.RemoveUser(j.user)
			}
			if err != nil {
				scMark(fmt.Sprintf("CEND:err:%d", i))
			} else {
				scMark(fmt.Sprintf("CEND:ok:%d", i))
			}
		}(i, j, h)
	}
	close(gate)
	wg.Wait()
}
