package main

import (
	"bytes"
	"encoding/base64"
	"fmt"
	"math/rand"
	"os"
	"path/filepath"
	"strings"
	"time"

	"github.com/whawty/auth/store"
	"github.com/whawty/auth/zz_verif/ref"
	"github.com/whawty/auth/zz_verif/vr"
)

func init() { stages["c02"] = c02 }

type c02Mut struct {
	Class string
	File  []byte
	Dir   bool // place a directory instead of a file
}

// c02Mutants derives systematic mutants from a canonical record.
func c02Mutants(rng *rand.Rand, ps ref.ParamSet, others []ref.ParamSet, pw, salt []byte, t int64, full bool) []c02Mut {
	var out []c02Mut
	add := func(class string, b []byte) { out = append(out, c02Mut{Class: class, File: append([]byte{}, b...)}) }
	rec := ps.Record(pw, salt, t)
	line := rec + "\n"
	f := strings.Split(rec, ":")
	join := func(f []string) []byte { return []byte(strings.Join(f, ":") + "\n") }
	digest, _ := ps.Digest(pw, salt)
	b64 := base64.URLEncoding.EncodeToString

	add("valid", []byte(line))
	add("valid+aux", []byte(line+"totp: QUJD\nu2f: REVG\n"))
	add("valid-no-newline", []byte(rec))
	add("valid+crlf", []byte(rec+"\r\n"))
	// fields emptied
	for i := 0; i < 5; i++ {
		g := append([]string{}, f...)
		g[i] = ""
		add(fmt.Sprintf("field-emptied-%d", i), join(g))
	}
	// pairs swapped
	for i := 0; i < 5; i++ {
		for j := i + 1; j < 5; j++ {
			g := append([]string{}, f...)
			g[i], g[j] = g[j], g[i]
			add(fmt.Sprintf("fields-swapped-%d-%d", i, j), join(g))
		}
	}
	// truncation at every length (with and without newline)
	step := 1
	for n := 0; n < len(rec); n += step {
		add("truncated", []byte(rec[:n]))
		if full || n%7 == 0 {
			add("truncated+nl", []byte(rec[:n]+"\n"))
		}
	}
	// separators removed / added
	for i := 0; i < 4; i++ {
		g := strings.Join(f[:i+1], ":") + strings.Join(f[i+1:], ":")
		_ = g
		parts := append([]string{}, f[:i]...)
		parts = append(parts, f[i]+f[i+1])
		parts = append(parts, f[i+2:]...)
		add("separator-removed", join(parts))
	}
	var positions []int
	if full {
		for i := 0; i <= len(rec); i++ {
			positions = append(positions, i)
		}
	} else {
		off := 0
		for _, x := range f {
			positions = append(positions, off, off+len(x)/2, off+len(x))
			off += len(x) + 1
		}
		for k := 0; k < 12; k++ {
			positions = append(positions, rng.Intn(len(rec)+1))
		}
	}
	for _, p := range positions {
		add("separator-added", []byte(rec[:p]+":"+rec[p:]+"\n"))
	}
	// control characters at field boundaries
	var bounds []int
	off := 0
	for _, x := range f {
		bounds = append(bounds, off, off+len(x))
		off += len(x) + 1
	}
	for _, c := range []string{"\r", "\n", "\x00", " ", "\t", "\r\n"} {
		for _, p := range bounds {
			add("ctrl-inserted-"+fmt.Sprintf("%q", c), []byte(rec[:p]+c+rec[p:]+"\n"))
		}
	}
	// digest / salt truncated, extended, re-encoded
	mk := func(s, d string) []byte { return []byte(fmt.Sprintf("%s:%s:%s:%s:%s\n", f[0], f[1], f[2], s, d)) }
	for n := 0; n < len(digest); n++ {
		if full || n < 4 || n > len(digest)-4 || n%5 == 0 {
			add("digest-truncated", mk(f[3], b64(digest[:n])))
		}
	}
	for n := 1; n <= 4; n++ {
		add("digest-extended", mk(f[3], b64(append(append([]byte{}, digest...), make([]byte, n)...))))
		add("digest-extended", mk(f[3], b64(append(append([]byte{}, digest...), digest[:n]...))))
		add("digest-prefixed", mk(f[3], b64(append(make([]byte, n), digest...))))
	}
	for n := 0; n < len(salt); n++ {
		if full || n < 3 || n > len(salt)-3 || n%6 == 0 {
			add("salt-truncated", mk(b64(salt[:n]), f[4]))
		}
	}
	add("salt-extended", mk(b64(append(append([]byte{}, salt...), 0)), f[4]))
	add("digest-stdb64", mk(f[3], base64.StdEncoding.EncodeToString(digest)))
	add("digest-rawurl", mk(f[3], base64.RawURLEncoding.EncodeToString(digest)))
	add("salt-stdb64", mk(base64.StdEncoding.EncodeToString(salt), f[4]))
	add("salt-rawurl", mk(base64.RawURLEncoding.EncodeToString(salt), f[4]))
	add("digest-hex", mk(f[3], fmt.Sprintf("%x", digest)))
	add("digest-b64-garbage", mk(f[3], f[4][:len(f[4])-2]+"!!"))
	add("digest-b64-padded-more", mk(f[3], f[4]+"="))
	add("digest-b64-nopad-chars", mk(f[3], strings.TrimRight(f[4], "=")))
	add("salt-digest-equal", mk(f[4], f[4]))
	add("digest-is-salt", mk(f[3], f[3]))
	// bit flips in digest
	nflip := 24
	if full {
		nflip = len(digest) * 8
	}
	for k := 0; k < nflip; k++ {
		bit := k
		if !full {
			bit = rng.Intn(len(digest) * 8)
		}
		d := append([]byte{}, digest...)
		d[bit/8] ^= 1 << uint(bit%8)
		add("digest-bitflip", mk(f[3], b64(d)))
	}
	// digest for another password / another salt
	other := append(append([]byte{}, pw...), 'x')
	od, _ := ps.Digest(other, salt)
	add("digest-of-other-password", mk(f[3], b64(od)))
	salt2 := make([]byte, len(salt))
	rng.Read(salt2)
	add("salt-replaced", mk(b64(salt2), f[4]))
	ed, _ := ps.Digest([]byte{}, salt)
	add("digest-of-empty-password", mk(f[3], b64(ed)))
	// algorithm / set ids
	for _, a := range []string{"", "bcrypt", "argon2i", "ARGON2ID", "Hmac_sha256_scrypt", "hmac_sha256_scrypt ", " argon2id", "argon2id\x00", ref.AlgoArgon, ref.AlgoScrypt, "hmac_sha1_scrypt"} {
		if a == f[0] {
			continue
		}
		g := append([]string{}, f...)
		g[0] = a
		add("algo-id-changed", join(g))
	}
	for _, o := range others {
		g := append([]string{}, f...)
		g[2] = fmt.Sprint(o.ID)
		if o.Algo == ps.Algo {
			add("paramid-other-set-same-algo", join(g))
		} else {
			add("paramid-other-set-other-algo", join(g))
			g[0] = o.Algo
			add("paramid+algo-of-other-set", join(g))
		}
	}
	for _, v := range []string{"-1", "0", "99", "9223372036854775807", "9223372036854775808", "18446744073709551615", "18446744073709551616", "00" + f[2], "+" + f[2], "0x" + f[2], " " + f[2], f[2] + " ", f[2] + ".0", "1e0", "", "١"} {
		g := append([]string{}, f...)
		g[2] = v
		add("paramid-edge", join(g))
	}
	for _, v := range []string{"-1", "0", "9223372036854775807", "9223372036854775808", "00" + f[1], "+" + f[1], "0x10", " " + f[1], f[1] + " ", "1.5", "", "now", "1e9"} {
		g := append([]string{}, f...)
		g[1] = v
		add("time-edge", join(g))
	}
	// whole-file shapes
	add("empty-file", nil)
	add("only-newline", []byte("\n"))
	add("blank-first-line", []byte("\n"+line))
	add("garbage-first-line", []byte("garbage\n"+line))
	add("comment-first-line", []byte("# comment\n"+line))
	add("bom-prefixed", append([]byte{0xef, 0xbb, 0xbf}, []byte(line)...))
	add("nul-prefixed", append([]byte{0}, []byte(line)...))
	rb := make([]byte, 200)
	rng.Read(rb)
	add("random-bytes", rb)
	big := 1 << 20
	if full {
		big = 16 << 20
	}
	add("huge-line-no-newline", bytes.Repeat([]byte("A"), big))
	add("huge-line+newline+valid", append(append(bytes.Repeat([]byte("A"), big), '\n'), []byte(line)...))
	add("valid-then-huge-aux", append([]byte(line), bytes.Repeat([]byte("B"), big)...))
	add("huge-valid-prefix-padded-time", []byte(fmt.Sprintf("%s:%s%s:%s:%s:%s\n", f[0], strings.Repeat("0", 4096-len(rec)%4096+4096), f[1], f[2], f[3], f[4])))
	for _, n := range []int{4095, 4096, 4097, 65535, 65536} {
		// a valid record padded (inside the digest field, by '=' / junk) so that buffer boundaries fall inside the line
		pad := n - len(rec)
		if pad > 0 {
			add("valid-prefix-then-junk-to-buffer-size", []byte(rec+strings.Repeat(":", 1)+strings.Repeat("x", pad)+"\n"))
			add("valid-prefix-then-junk-to-buffer-size", []byte(rec+strings.Repeat("A", pad)+"\n"))
			add("valid-prefix-then-nul-to-buffer-size", []byte(rec+strings.Repeat("\x00", pad)+"\n"))
			add("valid-prefix-then-cr-to-buffer-size", []byte(rec+strings.Repeat("\r", pad)+"\n"))
		}
	}
	// a record zero-padded (in the timestamp) so that its first N bytes are exactly a complete valid
	// record, followed by a tail that invalidates the line: catches readers that silently cut long lines
	for _, n := range []int{256, 512, 1024, 2048, 4096, 8192, 16384, 32768, 65536, 131072} {
		pad := n - len(rec)
		if pad <= 0 {
			continue
		}
		padded := fmt.Sprintf("%s:%s%s:%s:%s:%s", f[0], strings.Repeat("0", pad), f[1], f[2], f[3], f[4])
		for _, tail := range []string{":x", "x", "AAAA", "\x00", ":", "=", f[4]} {
			add("bufsize-aligned-valid-prefix+tail", []byte(padded+tail+"\n"))
			add("bufsize-aligned-valid-prefix+tail", []byte(padded+tail))
		}
		// same with the padding inside the salt field replaced by a long-but-valid... (digest extended to the boundary)
	}
	out = append(out, c02Mut{Class: "directory-in-place-of-file", Dir: true})
	return out
}

func c02() {
	R := vr.New("C02", "mutants", "for each of 4 parameter sets (both algorithms) a reference-written canonical record and systematic mutants of it (fields emptied/swapped, truncation at every length, separators added/removed, control bytes, digest/salt truncated/extended/re-encoded/bit-flipped, other algorithm/set ids, numeric edges, huge lines, random bytes, directory), each tried with the right, the empty and a wrong password and then put through list/list-full/add/update/remove; plus reference-written records for a fixed matrix of 11 parameter-set shapes (scrypt r/p given, omitted or zero independently; argon2id threads 1-4, lengths 16-64) which must authenticate with their password only. Non-trivial: a mutant whose bytes differ from the canonical record; distinct by (set, file bytes)")
	defer R.Write()
	root := filepath.Join(workDir(), "c02")
	os.RemoveAll(root) //nolint:errcheck
	c02Foreign(R, root)
	nrounds := vr.Pick(1, 4)
	for round := 0; round < nrounds; round++ {
		rng := R.Rand(fmt.Sprintf("round%d", round))
		base := filepath.Join(root, fmt.Sprintf("r%d", round), "base")
		os.MkdirAll(base, 0700) //nolint:errcheck
		cfg := filepath.Join(root, fmt.Sprintf("r%d", round), "store.yml")
		all := ref.CheapSets(rng, 4)
		sets := ref.SetMap(all)
		def := uint(1 + rng.Intn(4))
		os.WriteFile(cfg, []byte(ref.YAML(base, def, all)), 0600) //nolint:errcheck
		d, err := store.NewDirFromConfig(cfg)
		if err != nil {
			R.Violate("c02:config-rejected", "generated valid config rejected: "+err.Error(), "", ref.YAML(base, def, all))
			return
		}
		// a good admin so that the directory itself is a valid store
		rootSalt := make([]byte, sets[def].SaltLen())
		rng.Read(rootSalt)
		os.WriteFile(filepath.Join(base, "root.admin"), []byte(sets[def].Record([]byte("rootpw"), rootSalt, time.Now().Unix())+"\n"), 0600) //nolint:errcheck
		for _, ps := range all {
			var others []ref.ParamSet
			for _, o := range all {
				if o.ID != ps.ID {
					others = append(others, o)
				}
			}
			pw := ref.Password(rng)
			for len(pw) == 0 {
				pw = ref.Password(rng)
			}
			if len(pw) > 200 {
				pw = pw[:200]
			}
			salt := make([]byte, ps.SaltLen())
			rng.Read(salt)
			canonical := ps.Record(pw, salt, time.Now().Unix()) + "\n"
			muts := c02Mutants(rng, ps, others, pw, salt, time.Now().Unix()-int64(rng.Intn(100000)), vr.Thorough())
			for mi, m := range muts {
				id := fmt.Sprintf("r%d/set%d/m%d", round, ps.ID, mi)
				if !R.Want(id) {
					continue
				}
				R.Mark(id + " " + m.Class)
				ext := ".user"
				if mi%3 == 0 {
					ext = ".admin"
				}
				c02One(R, rng, d, base, sets, ps, m, ext, pw, id)
				R.Case(fmt.Sprintf("%d/%x", ps.ID, m.File), m.Dir || string(m.File) != canonical)
				R.Count("class:"+m.Class, 1)
				if mi < 2 && round == 0 {
					R.Sample(map[string]any{"case": id, "class": m.Class, "set": ps.ID, "algo": ps.Algo, "file": vr.Q(string(m.File))})
				}
			}
		}
	}
}

// c02Foreign: records written by the reference implementation for a fixed matrix of parameter-set configurations
// (optional scrypt r / p given, omitted or zero, independently; several argon2id shapes) must authenticate with
// their password and with nothing else.
func c02Foreign(R *vr.Result, root string) {
	rng := R.Rand("foreign")
	base := filepath.Join(root, "foreign", "base")
	os.MkdirAll(base, 0700) //nolint:errcheck
	cfg := filepath.Join(root, "foreign", "store.yml")
	key := func() []byte { k := make([]byte, 32); rng.Read(k); return k }
	all := []ref.ParamSet{
		{ID: 1, Algo: ref.AlgoScrypt, HmacKey: key(), Cost: 2, ROmit: true, POmit: true},
		{ID: 2, Algo: ref.AlgoScrypt, HmacKey: key(), Cost: 3, R: 2, POmit: true},
		{ID: 3, Algo: ref.AlgoScrypt, HmacKey: key(), Cost: 2, ROmit: true, P: 3},
		{ID: 4, Algo: ref.AlgoScrypt, HmacKey: key(), Cost: 4, R: 3, P: 2},
		{ID: 5, Algo: ref.AlgoScrypt, HmacKey: key(), Cost: 2, R: 16, P: 0},
		{ID: 6, Algo: ref.AlgoScrypt, HmacKey: key(), Cost: 2, R: 0, P: 4},
		{ID: 7, Algo: ref.AlgoScrypt, HmacKey: key(), Cost: 1, R: 1, P: 1},
		{ID: 8, Algo: ref.AlgoArgon, Time: 1, Memory: 8, Threads: 1, Length: 16},
		{ID: 9, Algo: ref.AlgoArgon, Time: 2, Memory: 32, Threads: 2, Length: 32},
		{ID: 10, Algo: ref.AlgoArgon, Time: 1, Memory: 64, Threads: 4, Length: 64},
		{ID: 11, Algo: ref.AlgoArgon, Time: 3, Memory: 24, Threads: 3, Length: 20},
	}
	os.WriteFile(cfg, []byte(ref.YAML(base, 1, all)), 0600) //nolint:errcheck
	d, err := store.NewDirFromConfig(cfg)
	if err != nil {
		R.Violate("c02:config-rejected", "generated valid config rejected: "+err.Error(), "foreign", ref.YAML(base, 1, all))
		return
	}
	for _, ps := range all {
		for k := 0; k < vr.Pick(3, 12); k++ {
			id := fmt.Sprintf("foreign/set%d/%d", ps.ID, k)
			if !R.Want(id) {
				continue
			}
			R.Mark(id)
			pw := ref.Password(rng)
			if len(pw) > 300 {
				pw = pw[:300]
			}
			salt := make([]byte, ps.SaltLen())
			rng.Read(salt)
			u := fmt.Sprintf("f%d-%d", ps.ID, k)
			rec := ps.Record(pw, salt, time.Now().Unix()-int64(rng.Intn(1000000)))
			os.WriteFile(filepath.Join(base, u+".user"), []byte(rec+"\n"), 0600) //nolint:errcheck
			var ok bool
			var aerr error
			if p := vr.Safe(func() { ok, _, _, _, aerr = d.Authenticate(u, string(pw)) }); p != "" {
				R.Violate("c02:panic:authenticate", p, id, rec)
			}
			R.Count("foreign_records", 1)
			R.Count("must_accept_cases", 1)
			shape := fmt.Sprintf("%s:r=%s,p=%s", ps.Algo, c02Shape(ps.R, ps.ROmit), c02Shape(ps.P, ps.POmit))
			if ps.Algo == ref.AlgoArgon {
				shape = fmt.Sprintf("%s:threads=%d,len=%d", ps.Algo, ps.Threads, ps.Length)
			}
			if !ok {
				R.Violate("c02:foreign-record-rejected:"+shape, fmt.Sprintf("record written by the reference implementation for parameter set %d does not authenticate with its password: %v", ps.ID, aerr), id, map[string]any{"record": rec, "pw": vr.Q(string(pw)), "config": ref.YAML(base, 1, all)})
			}
			for _, c := range ref.NearMisses(rng, pw, false) {
				if ps.SamePassword(c, pw) {
					continue
				}
				var ok2 bool
				vr.Safe(func() { ok2, _, _, _, _ = d.Authenticate(u, string(c)) })
				R.Count("must_reject_cases", 1)
				if ok2 {
					R.Violate("c02:foreign-record-accepts-other-password:"+shape, fmt.Sprintf("set %d: candidate %s accepted for a record of %s", ps.ID, vr.Q(string(c)), vr.Q(string(pw))), id, rec)
				}
			}
			// a digest computed with the defaults of the optional parameters must NOT authenticate when they are configured
			if ps.Algo == ref.AlgoScrypt {
				if r, pp := ps.R, ps.P; (r > 0 && r != 8) || (pp > 0 && pp != 1) {
					dflt := ps
					dflt.R, dflt.P, dflt.ROmit, dflt.POmit = 0, 0, true, true
					os.WriteFile(filepath.Join(base, u+".user"), []byte(dflt.Record(pw, salt, time.Now().Unix())+"\n"), 0600) //nolint:errcheck
					var ok3 bool
					vr.Safe(func() { ok3, _, _, _, _ = d.Authenticate(u, string(pw)) })
					R.Count("must_reject_cases", 1)
					if ok3 {
						R.Violate("c02:digest-of-other-parameters-accepted:"+shape, fmt.Sprintf("set %d: a digest computed with r=8 p=1 authenticates although the set configures r=%d p=%d", ps.ID, r, pp), id, nil)
					}
				}
			}
			R.Case(fmt.Sprintf("foreign/%d/%x", ps.ID, rec), true)
			os.Remove(filepath.Join(base, u+".user")) //nolint:errcheck
		}
	}
}

func c02Shape(v int, omit bool) string {
	switch {
	case omit:
		return "omitted"
	case v == 0:
		return "zero"
	}
	return "given"
}

// timed runs f and reports a hang if it does not return within the (very generous) limit twice.
func timed(f func()) (hung bool) {
	for _, limit := range []time.Duration{30 * time.Second, 90 * time.Second} {
		done := make(chan struct{})
		go func() { defer close(done); f() }()
		select {
		case <-done:
			return false
		case <-time.After(limit):
		}
	}
	return true
}

func c02One(R *vr.Result, rng *rand.Rand, d *store.Dir, base string, sets map[uint]ref.ParamSet, ps ref.ParamSet, m c02Mut, ext string, pw []byte, id string) {
	const user = "victim"
	path := filepath.Join(base, user+ext)
	os.RemoveAll(filepath.Join(base, user+".user"))  //nolint:errcheck
	os.RemoveAll(filepath.Join(base, user+".admin")) //nolint:errcheck
	put := func() {
		os.RemoveAll(path) //nolint:errcheck
		if m.Dir {
			os.Mkdir(path, 0700) //nolint:errcheck
		} else {
			os.WriteFile(path, m.File, 0600) //nolint:errcheck
		}
	}
	put()
	wit := func(extra string) map[string]any {
		return map[string]any{"class": m.Class, "set": ps.ID, "algo": ps.Algo, "ext": ext, "file": vr.Q(string(m.File)), "password": vr.Q(string(pw)), "note": extra}
	}
	file := m.File
	if m.Dir {
		file = nil
	}
	wrong := append([]byte("wrong-"), pw...)
	for _, cand := range [][]byte{pw, {}, wrong} {
		var ok bool
		var err error
		var pan string
		if timed(func() { pan = vr.Safe(func() { ok, _, _, _, err = d.Authenticate(user, string(cand)) }) }) {
			R.Violate("c02:hang:authenticate:"+m.Class, "Authenticate did not return within 30 s and again within 90 s", id, wit(""))
			return
		}
		R.Count("auth_calls", 1)
		if pan != "" {
			R.Violate("c02:panic:authenticate:"+m.Class, "Authenticate panicked: "+pan, id, wit("candidate "+vr.Q(string(cand))))
			continue
		}
		may := !m.Dir && ref.MayAccept(sets, file, cand)
		must := !m.Dir && ref.MustAccept(sets, file, cand)
		if ok && !may {
			R.Violate(fmt.Sprintf("c02:accepted:%s:%s", m.Class, ps.Algo), fmt.Sprintf("Authenticate succeeded with password %s although under the most permissive reading the file does not hold a matching record of a configured set", vr.Q(string(cand))), id, wit(""))
		}
		if !ok && must {
			R.Violate(fmt.Sprintf("c02:rejected-canonical:%s:%s", m.Class, ps.Algo), fmt.Sprintf("a canonical reference-written record did not authenticate with its password: %v", err), id, wit(""))
		}
		if must {
			R.Count("must_accept_cases", 1)
		}
		if !may {
			R.Count("must_reject_cases", 1)
		}
		if ok {
			R.Count("accepted", 1)
		}
	}
	defUnsupported := m.Dir || !ref.SupportedPermissive(sets, file)
	defSupported := !m.Dir && ref.SupportedStrict(sets, file)
	// list / list-full
	var list store.UserList
	var full store.UserListFull
	if pan := vr.Safe(func() { list, _ = d.List(); full, _ = d.ListFull() }); pan != "" {
		R.Violate("c02:panic:list:"+m.Class, "List/ListFull panicked: "+pan, id, wit(""))
	} else {
		_, in := list[user]
		fe, inFull := full[user]
		if defUnsupported && in {
			R.Violate("c02:list-shows-unsupported:"+m.Class, "List shows a user whose file holds no supported hash", id, wit(""))
		}
		if defSupported && !in {
			R.Violate("c02:list-hides-supported:"+m.Class, "List hides a user with a canonical supported record", id, wit(""))
		}
		if !inFull {
			R.Violate("c02:listfull-missing:"+m.Class, "ListFull does not show the file at all", id, wit(""))
		} else {
			if defUnsupported && fe.IsSupported {
				R.Violate("c02:listfull-says-supported:"+m.Class, "ListFull reports supported=true for a file without a supported hash", id, wit(""))
			}
			if defSupported && !fe.IsSupported {
				R.Violate("c02:listfull-says-unsupported:"+m.Class, "ListFull reports supported=false for a canonical record", id, wit(""))
			}
		}
	}
	snap := func() string {
		fi, err := os.Lstat(path)
		if err != nil {
			return "absent"
		}
		if fi.IsDir() {
			return "dir"
		}
		b, _ := os.ReadFile(path)
		return "file:" + string(b)
	}
	before := snap()
	// add: must report an error (user exists) and leave the file alone
	var err error
	if pan := vr.Safe(func() { err = d.AddUser(user, "newpw-add", ext == ".admin") }); pan != "" {
		R.Violate("c02:panic:add:"+m.Class, "AddUser panicked: "+pan, id, wit(""))
	}
	if err == nil || snap() != before {
		R.Violate("c02:add-on-existing:"+m.Class, fmt.Sprintf("AddUser on an existing (unsupported) file returned %v, file changed=%v", err, snap() != before), id, wit(""))
		put()
	}
	// also add with the other extension must fail
	if pan := vr.Safe(func() { err = d.AddUser(user, "newpw-add", ext != ".admin") }); pan != "" {
		R.Violate("c02:panic:add:"+m.Class, "AddUser panicked: "+pan, id, wit(""))
	}
	if err == nil || snap() != before {
		R.Violate("c02:add-on-existing-other-ext:"+m.Class, fmt.Sprintf("AddUser (other admin flag) on an existing file returned %v", err), id, wit(""))
		os.Remove(filepath.Join(base, user+".user"))  //nolint:errcheck
		os.Remove(filepath.Join(base, user+".admin")) //nolint:errcheck
		put()
	}
	// update
	if pan := vr.Safe(func() { err = d.UpdateUser(user, "newpw-update") }); pan != "" {
		R.Violate("c02:panic:update:"+m.Class, "UpdateUser panicked: "+pan, id, wit(""))
	}
	after := snap()
	if defUnsupported {
		R.Count("update_on_unsupported", 1)
		if err == nil || after != before {
			R.Violate("c02:update-overwrote-unsupported:"+m.Class, fmt.Sprintf("UpdateUser on a file without supported hash returned %v, file changed=%v", err, after != before), id, wit(""))
		}
	} else if defSupported {
		if err != nil {
			R.Violate("c02:update-refused-supported:"+m.Class, "UpdateUser refused a canonical supported record: "+err.Error(), id, wit(""))
		}
	} else if err != nil && after != before {
		R.Violate("c02:update-failed-but-changed:"+m.Class, "UpdateUser returned an error but changed the file", id, wit(""))
	}
	if after != before {
		put()
	}
	// remove
	if pan := vr.Safe(func() { d.RemoveUser(user) }); pan != "" {
		R.Violate("c02:panic:remove:"+m.Class, "RemoveUser panicked: "+pan, id, wit(""))
	}
	if s := snap(); s != "absent" && !m.Dir {
		R.Violate("c02:remove-left-file:"+m.Class, "RemoveUser left the file in place", id, wit(""))
	}
	os.RemoveAll(path) //nolint:errcheck
}
