package main

import (
	"bytes"
	"fmt"
	"os"
	"os/exec"
	"path/filepath"
	"strings"
	"testing"
	"time"

	"github.com/whawty/auth/zz_verif/ref"
	"github.com/whawty/auth/zz_verif/vr"
)

// TestVerifC02Agent: the schema's rules for unsupported / invalid hash files, through the agent's request interface
// (the command line and the web API go through the same functions).
func TestVerifC02Agent(t *testing.T) {
	R := vr.New("C02", "agent", "an in-process agent (upgrades off and local) on a directory holding, next to valid users, hash files of every unsupported / invalid class (unknown parameter set, unknown algorithm, algorithm id of another set, empty digest, empty salt, truncated record, garbage, empty file, NUL bytes, huge line, both for .user and .admin): through the agent's request interface each such user must not authenticate with any password, be hidden from list (also the command line's `list`), be shown as unsupported (or invalid) by list-full (also `list --full`), be 'already exists' for add, be refused by update with the file left byte-identical, and be deleted by remove; the valid users are unaffected. Non-trivial: every (class, extension, operation); distinct by that tuple")
	defer R.Write()
	rng := R.Rand("c02a")
	for ri, mode := range []string{"", "local"} {
		dir := ovlWork(fmt.Sprintf("c02a-%d", ri))
		sets := ref.CheapSets(rng, 3)
		users := []ovlUser{{Name: "root", Pw: "rootpw", Admin: true, Set: 1}, {Name: "alice", Pw: "alicepw", Set: 2}}
		st := ovlMkStore(rng, dir, sets, 1, users)
		mk := func(ps ref.ParamSet) string {
			salt := make([]byte, ps.SaltLen())
			rng.Read(salt)
			return ps.Record([]byte("pw"), salt, time.Now().Unix()-100)
		}
		r1, r2 := mk(sets[0]), mk(sets[1])
		f1 := strings.Split(r1, ":")
		classes := map[string][]byte{
			"unknown-set":      []byte(strings.Replace(r1, fmt.Sprintf(":%d:", sets[0].ID), ":77:", 1) + "\n"),
			"unknown-algo":     []byte("bcrypt" + r1[strings.Index(r1, ":"):] + "\n"),
			"algo-of-other":    []byte(sets[1].Algo + r1[strings.Index(r1, ":"):] + "\n"),
			"set-of-other":     []byte(strings.Replace(r2, fmt.Sprintf(":%d:", sets[1].ID), fmt.Sprintf(":%d:", sets[0].ID), 1) + "\n"),
			"empty-digest":     []byte(strings.Join(f1[:4], ":") + ":\n"),
			"empty-salt":       []byte(strings.Join(f1[:3], ":") + "::" + f1[4] + "\n"),
			"truncated":        []byte(r1[:len(r1)/2]),
			"garbage":          []byte("this is not a hash\n"),
			"empty-file":       nil,
			"nul-bytes":        []byte("\x00\x00\x00\n"),
			"huge-line":        []byte(strings.Repeat("A", 200000) + "\n"),
			"time-not-numeric": []byte(strings.Replace(r1, ":"+f1[1]+":", ":soon:", 1) + "\n"),
		}
		i := 0
		type bad struct {
			name, class, path string
			data              []byte
		}
		var bads []bad
		for cl, data := range classes {
			for _, ext := range []string{".user", ".admin"} {
				i++
				n := fmt.Sprintf("bad%d", i)
				p := filepath.Join(st.Base, n+ext)
				os.WriteFile(p, data, 0600) //nolint:errcheck
				bads = append(bads, bad{n, cl + ext, p, data})
			}
		}
		ag, err := NewStore(st.Cfg, mode, "", "", "")
		if err != nil {
			R.Fatal = "NewStore: " + err.Error()
			return
		}
		iface := ag.GetInterface()
		viol := func(b bad, op, what string) {
			R.Violate("c02:agent:"+op+":"+strings.TrimSuffix(strings.TrimSuffix(b.class, ".user"), ".admin"), fmt.Sprintf("upgrades %q, file %s (%s): %s", mode, filepath.Base(b.path), b.class, what), b.class+"/"+op, map[string]any{"file": vr.Q(string(b.data[:min(len(b.data), 200)]))})
		}
		list, _ := iface.List()
		full, _ := iface.ListFull()
		for _, b := range bads {
			for _, pw := range []string{"pw", "", "x"} {
				if ok, _, _, _ := iface.Authenticate(b.name, pw); ok {
					viol(b, "authenticate", "authenticates with "+vr.Q(pw))
				}
				R.Count("must_reject_cases", 1)
			}
			R.Case(b.class+"|authenticate", true)
			if _, in := list[b.name]; in {
				viol(b, "list", "shown by list")
			}
			R.Case(b.class+"|list", true)
			if fe, in := full[b.name]; !in {
				viol(b, "list-full", "missing from list-full")
			} else if fe.IsValid && fe.IsSupported {
				viol(b, "list-full", "shown as valid and supported by list-full")
			}
			R.Case(b.class+"|list-full", true)
			if err := iface.Add(b.name, "Quartz-Zebra-Lamp-1", false); err == nil {
				viol(b, "add", "add succeeded although a file of that name exists")
			}
			R.Case(b.class+"|add", true)
			if err := iface.Update(b.name, "Quartz-Zebra-Lamp-2"); err == nil {
				viol(b, "update", "update succeeded on an unsupported record")
			}
			if now, err := os.ReadFile(b.path); err != nil || !bytes.Equal(now, b.data) {
				viol(b, "update", "the file is no longer byte-identical after add/update were refused")
			}
			R.Case(b.class+"|update", true)
			R.Count("update_on_unsupported", 1)
		}
		// the command line's own listing code (one process per command)
		if bin := filepath.Join(os.Getenv("VERIF_BIN"), "whawty-auth"); ri == 0 {
			if _, err := os.Stat(bin); err == nil {
				short, e1 := exec.Command(bin, "--store", st.Cfg, "list").CombinedOutput()
				long, e2 := exec.Command(bin, "--store", st.Cfg, "list", "--full").CombinedOutput()
				R.Count("cli_listings", 2)
				if e1 != nil || e2 != nil {
					R.Violate("c02:cli:list-failed", fmt.Sprintf("list: %v / list --full: %v: %s %s", e1, e2, short, long), "cli/list", nil)
				}
				has := func(out []byte, name string) bool {
					for _, f := range strings.FieldsFunc(string(out), func(r rune) bool {
						return !(r == '.' || r == '-' || r == '_' || r == '@' || r >= '0' && r <= '9' || r >= 'a' && r <= 'z' || r >= 'A' && r <= 'Z')
					}) {
						if f == name {
							return true
						}
					}
					return false
				}
				for _, b := range bads {
					if has(short, b.name) {
						viol(b, "cli-list", "shown by the command line's list")
					}
					if !has(long, b.name) {
						viol(b, "cli-list-full", "missing from the command line's list --full")
					}
					R.Case(b.class+"|cli-list", true)
				}
				for _, u := range users {
					if !has(short, u.Name) {
						R.Violate("c02:cli:valid-user-not-listed", u.Name, "cli/list", string(short))
					}
				}
			}
		}
		// the valid users are unaffected, and the admin can still be told apart
		for _, u := range users {
			if ok, adm, _, _ := iface.Authenticate(u.Name, u.Pw); !ok || adm != u.Admin {
				R.Violate("c02:agent:valid-user-affected", fmt.Sprintf("%s authenticates=%v admin=%v", u.Name, ok, adm), "valid", nil)
			}
		}
		for _, b := range bads {
			iface.Remove(b.name) //nolint:errcheck
			if _, err := os.Lstat(b.path); err == nil {
				viol(b, "remove", "the file is still there after remove")
			}
			R.Case(b.class+"|remove", true)
			R.Count("agent_removes_of_unsupported", 1)
		}
		if l, err := iface.List(); err != nil || len(l) != len(users) {
			R.Violate("c02:agent:list-after-removes", fmt.Sprintf("list has %d entries (%v), want %d", len(l), err, len(users)), "final", nil)
		}
		R.Sample(map[string]any{"upgrades": mode, "classes": len(classes), "files": len(bads)})
	}
}
