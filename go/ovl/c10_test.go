package main

import (
	"bytes"
	"encoding/json"
	"fmt"
	"math/rand"
	"net"
	"net/http"
	"net/http/httptest"
	"os"
	"path/filepath"
	"regexp"
	"runtime"
	"strings"
	"sync"
	"sync/atomic"
	"syscall"
	"testing"
	"time"

	"github.com/whawty/auth/sasl"
	"github.com/whawty/auth/zz_verif/ref"
	"github.com/whawty/auth/zz_verif/vr"
)

// ---------------------------------------------------------------------------
// goroutine dump analysis

type ovlGoroutine struct {
	ID     string
	State  string
	Frames []string // function names, innermost first
	Raw    string
}

var ovlGoHdr = regexp.MustCompile(`^goroutine (\d+) \[([^\]]+)\]:`)

func ovlDump() []ovlGoroutine {
	buf := make([]byte, 1<<20)
	for {
		n := runtime.Stack(buf, true)
		if n < len(buf) {
			buf = buf[:n]
			break
		}
		buf = make([]byte, 2*len(buf))
	}
	var out []ovlGoroutine
	for _, blk := range strings.Split(string(buf), "\n\n") {
		lines := strings.Split(blk, "\n")
		m := ovlGoHdr.FindStringSubmatch(lines[0])
		if m == nil {
			continue
		}
		g := ovlGoroutine{ID: m[1], State: strings.SplitN(m[2], ",", 2)[0], Raw: blk}
		for _, l := range lines[1:] {
			if !strings.HasPrefix(l, "\t") && !strings.HasPrefix(l, "created by") && l != "" {
				if i := strings.LastIndex(l, "("); i > 0 {
					g.Frames = append(g.Frames, l[:i])
				}
			}
		}
		out = append(out, g)
	}
	return out
}

// ovlDispatcherState locates the goroutine running (*store).dispatchRequests and classifies it.
// blockedAt != "" means: blocked (not running/runnable/syscall/sleep) in a frame below dispatchRequests, or idle.
func ovlDispatcherState(gs []ovlGoroutine, onlyAfter int) (desc string, blocked bool, where string, raw string) {
	for _, g := range gs {
		idx := -1
		for i, f := range g.Frames {
			if strings.HasSuffix(f, "(*store).dispatchRequests") {
				idx = i
			}
		}
		if idx < 0 {
			continue
		}
		var repo []string
		for _, f := range g.Frames[:idx+1] {
			if strings.Contains(f, "main.") || strings.Contains(f, "whawty/auth") {
				repo = append(repo, f)
			}
		}
		where = strings.Join(repo, " <- ")
		switch g.State {
		case "chan send", "chan receive", "select", "semacquire", "sync.Mutex.Lock", "sync.Cond.Wait", "chan send (nil chan)", "chan receive (nil chan)", "select (no cases)":
			blocked = true
		}
		// several dispatchers (one per agent) exist in the process: report the one that is blocked below dispatchRequests first
		if blocked && (idx > 0 || g.State != "select") {
			// blocked in a frame below dispatchRequests, or in dispatchRequests itself on something
			// other than its idle select (e.g. a send on a nil response channel)
			return g.State, true, where, g.Raw
		}
		desc, raw = g.State, g.Raw
	}
	return desc, false, where, raw
}

// ---------------------------------------------------------------------------

type c10Cfg struct {
	Name     string
	Mode     string // "", "local", "remote-healthy", "remote-unreachable", "remote-stalled"
	Clients  int
	Requests int
	Hooks    bool
	Frontend bool
	DelayUpd time.Duration
	DelayAut time.Duration
	SlowHash bool // users hashed with an expensive parameter set: a login burst keeps the dispatcher busy for many seconds
	Policy   bool // a password policy that the upgradeable users' passwords fail: every login-triggered upgrade fails
	Reloads  int  // number of SIGHUPs (unchanged configuration file) sent while the clients run
}

var c10Pids []string

// c10Current is the %p of the agent under test (several agents of earlier configurations are still alive in the process).
var c10Current string

// c10IdleWhileWaiting: the current agent's dispatcher sits in its idle select while callers wait for a reply.
func c10IdleWhileWaiting(gs []ovlGoroutine) (idle bool, waiters map[string]string) {
	waiters = map[string]string{}
	for _, g := range gs {
		if len(g.Frames) > 0 && strings.HasSuffix(g.Frames[0], "(*store).dispatchRequests") && strings.Contains(g.Raw, "dispatchRequests("+c10Current) {
			idle = strings.HasPrefix(g.State, "select")
		}
		if strings.HasPrefix(g.State, "chan receive") && len(g.Frames) > 0 && strings.Contains(g.Frames[0], "whawty-auth.(*Store).") {
			waiters[g.ID] = g.Frames[0]
		}
	}
	return
}

func c10Hooks(dir string) {
	os.MkdirAll(dir, 0755) //nolint:errcheck
	w := func(name, body string, mode os.FileMode) {
		os.WriteFile(filepath.Join(dir, name), []byte("#!/bin/sh\n"+body+"\n"), mode) //nolint:errcheck
	}
	w("fast.sh", "exit 0", 0755)
	w("failing.sh", "exit 3", 0755)
	w("slow.sh", "sleep 2", 0755)
	w("hang.sh", "echo $$ >> "+dir+"/pids; exec sleep 100000", 0755)
	w("noexec.sh", "exit 0", 0644)
}

func c10KillHooks(dir string) {
	b, _ := os.ReadFile(filepath.Join(dir, "pids"))
	for _, p := range strings.Fields(string(b)) {
		var pid int
		fmt.Sscan(p, &pid)
		if pid > 1 {
			syscall.Kill(pid, syscall.SIGKILL) //nolint:errcheck
		}
	}
}

func TestVerifC10(t *testing.T) {
	R := vr.New("C10", "progress", "bounded-progress monitor: N clients issue mixed authenticate/add/update/remove/set-admin/list requests (Store interface, HTTP, SASL socket) against agents in upgrade modes off/local/remote(healthy, unreachable, stalled master) with upgradeable users, hook directories with fast/failing/slow/hanging scripts, reload signals in the middle of the stream (every other configuration) and delay failpoints on the dispatcher; every request must return, afterwards one probe per request channel must return. A stall is reported only as a PROVED block: two goroutine dumps 1 s apart show the dispatcher goroutine blocked at the same place below dispatchRequests (or idle while clients wait). Non-trivial: a configuration in which >= 2 clients overlapped and (in upgrade modes) upgrades were enqueued; distinct by configuration")
	defer R.Write()
	rng := R.Rand("c10")
	verifSetLogging(true)
	defer verifSetLogging(false)
	nreq := vr.Pick(2000, 8000)
	var cfgs []c10Cfg
	modes := []string{"local", "", "remote-healthy", "remote-unreachable", "remote-stalled"}
	ncfg := vr.Pick(12, 40)
	for i := 0; i < ncfg; i++ {
		m := modes[i%len(modes)]
		if i < 4 {
			m = "local"
		}
		cfgs = append(cfgs, c10Cfg{Name: fmt.Sprintf("cfg%d-%s", i, m), Mode: m, Clients: []int{4, 16, 40, 64}[rng.Intn(4)], Requests: nreq,
			Hooks: i%2 == 0, Frontend: i%3 == 0, Policy: m == "local" && i%2 == 1, Reloads: []int{0, 4, 0, 3}[i%4], DelayUpd: time.Duration(rng.Intn(4)) * time.Millisecond, DelayAut: time.Duration(rng.Intn(2)) * 200 * time.Microsecond})
	}
	cfgs = append(cfgs, c10Cfg{Name: "cfg-slowhash", Mode: "", Clients: 64, Requests: 64 * vr.Pick(1, 6), SlowHash: true})
	occ := map[string]int{}
	for _, c := range cfgs {
		if !R.Want(c.Name) {
			continue
		}
		R.Mark(c.Name)
		c10Run(R, rng, c, occ)
		if ents, err := os.ReadDir("/proc/self/fd"); err == nil {
			fmt.Fprintf(os.Stderr, "c10: %d descriptors open after %s\n", len(ents), c.Name)
		}
	}
	R.Set("upgrade_queue_occupancy_at_enqueue", occ)
	verifSetDelay("exec.update", 0)
	verifSetDelay("exec.authenticate", 0)
}

func c10Run(R *vr.Result, rng *rand.Rand, c c10Cfg, occ map[string]int) {
	dir := ovlWork("c10-" + c.Name)
	sets := ref.CheapSets(rng, 3)
	var users []ovlUser
	users = append(users, ovlUser{Name: "root", Pw: "rootpw", Admin: true, Set: 1})
	nup := 300
	for i := 0; i < nup; i++ { // upgradeable users (non-default set), passwords never changed by clients
		users = append(users, ovlUser{Name: fmt.Sprintf("up%d", i), Pw: fmt.Sprintf("uppw%d", i), Set: uint(2 + i%2), Aux: "totp: QUJD\n"})
	}
	for i := 0; i < 4; i++ {
		users = append(users, ovlUser{Name: fmt.Sprintf("u%d", i), Pw: "pw", Set: 1})
	}
	if c.SlowHash {
		// about 100 ms per verification: 64 clients x a few logins queue up for well over 5 s
		key := make([]byte, 32)
		sets = append(sets, ref.ParamSet{ID: 9, Algo: ref.AlgoScrypt, HmacKey: key, Cost: 15, R: 8, P: 1})
		for i := range users {
			if strings.HasPrefix(users[i].Name, "up") && i < 40 {
				users[i].Set = 9
			}
		}
	}
	st := ovlMkStore(rng, dir, sets, 1, users)
	hooksDir := ""
	if c.Hooks {
		hooksDir = filepath.Join(dir, "hooks")
		c10Hooks(hooksDir)
		defer c10KillHooks(hooksDir)
	}
	mode := c.Mode
	var master *httptest.Server
	var masterOpen, masterConns int64 // connections the upgrade master has accepted and not yet seen closed / ever accepted
	var stallLn net.Listener
	switch c.Mode {
	case "remote-healthy":
		mdir := ovlWork("c10-" + c.Name + "-master")
		mst := ovlMkStore(rng, mdir, sets, 1, users)
		ms, err := NewStore(mst.Cfg, "", "", "", "")
		if err != nil {
			R.Fatal = err.Error()
			return
		}
		h, _ := newWebHandler(ms.GetInterface())
		master = httptest.NewUnstartedServer(h)
		master.Config.ConnState = func(_ net.Conn, st http.ConnState) {
			switch st {
			case http.StateNew:
				atomic.AddInt64(&masterOpen, 1)
				atomic.AddInt64(&masterConns, 1)
			case http.StateClosed, http.StateHijacked:
				atomic.AddInt64(&masterOpen, -1)
			}
		}
		master.Start()
		defer func() { go master.Close() }()
		mode = master.URL + "/api/update"
	case "remote-unreachable":
		l, _ := net.Listen("tcp", "127.0.0.1:0")
		addr := l.Addr().String()
		l.Close() //nolint:errcheck
		mode = "http://" + addr + "/api/update"
	case "remote-stalled":
		stallLn, _ = net.Listen("tcp", "127.0.0.1:0")
		var conns []net.Conn
		var mu sync.Mutex
		go func() {
			for {
				cn, err := stallLn.Accept()
				if err != nil {
					return
				}
				mu.Lock()
				conns = append(conns, cn) // accept, never answer
				mu.Unlock()
			}
		}()
		defer func() {
			stallLn.Close() //nolint:errcheck
			mu.Lock()
			for _, cn := range conns {
				cn.Close() //nolint:errcheck
			}
			mu.Unlock()
		}()
		mode = "http://" + stallLn.Addr().String() + "/api/update"
	}
	verifSetDelay("exec.update", c.DelayUpd)
	verifSetDelay("exec.authenticate", c.DelayAut)
	verifSetLogging(true)
	ptype, pcond := "", ""
	if c.Policy {
		ptype, pcond = "zxcvbn", "score >= 4"
	}
	s, err := NewStore(st.Cfg, mode, ptype, pcond, hooksDir)
	if err != nil {
		R.Fatal = "NewStore: " + err.Error()
		return
	}
	iface := s.GetInterface()
	c10Current = fmt.Sprintf("%p", s)
	var web *httptest.Server
	sock := ""
	if c.Frontend {
		h, _ := newWebHandler(iface)
		web = httptest.NewServer(h)
		defer func() { go web.Close() }() // never wait: handlers of a wedged agent do not return
		sock = filepath.Join(dir, "sasl.sock")
		stopSasl := ovlSasl(sock, iface)
		defer stopSasl()
	}
	httpc := &http.Client{Timeout: 0, Transport: &http.Transport{MaxIdleConnsPerHost: 64}}
	defer httpc.CloseIdleConnections()
	var issued, completed, inflight, maxInflight int64
	var upNext int64
	perClient := c.Requests / c.Clients
	var wg sync.WaitGroup
	doReq := func(r *rand.Rand, cl int) {
		n := atomic.AddInt64(&inflight, 1)
		for {
			m := atomic.LoadInt64(&maxInflight)
			if n <= m || atomic.CompareAndSwapInt64(&maxInflight, m, n) {
				break
			}
		}
		atomic.AddInt64(&issued, 1)
		k := r.Intn(100)
		if c.SlowHash {
			i := r.Intn(36) + 1
			iface.Authenticate(fmt.Sprintf("up%d", i-1+1), fmt.Sprintf("uppw%d", i-1+1)) //nolint:errcheck
			atomic.AddInt64(&inflight, -1)
			atomic.AddInt64(&completed, 1)
			return
		}
		switch {
		case k < 45: // login of an upgradeable user (each user at most once per phase -> always upgradeable on first use)
			i := int(atomic.AddInt64(&upNext, 1)) % nup
			u, p := fmt.Sprintf("up%d", i), fmt.Sprintf("uppw%d", i)
			switch {
			case web != nil && k%3 == 0:
				req, _ := http.NewRequest("GET", web.URL+"/basic-auth", nil)
				req.SetBasicAuth(u, p)
				if resp, err := httpc.Do(req); err == nil {
					resp.Body.Close() //nolint:errcheck
				}
			case web != nil && k%3 == 1:
				body, _ := json.Marshal(map[string]string{"username": u, "password": p})
				if resp, err := httpc.Post(web.URL+"/api/authenticate", "application/json", bytes.NewReader(body)); err == nil {
					resp.Body.Close() //nolint:errcheck
				}
			case sock != "" && k%3 == 2:
				sasl.NewClient(sock).Auth(u, p, "svc", "") //nolint:errcheck
			default:
				iface.Authenticate(u, p) //nolint:errcheck
			}
		case k < 55:
			iface.Authenticate(fmt.Sprintf("u%d", r.Intn(4)), "pw") //nolint:errcheck
		case k < 75:
			iface.Update(fmt.Sprintf("u%d", r.Intn(4)), "pw") //nolint:errcheck
		case k < 80:
			iface.Add(fmt.Sprintf("tmp%d-%d", cl, r.Intn(5)), "pw", false) //nolint:errcheck
		case k < 85:
			iface.Remove(fmt.Sprintf("tmp%d-%d", cl, r.Intn(5))) //nolint:errcheck
		case k < 90:
			iface.SetAdmin(fmt.Sprintf("u%d", r.Intn(4)), r.Intn(2) == 0) //nolint:errcheck
		case k < 94:
			iface.List() //nolint:errcheck
		case k < 97:
			iface.ListFull() //nolint:errcheck
		default:
			iface.Check() //nolint:errcheck
		}
		atomic.AddInt64(&inflight, -1)
		atomic.AddInt64(&completed, 1)
	}
	for cl := 0; cl < c.Clients; cl++ {
		wg.Add(1)
		go func(cl int) {
			defer wg.Done()
			r := rand.New(rand.NewSource(int64(cl)*7919 + R.Seed))
			for i := 0; i < perClient; i++ {
				doReq(r, cl)
			}
		}(cl)
	}
	done := make(chan struct{})
	go func() { wg.Wait(); close(done) }()
	if c.Reloads > 0 {
		// reload signals in the middle of the request stream (configuration unchanged): the first one only after a request
		// has been served, i.e. after the dispatcher has installed its handler
		go func() {
			for atomic.LoadInt64(&completed) < 1 {
				time.Sleep(time.Millisecond)
			}
			for i := 0; i < c.Reloads; i++ {
				time.Sleep(time.Duration(20+10*i) * time.Millisecond)
				select {
				case <-done:
					return
				default:
				}
				syscall.Kill(os.Getpid(), syscall.SIGHUP) //nolint:errcheck
				R.Count("reload_signals_sent", 1)
			}
		}()
	}
	verdict := c10Watch(R, c.Name, done, &completed, &inflight)
	probesOK := false
	if verdict == "completed" {
		// afterwards one probe per channel must return
		pd := make(chan struct{})
		go func() {
			iface.Check()                      //nolint:errcheck
			iface.Add("probe", "pw", false)    //nolint:errcheck
			iface.Update("probe", "pw2")       //nolint:errcheck
			iface.SetAdmin("probe", true)      //nolint:errcheck
			iface.Authenticate("probe", "pw2") //nolint:errcheck
			iface.List()                       //nolint:errcheck
			iface.ListFull()                   //nolint:errcheck
			iface.Remove("probe")              //nolint:errcheck
			close(pd)
		}()
		var z int64
		one := int64(1)
		if c10Watch(R, c.Name+"/probes", pd, &z, &one) == "completed" {
			probesOK = true
		}
	}
	// a slave that keeps accepting new requests must not pile up connections to its upgrade master: at most 10 upgrades
	// are in flight at any time (rate-limit semaphore), so once all of them are done no more than that may still be open
	if master != nil && verdict == "completed" {
		started, finished := 0, 0
		c19Wait(60*time.Second, func(ev []verifEvt) bool {
			started, finished = 0, 0
			for _, e := range ev {
				switch e.Kind {
				case "remote.start":
					started++
				case "remote.done":
					finished++
				}
			}
			return started == finished
		})
		time.Sleep(300 * time.Millisecond)
		open := atomic.LoadInt64(&masterOpen)
		R.Count("remote_upgrades_finished", finished)
		R.Count("master_connections_accepted", int(atomic.LoadInt64(&masterConns)))
		R.Set("master_connections_open_at_quiescence:"+c.Name, open)
		if started != finished {
			R.Inconcl("remote upgrades still running 60 s after the last request: " + c.Name)
		} else if open > 10 {
			R.Violate("c10:connections-to-upgrade-master-pile-up", fmt.Sprintf("%d remote upgrades have finished and none is in flight, but %d connections to the upgrade master are still open (the master never closes idle connections): every upgrade leaves one descriptor behind, so at volume the agent runs out of descriptors and stops accepting requests", finished, open), c.Name, map[string]any{"config": c, "remote_upgrades_finished": finished, "master_connections_open": open, "master_connections_accepted": atomic.LoadInt64(&masterConns)})
		}
	}
	// hook-event evidence
	enq, full := 0, 0
	for _, e := range verifSnapshot() {
		if e.Kind == "upgrade.enqueue" {
			enq++
			occ[fmt.Sprintf("%s:len=%d/cap=%d", strings.SplitN(c.Mode, "-", 2)[0], e.A, e.B)]++
			if e.A == e.B {
				full++
			}
		}
	}
	verifSetLogging(true) // clears the log
	R.Case(fmt.Sprintf("%+v", c), atomic.LoadInt64(&maxInflight) >= 2 && (c.Mode == "" || enq > 0))
	R.Count("requests_issued", int(atomic.LoadInt64(&issued)))
	R.Count("requests_completed", int(atomic.LoadInt64(&completed)))
	R.Count("upgrades_enqueued:"+c.Mode, enq)
	if c.Mode == "local" {
		R.Count("local_enqueue_at_full_queue", full)
	}
	R.Count("configs:"+verdict, 1)
	if probesOK {
		R.Count("configs_probes_ok", 1)
	}
	R.Sample(map[string]any{"config": c, "verdict": verdict, "issued": atomic.LoadInt64(&issued), "completed": atomic.LoadInt64(&completed), "max_in_flight": atomic.LoadInt64(&maxInflight), "upgrades_enqueued": enq, "enqueue_at_full_queue": full})
}

// c10Watch waits for done; if nothing completes for 6 ticks while requests are outstanding it inspects the dispatcher.
func c10Watch(R *vr.Result, name string, done chan struct{}, completed, inflight *int64) string {
	tick := time.NewTicker(500 * time.Millisecond)
	defer tick.Stop()
	deadline := time.After(time.Duration(vr.Pick(240, 900)) * time.Second)
	last := atomic.LoadInt64(completed)
	still := 0
	checkedAt := -1
	for {
		select {
		case <-done:
			return "completed"
		case <-deadline:
			R.Inconcl("watchdog expired without a proved block: " + name)
			// keep the evidence: where are the outstanding requests and the dispatcher?
			var keep []string
			for _, g := range ovlDump() {
				for _, f := range g.Frames {
					if strings.Contains(f, "c10Run") || strings.Contains(f, "dispatchRequests") || strings.Contains(f, "remoteHTTPUpgrade") || strings.Contains(f, "handleWeb") || strings.Contains(f, "handleConnection") {
						raw := g.Raw
						if len(raw) > 1500 {
							raw = raw[:1500]
						}
						keep = append(keep, raw)
						break
					}
				}
				if len(keep) > 40 {
					break
				}
			}
			R.Set("inconclusive_goroutines:"+name, keep)
			return "inconclusive"
		case <-tick.C:
			cur := atomic.LoadInt64(completed)
			if cur != last || atomic.LoadInt64(inflight) == 0 {
				last, still = cur, 0
				continue
			}
			still++
			if still >= 6 && still != checkedAt && still%6 == 0 {
				checkedAt = still
				s1, b1, w1, raw1 := ovlDispatcherState(ovlDump(), 0)
				time.Sleep(time.Second)
				if atomic.LoadInt64(completed) != cur {
					continue
				}
				s2, b2, w2, _ := ovlDispatcherState(ovlDump(), 0)
				// keep looking for another 20 s: a real wedge never resolves, a stall under load does
				for k := 0; k < 20 && b1 && b2 && w1 == w2; k++ {
					time.Sleep(time.Second)
					if atomic.LoadInt64(completed) != cur {
						b2 = false
						break
					}
					s2, b2, w2, _ = ovlDispatcherState(ovlDump(), 0)
				}
				if !b1 {
					// not blocked: is the dispatcher idle although callers are waiting for their reply? (a request that
					// was taken from its queue and never answered) - the same caller goroutines in every dump over 21 s
					idle, w0 := c10IdleWhileWaiting(ovlDump())
					lost := idle && len(w0) > 0
					for k := 0; k < 20 && lost; k++ {
						time.Sleep(time.Second)
						if atomic.LoadInt64(completed) != cur {
							lost = false
							break
						}
						i2, wk := c10IdleWhileWaiting(ovlDump())
						for id := range w0 {
							if _, ok := wk[id]; !ok {
								delete(w0, id)
							}
						}
						lost = i2 && len(w0) > 0
					}
					if lost {
						var fn string
						for _, f := range w0 {
							fn = f
						}
						if i := strings.LastIndex(fn, "."); i > 0 {
							fn = fn[i+1:]
						}
						R.Violate("c10:request-never-answered:dispatcher-idle:"+fn, fmt.Sprintf("no request completed for %.1f s with %d outstanding; in every goroutine dump over the following 21 s the dispatcher of the agent sits in its idle select while the same %d caller goroutines wait for a reply in %s: their requests were taken from the queue and never answered", float64(still)/2, atomic.LoadInt64(inflight), len(w0), fn), name, map[string]any{"waiting_callers": w0})
						return "lost"
					}
				}
				if b1 && b2 && w1 == w2 {
					site := w1
					if i := strings.Index(site, " <- "); i > 0 {
						site = site[:i]
					}
					R.Violate("c10:dispatcher-blocked:"+s1+":"+site, fmt.Sprintf("no request completed for %.1f s with %d outstanding; in every goroutine dump taken over the following 21 s the dispatcher goroutine is blocked (%s / %s) at %s", float64(still)/2, atomic.LoadInt64(inflight), s1, s2, w1), name, map[string]any{"dispatcher_stack": raw1})
					return "wedged"
				}
			}
		}
	}
}
