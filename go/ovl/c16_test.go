package main

import (
	"fmt"
	"math/rand"
	"os"
	"path/filepath"
	"strings"
	"sync"
	"testing"
	"time"

	"github.com/whawty/auth/zz_verif/ref"
	"github.com/whawty/auth/zz_verif/vr"
)

// c16Invariants checks the directory after a completed operation.
func c16Invariants(R *vr.Result, id string, st *ovlStore, hist []string, expectValid bool) {
	ents, _ := os.ReadDir(st.Base)
	names := map[string][]string{}
	for _, e := range ents {
		if e.Name() == ".tmp" {
			continue
		}
		ext := filepath.Ext(e.Name())
		names[strings.TrimSuffix(e.Name(), ext)] = append(names[strings.TrimSuffix(e.Name(), ext)], ext)
		if ext != ".user" && ext != ".admin" {
			R.Violate("c16:foreign-entry-after-operation", "entry "+e.Name(), id, hist)
		}
	}
	for n, exts := range names {
		if len(exts) > 1 {
			R.Violate("c16:two-files-for-one-user", fmt.Sprintf("user %s has %v", n, exts), id, hist)
		}
	}
	if tmp, _ := os.ReadDir(filepath.Join(st.Base, ".tmp")); len(tmp) > 0 {
		R.Violate("c16:tmp-not-empty-after-operation", fmt.Sprintf("%d files left in .tmp after a completed operation", len(tmp)), id, hist)
	}
	if expectValid {
		d, err := libNewDirFromConfig(st.Cfg)
		if err == nil {
			if cerr := d.Check(); cerr != nil {
				R.Violate("c16:store-invalid-after-operation", "Check fails after a completed operation that did not remove or demote the last administrator: "+cerr.Error(), id, hist)
			}
		}
	}
	R.Count("invariant_checks", 1)
}

func TestVerifC16(t *testing.T) {
	R := vr.New("C16", "histories", "sequential operation histories through the agent interface (add, update, set-admin, remove, authenticate with local upgrades, failing operations; the generator never removes or demotes the last administrator) with the directory invariants checked after every completed operation (only <name>.user/.admin entries, one file per user, .tmp empty, Check passes); plus a concurrent phase racing logins of upgradeable users that carry 256 KiB of auxiliary data against set-admin on the same user, and rounds of overlapping add-as-user / add-as-administrator / set-admin / update requests for the same new names with the invariants checked at quiescence. Non-trivial: every history; distinct by operation sequence")
	defer R.Write()
	rng := R.Rand("c16h")
	nh := vr.Pick(60, 1200)
	for h := 0; h < nh; h++ {
		id := fmt.Sprintf("h%d", h)
		if !R.Want(id) {
			continue
		}
		R.Mark(id)
		c16History(R, rand.New(rand.NewSource(rng.Int63())), id)
	}
	if R.Want("race") {
		R.Mark("race")
		c16Race(R, rng)
	}
	if R.Want("concurrent") {
		R.Mark("concurrent")
		c16Concurrent(R, rng)
	}
}

func c16History(R *vr.Result, rng *rand.Rand, id string) {
	dir := ovlWork("c16h")
	sets := ref.CheapSets(rng, 3)
	users := []ovlUser{{Name: "root", Pw: "rootpw", Admin: true, Set: 2}, {Name: "alice", Pw: "alicepw", Set: 3, Aux: "totp: QUJD\n"}, {Name: "bob", Pw: "bobpw", Admin: true, Set: 1}}
	st := ovlMkStore(rng, dir, sets, 1, users)
	ag, err := NewStore(st.Cfg, "local", "", "", "")
	if err != nil {
		R.Fatal = err.Error()
		return
	}
	iface := ag.GetInterface()
	model := map[string]*c06User{"root": {"rootpw", true}, "alice": {"alicepw", false}, "bob": {"bobpw", true}}
	admins := func() int {
		n := 0
		for _, u := range model {
			if u.Admin {
				n++
			}
		}
		return n
	}
	pool := []string{"root", "alice", "bob", "carol", "dave", "a.user", "x@y.z"}
	var hist []string
	nops := vr.Pick(20, 40)
	for i := 0; i < nops; i++ {
		u := pool[rng.Intn(len(pool))]
		m := model[u]
		switch k := rng.Intn(100); {
		case k < 25:
			adm := rng.Intn(3) == 0
			err := iface.Add(u, "pw-"+u, adm)
			hist = append(hist, fmt.Sprintf("add(%s,%v)=%v", u, adm, err == nil))
			if err == nil {
				model[u] = &c06User{"pw-" + u, adm}
			}
		case k < 45:
			err := iface.Update(u, fmt.Sprintf("pw%d", i))
			hist = append(hist, fmt.Sprintf("update(%s)=%v", u, err == nil))
			if err == nil && m != nil {
				m.Pw = fmt.Sprintf("pw%d", i)
			}
		case k < 60:
			adm := rng.Intn(2) == 0
			if m != nil && m.Admin && !adm && admins() == 1 {
				continue // would demote the last administrator
			}
			err := iface.SetAdmin(u, adm)
			hist = append(hist, fmt.Sprintf("setadmin(%s,%v)=%v", u, adm, err == nil))
			if err == nil && m != nil {
				m.Admin = adm
			}
		case k < 75:
			if m != nil && m.Admin && admins() == 1 {
				continue // would remove the last administrator
			}
			iface.Remove(u) //nolint:errcheck
			hist = append(hist, fmt.Sprintf("remove(%s)", u))
			delete(model, u)
		default:
			pw := "wrong"
			if m != nil && rng.Intn(3) > 0 {
				pw = m.Pw
			}
			ok, _, _, _ := iface.Authenticate(u, pw)
			iface.Update("zz-barrier", "x") //nolint:errcheck (a queued upgrade has run when this returns)
			hist = append(hist, fmt.Sprintf("auth(%s)=%v", u, ok))
		}
		c16Invariants(R, id, st, hist, true)
	}
	R.Case(strings.Join(hist, ";"), true)
	R.Count("operations", len(hist))
	if len(R.Samples) < 3 {
		R.Sample(map[string]any{"history": id, "ops": hist})
	}
}

// c16Concurrent: rounds of overlapping mutating requests on the same few names through the agent interface (as concurrent
// HTTP clients produce them): add as user and add as administrator of the same new name, set-admin in both directions,
// update and login of upgradeable records; the directory invariants are checked at quiescence after each round.
func c16Concurrent(R *vr.Result, rng *rand.Rand) {
	dir := ovlWork("c16conc")
	sets := ref.CheapSets(rng, 2)
	users := []ovlUser{{Name: "root", Pw: "rootpw", Admin: true, Set: 1}}
	st := ovlMkStore(rng, dir, sets, 1, users)
	ag, err := NewStore(st.Cfg, "local", "", "", "")
	if err != nil {
		R.Fatal = err.Error()
		return
	}
	rounds := vr.Pick(60, 600)
	for r := 0; r < rounds; r++ {
		names := []string{fmt.Sprintf("n%d", r), fmt.Sprintf("m%d", r)}
		type req struct {
			desc string
			f    func(s *Store) error
		}
		var reqs []req
		for _, n := range names {
			n := n
			reqs = append(reqs, req{"add(" + n + ",user)", func(s *Store) error { return s.Add(n, "pw-u", false) }})
			reqs = append(reqs, req{"add(" + n + ",admin)", func(s *Store) error { return s.Add(n, "pw-a", true) }})
			if rng.Intn(2) == 0 {
				adm := rng.Intn(2) == 0
				reqs = append(reqs, req{fmt.Sprintf("setadmin(%s,%v)", n, adm), func(s *Store) error { return s.SetAdmin(n, adm) }})
			}
			if rng.Intn(2) == 0 {
				reqs = append(reqs, req{"update(" + n + ")", func(s *Store) error { return s.Update(n, "pw-new") }})
			}
			if rng.Intn(3) == 0 {
				reqs = append(reqs, req{"add(" + n + ",user) again", func(s *Store) error { return s.Add(n, "pw-u2", false) }})
			}
		}
		rng.Shuffle(len(reqs), func(i, j int) { reqs[i], reqs[j] = reqs[j], reqs[i] })
		errs := make([]error, len(reqs))
		var wg sync.WaitGroup
		gate := make(chan struct{})
		for i, q := range reqs {
			wg.Add(1)
			iface := ag.GetInterface()
			go func(i int, q req) {
				defer wg.Done()
				<-gate
				errs[i] = q.f(iface)
			}(i, q)
		}
		close(gate)
		wg.Wait()
		var hist []string
		addOK := map[string]int{}
		for i, q := range reqs {
			hist = append(hist, fmt.Sprintf("%s=%v", q.desc, errs[i] == nil))
			if strings.HasPrefix(q.desc, "add(") && errs[i] == nil {
				addOK[q.desc[4:strings.Index(q.desc, ",")]]++
			}
		}
		id := fmt.Sprintf("conc%d", r)
		for n, k := range addOK {
			if k > 1 {
				R.Violate("c16:concurrent:two-adds-of-one-name-succeed", fmt.Sprintf("%d overlapping add requests for %s reported success", k, n), id, hist)
			}
		}
		c16Invariants(R, id, st, hist, true)
		R.Case("conc:"+strings.Join(hist, ";"), true)
		R.Count("concurrent_rounds", 1)
		R.Count("concurrent_requests", len(reqs))
	}
}

// c16Race: login of an upgradeable user with large aux data raced against set-admin of the same user.
func c16Race(R *vr.Result, rng *rand.Rand) {
	dir := ovlWork("c16race")
	sets := ref.CheapSets(rng, 2)
	n := vr.Pick(150, 1500)
	aux := strings.Repeat("u2f: "+strings.Repeat("QUJDREVGR0hJSktMTU5PUFFSU1RVVldYWVo", 30)+"\n", 250) // ~260 KiB
	users := []ovlUser{{Name: "root", Pw: "rootpw", Admin: true, Set: 1}}
	for i := 0; i < n; i++ {
		users = append(users, ovlUser{Name: fmt.Sprintf("r%d", i), Pw: "pw", Set: 2, Aux: aux})
	}
	st := ovlMkStore(rng, dir, sets, 1, users)
	ag, err := NewStore(st.Cfg, "local", "", "", "")
	if err != nil {
		R.Fatal = err.Error()
		return
	}
	iface := ag.GetInterface()
	for i := 0; i < n; i++ {
		u := fmt.Sprintf("r%d", i)
		var wg sync.WaitGroup
		wg.Add(2)
		go func() { defer wg.Done(); iface.Authenticate(u, "pw") }() //nolint:errcheck
		go func() {
			defer wg.Done()
			time.Sleep(time.Duration(rng.Intn(400)) * time.Microsecond)
			iface.SetAdmin(u, true) //nolint:errcheck
		}()
		wg.Wait()
		iface.Update("zz-barrier", "x") //nolint:errcheck
		R.Count("race_attempts", 1)
		if i%10 == 9 || i == n-1 {
			c16Invariants(R, "race", st, []string{fmt.Sprintf("authenticate(%s) || set-admin(%s,true), upgrades local, 260 KiB aux", u, u)}, true)
		}
	}
	time.Sleep(50 * time.Millisecond)
	c16Invariants(R, "race", st, []string{"final"}, true)
	R.Case("race", true)
}
