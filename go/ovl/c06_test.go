package main

import (
	"bytes"
	"encoding/json"
	"fmt"
	"math/rand"
	"net/http"
	"net/http/httptest"
	"os"
	"path/filepath"
	"sort"
	"strings"
	"sync"
	"sync/atomic"
	"testing"
	"time"
	"unicode/utf8"

	"github.com/whawty/auth/zz_verif/ref"
	"github.com/whawty/auth/zz_verif/vr"
)

type c06User struct {
	Pw    string
	Admin bool
}

type c06Tok struct {
	Text  string
	User  string
	Admin bool // sealed admin flag
	Valid bool // valid for the factory in use and inside the lifetime
	Kind  string
}

type c06World struct {
	R      *vr.Result
	rng    *rand.Rand
	st     *ovlStore
	iface  *Store
	f      *webSessionFactory
	mux    *http.ServeMux
	model  map[string]*c06User
	backup string
}

func c06Mux(iface *Store, f *webSessionFactory) *http.ServeMux {
	mux := http.NewServeMux()
	mux.Handle("/basic-auth", webHandler{iface, f, handleWebBasicAuth})
	mux.Handle("/api/authenticate", webHandler{iface, f, handleWebAuthenticate})
	mux.Handle("/api/add", webHandler{iface, f, handleWebAdd})
	mux.Handle("/api/remove", webHandler{iface, f, handleWebRemove})
	mux.Handle("/api/update", webHandler{iface, f, handleWebUpdate})
	mux.Handle("/api/set-admin", webHandler{iface, f, handleWebSetAdmin})
	mux.Handle("/api/list", webHandler{iface, f, handleWebList})
	mux.Handle("/api/list-full", webHandler{iface, f, handleWebListFull})
	return mux
}

func (w *c06World) post(mux http.Handler, path string, body []byte) (int, map[string]any, string, string) {
	req := httptest.NewRequest("POST", path, bytes.NewReader(body))
	req.Header.Set("Content-Type", "application/json")
	rec := httptest.NewRecorder()
	pan := vr.Safe(func() { mux.ServeHTTP(rec, req) })
	var m map[string]any
	json.Unmarshal(rec.Body.Bytes(), &m) //nolint:errcheck
	return rec.Code, m, rec.Body.String(), pan
}

func (w *c06World) snap() ref.Snap { return ref.TakeSnap(w.st.Base) }

func (w *c06World) save() {
	os.RemoveAll(w.backup) //nolint:errcheck
	copyDir(w.st.Base, w.backup)
}

func (w *c06World) restore() {
	os.RemoveAll(w.st.Base) //nolint:errcheck
	copyDir(w.backup, w.st.Base)
}

func copyDir(src, dst string) {
	os.MkdirAll(dst, 0700) //nolint:errcheck
	ents, _ := os.ReadDir(src)
	for _, e := range ents {
		if e.IsDir() {
			copyDir(filepath.Join(src, e.Name()), filepath.Join(dst, e.Name()))
			continue
		}
		b, _ := os.ReadFile(filepath.Join(src, e.Name()))
		os.WriteFile(filepath.Join(dst, e.Name()), b, 0600) //nolint:errcheck
	}
}

func (w *c06World) seal(user string, admin bool, age time.Duration) string {
	_, _, n, c := w.f.sealToken(fmt.Sprintf("%s:%t:%d", user, admin, time.Now().Add(-age).Unix()))
	return c06enc(n, c)
}

func c06enc(n, c []byte) string {
	return b64(n) + ":" + b64(c)
}

// login through the API and return the session
func (w *c06World) login(user, pw string) string {
	body, _ := json.Marshal(map[string]string{"username": user, "password": pw})
	code, m, _, _ := w.post(w.mux, "/api/authenticate", body)
	if code != 200 {
		return ""
	}
	s, _ := m["session"].(string)
	return s
}

func (w *c06World) authOK(user, pw string) bool {
	ok, _, _, err := w.iface.Authenticate(user, pw)
	return ok && err == nil
}

func TestVerifC06(t *testing.T) {
	R := vr.New("C06", "authz", "the full matrix endpoint (authenticate, add, remove, update, set-admin, list, list-full) x credential kind (none, garbage, expired, future, bit-flipped, other-instance, ordinary-user session, admin session, demoted-admin session, removed-user session, wrong / right old password, both) x target (self, other user, other admin, non-existent, invalid name) x body shape (valid, field missing, field empty, wrong JSON type, extra field, trailing garbage, not JSON, 1 MiB), evaluated in several store states reached by random walks of allowed requests; every response is compared with a reference authorisation table + sequential store model, with byte-level directory snapshots before/after each request. Non-trivial: every cell whose credentials are not a plain valid admin session with a valid body; distinct by (state, endpoint, credential, target, shape)")
	defer R.Write()
	rng := R.Rand("c06")
	nstates := vr.Pick(4, 60)
	for s := 0; s < nstates; s++ {
		id := fmt.Sprintf("state%d", s)
		if !R.Want(id) && os.Getenv("VERIF_ONLY_CASE") != "" && !strings.HasPrefix(os.Getenv("VERIF_ONLY_CASE"), id) {
			continue
		}
		R.Mark(id)
		c06State(R, rand.New(rand.NewSource(rng.Int63())), id, s)
	}
}

func c06State(R *vr.Result, rng *rand.Rand, id string, sidx int) {
	dir := ovlWork("c06")
	sets := ref.CheapSets(rng, 2)
	users := []ovlUser{{Name: "root", Pw: "root-pw", Admin: true, Set: 1}, {Name: "adm2", Pw: "adm2-pw", Admin: true, Set: 1}, {Name: "alice", Pw: "alice-pw", Set: 1, Aux: "totp: QUJD\n"}, {Name: "bob", Pw: "bob-pw", Set: 2}, {Name: "carl", Pw: "carl-pw", Set: 1}, {Name: "Bob", Pw: "Bob-pw", Set: 1}, {Name: "ROOT", Pw: "ROOT-pw", Set: 2},
		{Name: "bob@example.org", Pw: "bob-at-example-pw", Set: 1}, {Name: "root@x", Pw: "root-at-x-pw", Set: 2}} // accounts of their own, not aliases of bob / root
	st := ovlMkStore(rng, dir, sets, 1, users)
	ag, err := NewStore(st.Cfg, "", "", "", "")
	if err != nil {
		R.Fatal = err.Error()
		return
	}
	f, _ := NewWebSessionFactory(600 * time.Second)
	w := &c06World{R: R, rng: rng, st: st, iface: ag.GetInterface(), f: f, model: map[string]*c06User{}, backup: filepath.Join(dir, "backup")}
	w.mux = c06Mux(w.iface, f)
	for _, u := range users {
		w.model[u.Name] = &c06User{Pw: u.Pw, Admin: u.Admin}
	}
	// tokens obtained by real logins before the walk
	toks := map[string]*c06Tok{}
	for _, u := range []string{"root", "adm2", "alice", "bob", "carl", "Bob", "ROOT"} {
		s := w.login(u, w.model[u].Pw)
		if s == "" {
			R.Violate("c06:login-failed", "login with the right password did not yield a session: "+u, id, nil)
			return
		}
		toks[u] = &c06Tok{Text: s, User: u, Admin: w.model[u].Admin, Valid: true, Kind: "session-of-" + u}
	}
	// random walk of allowed requests (through the API with root's admin session)
	root := toks["root"].Text
	nwalk := sidx % 7
	if sidx > 0 {
		nwalk += 2
	}
	var walk []string
	do := func(path string, m map[string]any) int {
		b, _ := json.Marshal(m)
		code, _, _, _ := w.post(w.mux, path, b)
		return code
	}
	for i := 0; i < nwalk; i++ {
		switch k := rng.Intn(6); k {
		case 0: // demote adm2 (it keeps its admin token)
			if do("/api/set-admin", map[string]any{"session": root, "username": "adm2", "admin": false}) == 200 {
				w.model["adm2"].Admin = false
				walk = append(walk, "demote adm2")
			}
		case 1: // promote alice
			if do("/api/set-admin", map[string]any{"session": root, "username": "alice", "admin": true}) == 200 {
				w.model["alice"].Admin = true
				walk = append(walk, "promote alice")
			}
		case 2: // remove carl (it keeps its token)
			if do("/api/remove", map[string]any{"session": root, "username": "carl"}) == 200 {
				delete(w.model, "carl")
				walk = append(walk, "remove carl")
			}
		case 3: // change bob's password
			np := fmt.Sprintf("bob-pw-%d", i)
			if do("/api/update", map[string]any{"session": root, "username": "bob", "newpassword": np}) == 200 {
				w.model["bob"].Pw = np
				walk = append(walk, "update bob")
			}
		case 4: // add a user
			n := fmt.Sprintf("new%d", i)
			if do("/api/add", map[string]any{"session": root, "username": n, "password": n + "-pw", "admin": i%2 == 0}) == 200 {
				w.model[n] = &c06User{Pw: n + "-pw", Admin: i%2 == 0}
				walk = append(walk, "add "+n)
			}
		case 5: // alice changes her own password with her old one
			np := fmt.Sprintf("alice-pw-%d", i)
			if do("/api/update", map[string]any{"username": "alice", "oldpassword": w.model["alice"].Pw, "newpassword": np}) == 200 {
				w.model["alice"].Pw = np
				walk = append(walk, "alice self-update")
			}
		}
	}
	// the walk itself must have produced the model state
	w.checkModel(id + "/after-walk")
	// credential kinds
	f2, _ := NewWebSessionFactory(600 * time.Second)
	_, _, other := f2.Generate("root", true)
	flip := func(s string) string {
		a, b, _ := strings.Cut(s, ":")
		raw := unb64(b)
		raw[len(raw)/2] ^= 0x10
		return a + ":" + b64(raw)
	}
	creds := []*c06Tok{
		{Kind: "none"},
		{Kind: "garbage", Text: "not-a-token"},
		{Kind: "garbage-b64", Text: "AAAAAAAAAAAAAAAA:AAAAAAAAAAAAAAAAAAAAAAAAAAAAAAAAAAAAAAAA"},
		{Kind: "expired-admin", Text: w.seal("root", true, 660*time.Second)},
		{Kind: "future-admin", Text: w.seal("root", true, -60*time.Second)},
		{Kind: "bitflipped-admin", Text: flip(root)},
		{Kind: "other-instance-admin", Text: other},
		{Kind: "admin-flag-True", Text: func() string {
			_, _, n, c := f.sealToken(fmt.Sprintf("root:True:%d", time.Now().Unix()))
			return c06enc(n, c)
		}()},
		toks["root"], toks["adm2"], toks["alice"], toks["bob"], toks["carl"], toks["Bob"], toks["ROOT"],
		{Kind: "forged-self-sealed-admin-for-bob", Text: w.seal("bob", true, 5*time.Second), User: "bob", Admin: true, Valid: true}, // sealed by the instance key: counts as issued (only the test can do this)
	}
	creds = creds[:len(creds)-1] // (kept out: not an issued token by the property's definition, the factory key is not available to clients)
	targets := []string{"alice", "bob", "root", "adm2", "carl", "ghost", "../x", "", "new-user", "Bob", "ALICE"}
	endpoints := []string{"add", "remove", "update", "set-admin", "list", "list-full"}
	shapes := []string{"valid", "missing-session", "missing-username", "empty-username", "empty-session", "wrong-type-username", "wrong-type-admin", "wrong-type-session", "extra-field", "trailing-garbage", "not-json", "big", "uppercase-keys", "null-fields", "array-body", "empty-body"}
	w.save()
	ncell := 0
	for _, ep := range endpoints {
		for _, cr := range creds {
			for _, tg := range targets {
				if (ep == "list" || ep == "list-full") && tg != "alice" {
					continue
				}
				for si, shape := range shapes {
					// to bound the matrix: non-valid shapes only with a sample of credentials
					if shape != "valid" && !(cr.Kind == "none" || cr.Kind == "session-of-root" || cr.Kind == "session-of-alice" || cr.Kind == "expired-admin") {
						continue
					}
					if shape != "valid" && !(tg == "alice" || tg == "bob" || tg == "ghost") {
						continue
					}
					_ = si
					cid := fmt.Sprintf("%s/%s/%s/%s/%s", id, ep, cr.Kind, tg, shape)
					if !R.Want(cid) {
						continue
					}
					w.cell(cid, ep, cr, tg, shape, "")
					ncell++
				}
			}
		}
	}
	// update with old password / both / neither
	for _, tg := range []string{"alice", "bob", "root", "ghost", "../x", "carl", "bob@example.org", "root@x", "alice@example.org"} {
		for _, op := range []string{"right", "wrong", "empty", "other-users"} {
			for _, cr := range []*c06Tok{{Kind: "none"}, toks["root"], toks["alice"], toks["bob"], toks["Bob"], {Kind: "garbage", Text: "zzz"}} {
				for _, np := range []string{"brand-new-pw", ""} {
					cid := fmt.Sprintf("%s/update-oldpw/%s/%s/%s/new=%v", id, cr.Kind, tg, op, np != "")
					if !R.Want(cid) {
						continue
					}
					w.cellUpdateOldPw(cid, cr, tg, op, np)
					ncell++
				}
			}
		}
	}
	// authenticate
	for _, u := range []string{"alice", "bob", "root", "adm2", "carl", "ghost", "../x", "", "bob@example.org", "root@x", "alice@example.org"} {
		for _, pk := range []string{"right", "wrong", "empty", "other-users"} {
			cid := fmt.Sprintf("%s/authenticate/%s/%s", id, u, pk)
			if R.Want(cid) {
				w.cellAuthenticate(cid, u, pk)
				ncell++
			}
		}
	}
	// concurrent requests: sessions of different identities checked at the same time must not be confused
	w.concurrent(id, toks)
	w.concurrentLogins(id)
	// a subset end-to-end through the real mux of newWebHandler (its own factory)
	w.endToEnd(id)
	R.Count("states", 1)
	R.Count("walk_steps", len(walk))
	if len(R.Samples) < 4 {
		R.Sample(map[string]any{"state": id, "walk": walk, "cells": ncell})
	}
}

func (w *c06World) checkModel(id string) {
	l, err := w.iface.List()
	if err != nil {
		w.R.Violate("c06:list-error", err.Error(), id, nil)
		return
	}
	var got, want []string
	for n, e := range l {
		got = append(got, fmt.Sprintf("%s:%v", n, e.IsAdmin))
	}
	for n, u := range w.model {
		want = append(want, fmt.Sprintf("%s:%v", n, u.Admin))
	}
	sort.Strings(got)
	sort.Strings(want)
	if strings.Join(got, ",") != strings.Join(want, ",") {
		w.R.Violate("c06:state-differs-from-model", fmt.Sprintf("after allowed requests the store holds %v, the model %v", got, want), id, nil)
	}
	for n, u := range w.model {
		if !w.authOK(n, u.Pw) {
			w.R.Violate("c06:state-differs-from-model", "password of "+n+" is not the model's", id, nil)
		}
	}
}

func (w *c06World) body(ep string, cr *c06Tok, tg, shape string) []byte {
	m := map[string]any{}
	if cr.Kind != "none" {
		m["session"] = cr.Text
	}
	if ep != "list" && ep != "list-full" {
		m["username"] = tg
	}
	switch ep {
	case "add":
		m["password"] = "added-pw-1"
		m["admin"] = true
	case "update":
		m["newpassword"] = "updated-pw-1"
	case "set-admin":
		m["admin"] = true
	}
	switch shape {
	case "missing-session":
		delete(m, "session")
	case "missing-username":
		delete(m, "username")
	case "empty-username":
		m["username"] = ""
	case "empty-session":
		m["session"] = ""
	case "wrong-type-username":
		m["username"] = 12345
	case "wrong-type-admin":
		m["admin"] = "true"
	case "wrong-type-session":
		m["session"] = []string{cr.Text}
	case "extra-field":
		m["extra"] = "x"
		m["isadmin"] = true
	case "big":
		m["padding"] = strings.Repeat("x", 1<<20)
	case "null-fields":
		m["username"] = nil
	case "uppercase-keys":
		u := map[string]any{}
		for k, v := range m {
			u[strings.ToUpper(k)] = v
		}
		m = u
	}
	b, _ := json.Marshal(m)
	switch shape {
	case "trailing-garbage":
		b = append(b, []byte(` garbage {"session":"x"}`)...)
	case "not-json":
		b = []byte("session=" + cr.Text + "&username=" + tg)
	case "array-body":
		b = []byte("[" + string(b) + "]")
	case "empty-body":
		b = nil
	}
	return b
}

// shapeClass: "reject" (must be refused whatever the credentials), "asvalid" (if accepted it is judged like the valid body)
func c06ShapeClass(ep, shape string) string {
	switch shape {
	case "valid", "extra-field", "trailing-garbage", "big", "uppercase-keys":
		return "asvalid"
	case "wrong-type-admin":
		if ep == "add" || ep == "set-admin" {
			return "reject"
		}
		return "asvalid"
	case "missing-username", "empty-username", "wrong-type-username", "null-fields":
		if ep == "list" || ep == "list-full" {
			return "asvalid"
		}
		return "reject"
	}
	return "reject"
}

func (w *c06World) cell(cid, ep string, cr *c06Tok, tg, shape, _ string) {
	body := w.body(ep, cr, tg, shape)
	before := w.snap()
	code, m, raw, pan := w.post(w.mux, "/api/"+ep, body)
	after := w.snap()
	diff := ref.Diff(before, after, ref.DiffOpts{IgnorePath: ref.IgnoreTmpDir})
	w.R.Case(cid, !(cr.Kind == "session-of-root" && shape == "valid"))
	w.R.Count("cells", 1)
	w.R.Count("endpoint:"+ep, 1)
	wit := map[string]any{"endpoint": ep, "credential": cr.Kind, "target": tg, "shape": shape, "status": code, "response": vr.Q(raw), "dir_diff": diff, "body": vr.Q(string(body))}
	if pan != "" {
		w.R.Violate("c06:panic:"+ep+":"+cr.Kind, "handler panicked: "+pan, cid, wit)
		w.restore()
		return
	}
	credOK := cr.Valid && cr.Admin
	if ep == "update" {
		credOK = cr.Valid && (cr.Admin || cr.User == tg)
	}
	if shape == "missing-session" || shape == "empty-session" || shape == "wrong-type-session" || shape == "not-json" || shape == "array-body" || shape == "empty-body" {
		credOK = false
	}
	allowed := credOK && c06ShapeClass(ep, shape) == "asvalid"
	if tg == "" && ep != "list" && ep != "list-full" {
		allowed = false // empty-field request
	}
	ok := code == http.StatusOK
	sig := fmt.Sprintf("%s:%s:%s", ep, cr.Kind, shape)
	if !allowed {
		w.R.Count("denied_cells", 1)
		if ok {
			w.R.Violate("c06:unauthorised-request-succeeded:"+sig, fmt.Sprintf("%s with credential %s (target %q, body %s) returned 200", ep, cr.Kind, tg, shape), cid, wit)
		}
		if len(diff) > 0 {
			w.R.Violate("c06:unauthorised-request-changed-store:"+sig, fmt.Sprintf("%s with credential %s changed the store: %v", ep, cr.Kind, diff), cid, wit)
		}
		if l, has := m["list"]; has && l != nil {
			w.R.Violate("c06:unauthorised-request-discloses-list:"+sig, "a refused request carries a user list", cid, wit)
		}
		for n := range w.model {
			if n != tg && n != cr.User && len(n) > 3 && strings.Contains(raw, `"`+n+`"`) {
				w.R.Violate("c06:unauthorised-request-discloses-user:"+sig, "a refused request's response names another user: "+n, cid, wit)
			}
		}
		if len(diff) > 0 {
			w.restore()
		}
		return
	}
	w.R.Count("allowed_cells", 1)
	// allowed: either the model's effect with status 200, or a semantic failure without any change
	_, exists := w.model[tg]
	valid := ref.NameValid(tg)
	expectOK := true
	switch ep {
	case "add":
		expectOK = valid && !exists
	case "update", "set-admin":
		expectOK = valid && exists
	}
	if ok != expectOK {
		w.R.Violate(fmt.Sprintf("c06:authorised-request-status:%s:want-200=%v", ep, expectOK), fmt.Sprintf("%s by %s on %q returned %d", ep, cr.Kind, tg, code), cid, wit)
	}
	if !ok && len(diff) > 0 {
		w.R.Violate("c06:failed-request-changed-store:"+ep, fmt.Sprintf("status %d but the store changed: %v", code, diff), cid, wit)
	}
	if ok {
		// effect must be exactly the model's effect
		want := []string{}
		switch ep {
		case "add":
			want = []string{"created " + tg + ".admin (f)"}
			if !w.authOK(tg, "added-pw-1") {
				w.R.Violate("c06:effect-differs:add", "added user does not authenticate with the given password", cid, wit)
			}
		case "remove":
			if exists && valid {
				ext := ".user"
				if w.model[tg].Admin {
					ext = ".admin"
				}
				want = []string{"deleted " + tg + ext + " (f)"}
			}
		case "update":
			ext := ".user"
			if w.model[tg].Admin {
				ext = ".admin"
			}
			want = []string{"content " + tg + ext}
			if !w.authOK(tg, "updated-pw-1") || w.authOK(tg, w.model[tg].Pw) {
				w.R.Violate("c06:effect-differs:update", "after an allowed update the new password does not work or the old one still does", cid, wit)
			}
		case "set-admin":
			if !w.model[tg].Admin {
				want = []string{"created " + tg + ".admin (f)", "deleted " + tg + ".user (f)"}
			}
		case "list", "list-full":
			lm, _ := m["list"].(map[string]any)
			var got, wantl []string
			for n := range lm {
				got = append(got, n)
			}
			for n := range w.model {
				wantl = append(wantl, n)
			}
			sort.Strings(got)
			sort.Strings(wantl)
			if strings.Join(got, ",") != strings.Join(wantl, ",") {
				w.R.Violate("c06:effect-differs:"+ep, fmt.Sprintf("list returned %v, model has %v", got, wantl), cid, wit)
			}
		}
		sort.Strings(want)
		d2 := append([]string{}, diff...)
		sort.Strings(d2)
		if strings.Join(d2, "|") != strings.Join(want, "|") {
			w.R.Violate("c06:effect-differs:"+ep, fmt.Sprintf("allowed %s on %q changed %v, expected exactly %v", ep, tg, diff, want), cid, wit)
		}
	}
	if len(diff) > 0 {
		w.restore()
	}
}

func (w *c06World) cellUpdateOldPw(cid string, cr *c06Tok, tg, op, np string) {
	m := map[string]any{"username": tg}
	if cr.Kind != "none" {
		m["session"] = cr.Text
	}
	oldpw := ""
	switch op {
	case "right":
		if u := w.model[tg]; u != nil {
			oldpw = u.Pw
		} else {
			oldpw = "whatever"
		}
	case "wrong":
		oldpw = "definitely-wrong"
	case "other-users":
		oldpw = w.model["root"].Pw
		if tg == "root" {
			oldpw = w.model["alice"].Pw
		}
		// for name@realm: the password of the account called name
		if pre, _, cut := strings.Cut(tg, "@"); cut && w.model[pre] != nil {
			oldpw = w.model[pre].Pw
		}
	}
	if oldpw != "" {
		m["oldpassword"] = oldpw
	}
	if np != "" {
		m["newpassword"] = np
	}
	body, _ := json.Marshal(m)
	before := w.snap()
	code, _, raw, pan := w.post(w.mux, "/api/update", body)
	diff := ref.Diff(before, w.snap(), ref.DiffOpts{IgnorePath: ref.IgnoreTmpDir})
	w.R.Case(cid, true)
	w.R.Count("cells", 1)
	wit := map[string]any{"endpoint": "update", "credential": cr.Kind, "target": tg, "oldpassword": op, "newpassword": np != "", "status": code, "response": vr.Q(raw), "dir_diff": diff}
	if pan != "" {
		w.R.Violate("c06:panic:update-oldpw", pan, cid, wit)
		w.restore()
		return
	}
	u := w.model[tg]
	pwRight := u != nil && oldpw != "" && oldpw == u.Pw
	allowed := false
	switch {
	case cr.Kind != "none" && oldpw != "": // both -> ambiguous
	case cr.Kind == "none" && oldpw == "": // neither
	case cr.Kind == "none":
		allowed = pwRight
	default: // session only
		allowed = cr.Valid && (cr.Admin || cr.User == tg) && np != "" && u != nil
	}
	ok := code == 200
	sig := fmt.Sprintf("update:cred=%s:oldpw=%s:newpw=%v", cr.Kind, op, np != "")
	if ok != allowed {
		if ok {
			w.R.Violate("c06:unauthorised-request-succeeded:"+sig, fmt.Sprintf("update of %q returned 200", tg), cid, wit)
		} else {
			w.R.Violate("c06:authorised-request-refused:"+sig, fmt.Sprintf("update of %q returned %d", tg, code), cid, wit)
		}
	}
	changed := len(diff) > 0
	wantChange := allowed && np != ""
	if changed != wantChange {
		w.R.Violate(fmt.Sprintf("c06:store-change-mismatch:%s:changed=%v", sig, changed), fmt.Sprintf("store diff %v", diff), cid, wit)
	}
	if allowed {
		w.R.Count("allowed_cells", 1)
	} else {
		w.R.Count("denied_cells", 1)
	}
	if changed {
		if wantChange && (!w.authOK(tg, np) || w.authOK(tg, u.Pw)) {
			w.R.Violate("c06:effect-differs:update-oldpw", "new password does not work or old one still does", cid, wit)
		}
		w.restore()
	}
}

func (w *c06World) cellAuthenticate(cid, user, pk string) {
	pw := ""
	u := w.model[user]
	switch pk {
	case "right":
		if u != nil {
			pw = u.Pw
		} else {
			pw = "x"
		}
	case "wrong":
		pw = "wrong-password"
	case "other-users":
		pw = w.model["root"].Pw
		if user == "root" {
			pw = w.model["alice"].Pw
		}
		if pre, _, cut := strings.Cut(user, "@"); cut && w.model[pre] != nil {
			pw = w.model[pre].Pw
		}
	}
	body, _ := json.Marshal(map[string]string{"username": user, "password": pw})
	before := w.snap()
	code, m, raw, pan := w.post(w.mux, "/api/authenticate", body)
	diff := ref.Diff(before, w.snap(), ref.DiffOpts{Inode: true, IgnorePath: ref.IgnoreTmpDir})
	w.R.Case(cid, true)
	w.R.Count("cells", 1)
	wit := map[string]any{"endpoint": "authenticate", "user": user, "password": pk, "status": code, "response": vr.Q(raw)}
	if pan != "" {
		w.R.Violate("c06:panic:authenticate", pan, cid, wit)
		return
	}
	right := u != nil && pw != "" && pw == u.Pw
	sess, _ := m["session"].(string)
	if (sess != "") != right || (code == 200) != right {
		w.R.Violate(fmt.Sprintf("c06:session-issuance:right-password=%v:got-session=%v", right, sess != ""), fmt.Sprintf("authenticate(%q) status %d session=%v", user, code, sess != ""), cid, wit)
	}
	if len(diff) > 0 {
		w.R.Violate("c06:authenticate-changed-store", fmt.Sprint(diff), cid, wit)
		w.restore()
	}
	if sess != "" {
		st, _, su, sa := w.f.Check(sess)
		if st != 200 || su != user || (u != nil && sa != u.Admin) {
			w.R.Violate("c06:session-identity", fmt.Sprintf("session for %q (admin=%v) checks as status %d user %q admin %v", user, u != nil && u.Admin, st, su, sa), cid, wit)
		}
		if a, _ := m["admin"].(bool); u != nil && a != u.Admin {
			w.R.Violate("c06:session-identity", "response admin flag differs from the store", cid, wit)
		}
		w.R.Count("sessions_issued", 1)
	}
}

// endToEnd drives a few cells through the mux built by newWebHandler (its own session factory).
func (w *c06World) endToEnd(id string) {
	mux, err := newWebHandler(w.iface)
	if err != nil {
		w.R.Fatal = err.Error()
		return
	}
	login := func(u, p string) string {
		b, _ := json.Marshal(map[string]string{"username": u, "password": p})
		_, m, _, _ := w.post(mux, "/api/authenticate", b)
		s, _ := m["session"].(string)
		return s
	}
	rs := login("root", w.model["root"].Pw)
	as := login("alice", w.model["alice"].Pw)
	if rs == "" || as == "" {
		w.R.Violate("c06:e2e-login", "login through newWebHandler failed", id, nil)
		return
	}
	foreign := w.login("root", w.model["root"].Pw) // token of the test-owned factory: another instance for this mux
	type c struct {
		ep, sess, tg string
		want         bool
	}
	aliceAdmin := w.model["alice"].Admin
	for _, x := range []c{{"list", rs, "", true}, {"list", as, "", aliceAdmin}, {"list", foreign, "", false}, {"list-full", as, "", aliceAdmin}, {"add", as, "e2e-new", aliceAdmin}, {"remove", as, "bob", aliceAdmin}, {"set-admin", as, "alice", aliceAdmin}, {"set-admin", foreign, "alice", false}, {"update", as, "bob", aliceAdmin}, {"update", as, "alice", true}, {"add", rs, "e2e-new2", true}} {
		m := map[string]any{"session": x.sess, "username": x.tg, "password": "e2e-pw", "newpassword": "e2e-newpw", "admin": false}
		if x.ep == "set-admin" {
			m["admin"] = aliceAdmin
		}
		b, _ := json.Marshal(m)
		before := w.snap()
		code, mm, raw, pan := w.post(mux, "/api/"+x.ep, b)
		diff := ref.Diff(before, w.snap(), ref.DiffOpts{IgnorePath: ref.IgnoreTmpDir})
		cid := fmt.Sprintf("%s/e2e/%s/%s", id, x.ep, x.tg)
		w.R.Case(cid, true)
		w.R.Count("e2e_cells", 1)
		wit := map[string]any{"endpoint": x.ep, "target": x.tg, "status": code, "response": vr.Q(raw), "diff": diff}
		if pan != "" {
			w.R.Violate("c06:panic:e2e", pan, cid, wit)
		}
		if (code == 200) != x.want {
			w.R.Violate(fmt.Sprintf("c06:e2e:%s:want-200=%v", x.ep, x.want), fmt.Sprintf("status %d", code), cid, wit)
		}
		if !x.want && (len(diff) > 0 || mm["list"] != nil) {
			w.R.Violate("c06:e2e:refused-request-had-effect:"+x.ep, fmt.Sprint(diff), cid, wit)
		}
		if len(diff) > 0 {
			w.restore()
		}
	}
}

// concurrent: an admin session and ordinary-user sessions (same plaintext length) are used in parallel;
// an ordinary user's request must never be served with the admin's rights or another user's identity.
func (w *c06World) concurrent(id string, toks map[string]*c06Tok) {
	// fresh sessions sealed for equal-length plaintexts: "root:true:TS" / "bob:false:TS" / "Bob:false:TS"
	admin := toks["root"]
	var ord []*c06Tok
	for _, n := range []string{"bob", "Bob", "alice", "carl"} {
		if t := toks[n]; t != nil && t.Valid && !t.Admin {
			ord = append(ord, t)
		}
	}
	if admin == nil || len(ord) == 0 {
		return
	}
	w.save()
	var wg sync.WaitGroup
	var mu sync.Mutex
	leaks, changed, total := 0, 0, 0
	first := ""
	stop := int32(0)
	for g := 0; g < 4; g++ { // admin traffic
		wg.Add(1)
		go func() {
			defer wg.Done()
			for atomic.LoadInt32(&stop) == 0 {
				b, _ := json.Marshal(map[string]any{"session": admin.Text})
				w.post(w.mux, "/api/list", b)
			}
		}()
	}
	rounds := vr.Pick(1500, 15000)
	for g := 0; g < 8; g++ {
		wg.Add(1)
		go func(g int) {
			defer wg.Done()
			t := ord[g%len(ord)]
			victim := "root"
			for i := 0; i < rounds; i++ {
				var code int
				var m map[string]any
				if i%2 == 0 {
					b, _ := json.Marshal(map[string]any{"session": t.Text})
					code, m, _, _ = w.post(w.mux, "/api/list", b)
				} else {
					b, _ := json.Marshal(map[string]any{"session": t.Text, "username": victim, "newpassword": "taken-over-pw"})
					code, m, _, _ = w.post(w.mux, "/api/update", b)
				}
				mu.Lock()
				total++
				if code == 200 || m["list"] != nil {
					leaks++
					if first == "" {
						first = fmt.Sprintf("session of ordinary user %s: request %d got status %d", t.User, i%2, code)
					}
				}
				mu.Unlock()
			}
		}(g)
	}
	go func() {
		// the admin goroutines stop when the ordinary ones are done
	}()
	done := make(chan struct{})
	go func() { wg.Wait(); close(done) }()
	for {
		mu.Lock()
		n := total
		mu.Unlock()
		if n >= 8*rounds {
			atomic.StoreInt32(&stop, 1)
			break
		}
		time.Sleep(5 * time.Millisecond)
	}
	<-done
	if !w.authOK("root", w.model["root"].Pw) {
		changed++
	}
	w.R.Case(id+"/concurrent", true)
	w.R.Count("concurrent_requests", total)
	if leaks > 0 || changed > 0 {
		w.R.Violate("c06:concurrent-sessions-confused", fmt.Sprintf("%d of %d requests carrying an ordinary user's session succeeded on admin-only operations while an admin session was in use concurrently (root's password changed: %v); first: %s", leaks, total, changed > 0, first), id+"/concurrent", nil)
		w.restore()
	}
}

// concurrentLogins: wrong-password logins of ordinary users (and of an unknown user) run while administrators log in
// with the right password. A session is issued only for a successful password authentication and names that user and
// that user's admin status: no wrong-password login may ever come back with a session, and every session that is
// issued must check out as exactly the user who asked for it.
func (w *c06World) concurrentLogins(id string) {
	type cred struct {
		user, pw string
		right    bool
		admin    bool
	}
	var admins, others []cred
	for n, u := range w.model {
		if !utf8.ValidString(n) || !utf8.ValidString(u.Pw) || u.Pw == "" {
			continue
		}
		if u.Admin {
			admins = append(admins, cred{n, u.Pw, true, true})
		} else {
			others = append(others, cred{n, u.Pw + "-wrong", false, false}, cred{n, u.Pw, true, false})
		}
	}
	others = append(others, cred{"ghost", "x", false, false})
	if len(admins) == 0 || len(others) < 2 {
		return
	}
	sort.Slice(admins, func(i, j int) bool { return admins[i].user < admins[j].user })
	sort.Slice(others, func(i, j int) bool { return others[i].user+others[i].pw < others[j].user+others[j].pw })
	w.save()
	var wg sync.WaitGroup
	var mu sync.Mutex
	total, wrongGotSession, confused := 0, 0, 0
	first := ""
	rounds := vr.Pick(400, 1500)
	login := func(c cred) {
		b, _ := json.Marshal(map[string]string{"username": c.user, "password": c.pw})
		code, m, _, _ := w.post(w.mux, "/api/authenticate", b)
		sess, _ := m["session"].(string)
		mu.Lock()
		defer mu.Unlock()
		total++
		if !c.right {
			if code == 200 || sess != "" {
				wrongGotSession++
				if first == "" {
					first = fmt.Sprintf("login of %q with a wrong password got status %d and session %q", c.user, code, sess)
				}
			}
			return
		}
		if sess != "" {
			if st, _, who, adm := w.f.Check(sess); st != http.StatusOK || who != c.user || adm != c.admin {
				confused++
				if first == "" {
					first = fmt.Sprintf("the session issued to %q (admin=%v) checks out as %q admin=%v (status %d)", c.user, c.admin, who, adm, st)
				}
			}
		}
	}
	for g := 0; g < 4; g++ {
		wg.Add(1)
		go func(g int) {
			defer wg.Done()
			for i := 0; i < rounds; i++ {
				login(admins[(g+i)%len(admins)])
			}
		}(g)
	}
	for g := 0; g < 8; g++ {
		wg.Add(1)
		go func(g int) {
			defer wg.Done()
			for i := 0; i < rounds; i++ {
				login(others[(g+i)%len(others)])
			}
		}(g)
	}
	wg.Wait()
	w.R.Case(id+"/concurrent-logins", true)
	w.R.Count("concurrent_logins", total)
	if wrongGotSession > 0 || confused > 0 {
		w.R.Violate("c06:concurrent-logins-confused", fmt.Sprintf("of %d logins in flight together, %d with a wrong password were answered with a session and %d sessions name someone else than the user who logged in; first: %s", total, wrongGotSession, confused, first), id+"/concurrent-logins", nil)
		w.restore()
	}
}
