package main

import (
	"bufio"
	"fmt"
	"io"
	"net"
	"net/http"
	"path/filepath"
	"strings"
	"sync"
	"sync/atomic"
	"testing"
	"time"

	"github.com/glauth/ldap"
	"github.com/whawty/auth/sasl"
	"github.com/whawty/auth/zz_verif/ref"
	"github.com/whawty/auth/zz_verif/vr"
)

// TestVerifC10Hostile: clients that are hostile by timing rather than by volume.
//
// Phase "login-stream": a few clients log in again as soon as they are answered, for as long as the phase lasts, so the
// login queue is never empty; meanwhile every other kind of request is issued once in a while. Bounded progress, decided
// on logical events: a request that is still unanswered after 1500 logins which were *issued after it* have been
// answered is starved (with Go's select choosing among ready channels at random the chance of being passed over that
// often by accident is 2^-1500).
//
// Phase "stalled-clients": 100 connections per listener (saslauthd socket, HTTP, LDAP) that have sent the first bytes of
// a request and then nothing. Logins of well-behaved clients on every listener must still be answered, and the stalled
// ones are answered once they complete their request. An unanswered probe is reported only as a proved block: the
// listener's accept loop is found, in two goroutine dumps one second apart, somewhere else than in Accept.
func TestVerifC10Hostile(t *testing.T) {
	R := vr.New("C10", "hostile-clients", "clients hostile by timing: (login-stream) 3-6 clients that log in again the moment they are answered keep the login queue non-empty while add/update/set-admin/remove/list/list-full/check requests are issued one at a time - each of those must be answered before 1500 logins issued after it have been answered (logical bound, no clock); (stalled-clients) 100 connections per listener that stop after the first bytes of a request - logins of other clients on the saslauthd socket, HTTP and LDAP must still be answered, an unanswered one counts only with a proved block of the accept loop (two goroutine dumps), and every stalled client is answered once it completes its request. Non-trivial: every request issued while the login stream ran / every probe issued while the connections were stalled; distinct by phase, kind and index")
	defer R.Write()
	rng := R.Rand("c10b")
	dir := ovlWork("c10b")
	sets := ref.CheapSets(rng, 2)
	users := []ovlUser{{Name: "root", Pw: "rootpw", Admin: true, Set: 1}}
	for i := 0; i < 8; i++ {
		users = append(users, ovlUser{Name: fmt.Sprintf("u%d", i), Pw: fmt.Sprintf("pw%d", i), Set: 1})
	}
	st := ovlMkStore(rng, dir, sets, 1, users)
	for _, mode := range []string{"", "local"} {
		s, err := NewStore(st.Cfg, mode, "", "", "")
		if err != nil {
			R.Fatal = "NewStore: " + err.Error()
			return
		}
		iface := s.GetInterface()
		c10Current = fmt.Sprintf("%p", s)
		if R.Want("login-stream/" + mode) {
			R.Mark("login-stream/" + mode)
			c10LoginStream(R, iface, mode, dir)
		}
		if mode == "" && R.Want("stalled-clients") {
			R.Mark("stalled-clients")
			c10Stalled(R, iface, dir)
		}
	}
}

func c10LoginStream(R *vr.Result, iface *Store, mode, dir string) {
	const bound = 1500
	sock := filepath.Join(dir, "ls-"+mode+".sock")
	stop := ovlSasl(sock, iface)
	defer stop()
	var issued, answered int64 // logins
	var quit int32
	var wg sync.WaitGroup
	nclients := 3 + len(mode)%4
	for c := 0; c < nclients; c++ {
		wg.Add(1)
		go func(c int) {
			defer wg.Done()
			u, p := fmt.Sprintf("u%d", c), fmt.Sprintf("pw%d", c)
			for atomic.LoadInt32(&quit) == 0 {
				atomic.AddInt64(&issued, 1)
				if c == 0 {
					sasl.NewClient(sock).Auth(u, p, "svc", "") //nolint:errcheck
				} else {
					iface.Authenticate(u, p) //nolint:errcheck
				}
				atomic.AddInt64(&answered, 1)
			}
		}(c)
	}
	for atomic.LoadInt64(&answered) < 100 { // the stream is running
		time.Sleep(time.Millisecond)
	}
	type op struct {
		kind string
		f    func() error
	}
	ops := []op{
		{"update", func() error { return iface.Update("u7", "pw7") }},
		{"list", func() error { _, e := iface.List(); return e }},
		{"add", func() error { return iface.Add("tmp-"+mode, "pw", false) }},
		{"set-admin", func() error { return iface.SetAdmin("tmp-"+mode, true) }},
		{"list-full", func() error { _, e := iface.ListFull(); return e }},
		{"check", func() error { return iface.Check() }},
		{"remove", func() error { return iface.Remove("tmp-" + mode) }},
	}
	rounds := vr.Pick(6, 30)
	maxOvertaken := int64(0)
	starved := false
	for r := 0; r < rounds && !starved; r++ {
		for _, o := range ops {
			// logins issued from now on are "issued after" the request: everything counted before is discounted
			issuedBefore := atomic.LoadInt64(&issued)
			done := make(chan error, 1)
			go func() { done <- o.f() }()
			var overtaken int64
		wait:
			for {
				select {
				case <-done:
					break wait
				case <-time.After(2 * time.Millisecond):
				}
				// logins answered so far minus all logins that had been issued before the request was: a lower bound of the
				// number of logins that were issued after the request and have already been answered
				overtaken = atomic.LoadInt64(&answered) - issuedBefore
				if overtaken >= bound {
					starved = true
					break wait
				}
			}
			if overtaken > maxOvertaken {
				maxOvertaken = overtaken
			}
			R.Case(fmt.Sprintf("login-stream|%s|%s|%d", mode, o.kind, r), true)
			R.Count("requests_during_login_stream", 1)
			if starved {
				// is it answered once the stream stops? (tells a starved request from a lost one; both are violations)
				atomic.StoreInt32(&quit, 1)
				after := "answered once the login stream had stopped"
				select {
				case <-done:
				case <-time.After(20 * time.Second):
					after = "still unanswered 20 s after the login stream had stopped"
				}
				R.Violate("c10:request-starved-by-login-stream:"+o.kind, fmt.Sprintf("a %s request was still unanswered when %d logins that had been issued after it had been answered (%d clients logging in again as soon as they are answered, upgrades %q); %s - a steady stream of logins keeps every other request (and reloads) waiting for ever", o.kind, overtaken, nclients, mode, after), "login-stream/"+mode,
					map[string]any{"kind": o.kind, "round": r, "logins_issued_after_the_request_and_answered_before_it": overtaken, "login_clients": nclients, "dispatcher": c10DispatcherBrief()})
				break
			}
		}
	}
	atomic.StoreInt32(&quit, 1)
	wg.Wait()
	R.Count("stream_logins_answered", int(atomic.LoadInt64(&answered)))
	R.Set("max_later_logins_answered_before_a_request:"+mode, maxOvertaken)
}

func c10DispatcherBrief() string {
	desc, _, where, _ := ovlDispatcherState(ovlDump(), 0)
	return desc + " " + where
}

// c10AcceptLoop finds the goroutine running fn (a frame-name fragment) and says whether it waits in Accept.
func c10AcceptLoop(gs []ovlGoroutine, fn string) (found, inAccept bool, where string) {
	for _, g := range gs {
		idx := -1
		for i, f := range g.Frames {
			if strings.Contains(f, fn) {
				idx = i
				break
			}
		}
		if idx < 0 {
			continue
		}
		found = true
		below := g.Frames[:idx]
		acc := false
		for _, f := range below {
			if strings.Contains(f, "Accept") || strings.Contains(f, "accept") {
				acc = true
			}
		}
		top := ""
		if len(g.Frames) > 0 {
			top = g.Frames[0]
		}
		where = g.State + " in " + top
		if len(below) > 0 {
			where += " below " + below[len(below)-1]
		}
		if acc && (g.State == "IO wait" || g.State == "runnable" || g.State == "running" || g.State == "syscall") {
			return true, true, where
		}
		if g.State == "runnable" || g.State == "running" || g.State == "syscall" {
			return true, true, where // busy, not blocked
		}
		return true, false, where
	}
	return false, false, ""
}

func c10Stalled(R *vr.Result, iface *Store, dir string) {
	nstall := vr.Pick(100, 300) // per listener
	// listeners owned by the test, served by the agent's own functions
	sock := filepath.Join(dir, "stall.sock")
	stop := ovlSasl(sock, iface)
	defer stop()
	hl, err := net.Listen("tcp", "127.0.0.1:0")
	if err != nil {
		R.Fatal = err.Error()
		return
	}
	ll, err := net.Listen("tcp", "127.0.0.1:0")
	if err != nil {
		R.Fatal = err.Error()
		return
	}
	go runHTTPListener(hl.(*net.TCPListener), &httpConfig{}, iface) //nolint:errcheck
	go runLDAPListener(ll.(*net.TCPListener), &ldapConfig{}, iface) //nolint:errcheck
	defer hl.Close()                                                //nolint:errcheck
	defer ll.Close()                                                //nolint:errcheck
	time.Sleep(100 * time.Millisecond)
	saslReq, _ := (&sasl.Request{Login: "u1", Password: "pw1", Service: "svc", Realm: ""}).Marshal()
	httpReq := []byte("GET /basic-auth HTTP/1.1\r\nHost: x\r\nAuthorization: Basic dTE6cHcx\r\nConnection: close\r\n\r\n") // u1:pw1
	// an LDAP simple bind of u1 / pw1, message id 1
	ldapReq := []byte{0x30, 0x11, 0x02, 0x01, 0x01, 0x60, 0x0c, 0x02, 0x01, 0x03, 0x04, 0x02, 'u', '1', 0x80, 0x03, 'p', 'w', '1'}
	type stalled struct {
		fe   string
		conn net.Conn
		rest []byte
	}
	var held []stalled
	stallStart := time.Now()
	for i := 0; i < nstall; i++ {
		for _, x := range []struct {
			fe, network, addr string
			req               []byte
			cut               int
		}{{"sasl", "unix", sock, saslReq, 3}, {"http", "tcp", hl.Addr().String(), httpReq, 30}, {"ldap", "tcp", ll.Addr().String(), ldapReq, 3}} {
			c, err := net.Dial(x.network, x.addr)
			if err != nil {
				R.Fatal = "dial " + x.fe + ": " + err.Error()
				return
			}
			c.Write(x.req[:x.cut]) //nolint:errcheck
			held = append(held, stalled{x.fe, c, x.req[x.cut:]})
		}
	}
	defer func() {
		for _, h := range held {
			h.conn.Close() //nolint:errcheck
		}
	}()
	R.Count("stalled_connections", len(held))
	time.Sleep(300 * time.Millisecond) // the agent has accepted what it is going to accept
	probe := func(fe string) string {
		switch fe {
		case "sasl":
			ok, _, err := sasl.NewClient(sock).Auth("u2", "pw2", "svc", "")
			if err != nil {
				return "error:" + err.Error()
			}
			return fmt.Sprint(ok)
		case "http":
			req, _ := http.NewRequest("GET", "http://"+hl.Addr().String()+"/basic-auth", nil)
			req.SetBasicAuth("u2", "pw2")
			resp, err := (&http.Client{Transport: &http.Transport{DisableKeepAlives: true}}).Do(req)
			if err != nil {
				return "error:" + err.Error()
			}
			resp.Body.Close() //nolint:errcheck
			return fmt.Sprint(resp.StatusCode == 200)
		default:
			c, err := ldap.DialTimeout("tcp", ll.Addr().String(), 10*time.Second)
			if err != nil {
				return "error:" + err.Error()
			}
			defer c.Close()
			return fmt.Sprint(c.Bind("u2", "pw2") == nil)
		}
	}
	loops := map[string]string{"sasl": "sasl.(*Server).Run", "http": "net/http.(*Server).Serve", "ldap": "ldap.(*Server).Serve"}
	for _, fe := range []string{"sasl", "http", "ldap"} {
		for k := 0; k < 3; k++ {
			R.Case(fmt.Sprintf("stalled|probe|%s|%d", fe, k), true)
			R.Count("probes_while_clients_stalled:"+fe, 1)
			res := make(chan string, 1)
			go func() { res <- probe(fe) }()
			select {
			case v := <-res:
				if v != "true" {
					R.Violate("c10:login-fails-while-other-clients-stall:"+fe, fmt.Sprintf("a login on the %s listener got %q while %d other connections are stalled in the middle of their request", fe, v, nstall), "stalled-clients", nil)
				}
				continue
			case <-time.After(15 * time.Second):
			}
			// unanswered: where is the accept loop?
			f1, a1, w1 := c10AcceptLoop(ovlDump(), loops[fe])
			time.Sleep(time.Second)
			f2, a2, w2 := c10AcceptLoop(ovlDump(), loops[fe])
			select {
			case <-res:
				R.Inconcl("probe on " + fe + " answered late (loaded machine)")
				continue
			default:
			}
			if f1 && f2 && !a1 && !a2 {
				R.Violate("c10:accept-loop-blocked-by-stalled-clients:"+fe, fmt.Sprintf("%d connections on the %s listener have sent the first bytes of a request and nothing more; a login of another client has not been answered for 16 s and the listener's accept loop is not accepting: %s / %s - clients that are slow to send their request keep every other client of this listener waiting for as long as they like", nstall, fe, w1, w2), "stalled-clients", map[string]any{"frontend": fe, "accept_loop_dump1": w1, "accept_loop_dump2": w2})
			} else {
				R.Inconcl(fmt.Sprintf("probe on %s unanswered after 16 s, accept loop: found=%v/%v accepting=%v/%v %s", fe, f1, f2, a1, a2, w2))
			}
			break
		}
	}
	// every stalled client is answered once it completes its request (the HTTP server gives a client 60 s for its
	// request: if the probes above took long, those connections are legitimately gone and nothing is asserted for them)
	httpTooLate := time.Since(stallStart) > 35*time.Second
	var wg sync.WaitGroup
	var answeredStalled int64
	for i := range held {
		h := held[i]
		wg.Add(1)
		go func() {
			defer wg.Done()
			h.conn.SetDeadline(time.Now().Add(60 * time.Second)) //nolint:errcheck
			h.conn.Write(h.rest)                                 //nolint:errcheck
			ok := false
			switch h.fe {
			case "sasl":
				b, _ := io.ReadAll(h.conn)
				ok = len(b) >= 4 && string(b[2:4]) == "OK"
			case "http":
				resp, err := http.ReadResponse(bufio.NewReader(h.conn), nil)
				ok = err == nil && resp.StatusCode == 200
			default:
				b := make([]byte, 64)
				n, _ := h.conn.Read(b)
				// bind response: 30 0c 02 01 01 61 07 0a 01 <code> ...
				ok = n >= 10 && b[5] == 0x61 && b[9] == 0x00
			}
			if ok {
				atomic.AddInt64(&answeredStalled, 1)
			} else if h.fe == "http" && httpTooLate {
				R.Count("stalled_http_clients_past_the_servers_read_timeout", 1)
			} else {
				R.Count("stalled_client_not_answered:"+h.fe, 1)
			}
		}()
	}
	wg.Wait()
	R.Count("stalled_clients_answered_after_completing", int(answeredStalled))
	for _, fe := range []string{"sasl", "http", "ldap"} {
		if n := R.Get("stalled_client_not_answered:" + fe); n > 0 {
			R.Violate("c10:stalled-client-never-answered:"+fe, fmt.Sprintf("%d of %d clients of the %s listener that completed their request after a pause got no (positive) answer within 60 s", n, nstall, fe), "stalled-clients", nil)
		}
	}
}
