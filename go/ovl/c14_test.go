package main

import (
	"fmt"
	"os"
	"path/filepath"
	"strings"
	"testing"
	"time"

	"github.com/whawty/auth/zz_verif/ref"
	"github.com/whawty/auth/zz_verif/vr"
)

// TestVerifC14Agent: records written by a long-running agent follow the configuration it has loaded last.
func TestVerifC14Agent(t *testing.T) {
	R := vr.New("C14", "agent-after-reload", "an in-process agent whose configuration file is rewritten (alternately another default among the same parameter sets, and other values - cost / HMAC key / time / length - inside the unchanged default set) and reloaded by SIGHUP several times; after each reload add, update (own record and another user's) and a login-triggered upgrade write records, each of which must be a strict schema record that names the default configured NOW, carries the current time and whose digest the reference implementation reproduces from the password, the stored salt and that set's parameters. Non-trivial: every record written after a reload; distinct by (default before, default after, operation)")
	defer R.Write()
	rng := R.Rand("c14a")
	verifSetLogging(true)
	defer verifSetLogging(false)
	dir := ovlWork("c14a")
	sets := ref.CheapSets(rng, 4)
	sm := ref.SetMap(sets)
	st := ovlMkStore(rng, dir, sets, 1, []ovlUser{{Name: "root", Pw: "rootpw", Admin: true, Set: 1}})
	ag, err := NewStore(st.Cfg, "local", "", "", "")
	if err != nil {
		R.Fatal = err.Error()
		return
	}
	iface := ag.GetInterface()
	iface.Check() //nolint:errcheck (the dispatcher runs and has installed its signal handler)
	def := uint(1)
	n := 0
	check := func(id, op, user, pw string, t0 int64) {
		var data []byte
		for _, ext := range []string{".user", ".admin"} {
			if b, err := os.ReadFile(filepath.Join(st.Base, user+ext)); err == nil {
				data = b
			}
		}
		R.Case(id+"|"+op, true)
		R.Count("records_after_reload", 1)
		wit := map[string]any{"default_now": def, "operation": op, "user": user, "file": vr.Q(string(data))}
		rec, ok := ref.ParseStrict(data)
		switch {
		case !ok:
			R.Violate("c14:agent:record-not-strict:"+op, "the record written is not a strict schema record", id, wit)
		case rec.ID != def || rec.Algo != sm[def].Algo:
			R.Violate("c14:agent:record-names-other-set-after-reload:"+op, fmt.Sprintf("the agent's configuration now has default %d (%s) but the record written by %s names set %d (%s)", def, sm[def].Algo, op, rec.ID, rec.Algo), id, wit)
		case !ref.MustAccept(sm, data, []byte(pw)):
			R.Violate("c14:agent:digest-differs-after-reload:"+op, "the reference implementation does not reproduce the digest from the password, the stored salt and the default set's parameters", id, wit)
		case rec.Time < t0 || rec.Time > time.Now().Unix():
			R.Violate("c14:agent:timestamp-after-reload:"+op, fmt.Sprintf("time stamp %d outside [%d, now]", rec.Time, t0), id, wit)
		}
	}
	for round := 0; round < vr.Pick(6, 40); round++ {
		prev := def
		id := ""
		if round%2 == 0 {
			for def == prev {
				def = uint(1 + rng.Intn(4))
			}
			id = fmt.Sprintf("r%d/%d-to-%d", round, prev, def)
		} else {
			// same base directory, same default, same ids and algorithms: only a value inside the default set changes
			ps := &sets[def-1]
			if ps.Algo == ref.AlgoScrypt {
				ps.Cost = ps.Cost%5 + 1
				ps.HmacKey = append([]byte{}, ps.HmacKey...)
				ps.HmacKey[0] ^= 0x55
			} else {
				ps.Time = ps.Time%3 + 1
				ps.Length = []uint32{16, 24, 32, 48}[rng.Intn(4)]
			}
			sm = ref.SetMap(sets)
			st.Sets = sets
			id = fmt.Sprintf("r%d/values-of-set-%d", round, def)
			R.Count("reloads_changing_only_values", 1)
		}
		st.Def = def
		R.Mark(id)
		if !c18Reload(st.Cfg, ref.YAML(st.Base, def, sets)) {
			R.Inconcl("reload event not seen: " + id)
			continue
		}
		iface.Check() //nolint:errcheck (behind the reload)
		n++
		u := fmt.Sprintf("u%d", n)
		t0 := time.Now().Unix()
		if err := iface.Add(u, "added-"+u, n%2 == 0); err != nil {
			R.Violate("c14:agent:add-failed-after-reload", err.Error(), id, nil)
			continue
		}
		check(id, "add", u, "added-"+u, t0)
		t0 = time.Now().Unix()
		if err := iface.Update(u, "updated-"+u); err == nil {
			check(id, "update", u, "updated-"+u, t0)
		}
		t0 = time.Now().Unix()
		if err := iface.Update("root", fmt.Sprintf("rootpw-%d", n)); err == nil {
			check(id, "update-admin", "root", fmt.Sprintf("rootpw-%d", n), t0)
		}
		// a record of the previous default is now upgradeable: a login rewrites it under the new default
		if n > 1 {
			old := fmt.Sprintf("u%d", n-1)
			// the record to be upgraded was written long ago (only its time field is rewritten here)
			for _, ext := range []string{".user", ".admin"} {
				fp := filepath.Join(st.Base, old+ext)
				if b, err := os.ReadFile(fp); err == nil {
					if f := strings.SplitN(string(b), ":", 3); len(f) == 3 {
						os.WriteFile(fp, []byte(f[0]+":"+fmt.Sprint(time.Now().Unix()-90*86400)+":"+f[2]), 0600) //nolint:errcheck
					}
				}
			}
			t0 = time.Now().Unix()
			if ok, _, _, _ := iface.Authenticate(old, "updated-"+old); ok {
				iface.Update("zz-barrier", "x") //nolint:errcheck (FIFO barrier: the queued upgrade has run)
				check(id, "login-upgrade", old, "updated-"+old, t0)
			}
		}
	}
	R.Sample(map[string]any{"sets": len(sets), "final_default": def})
}
