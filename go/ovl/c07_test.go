package main

import (
	"bytes"
	"encoding/base64"
	"fmt"
	"net/http"
	"strings"
	"sync"
	"testing"
	"time"

	"github.com/whawty/auth/zz_verif/ref"
	"github.com/whawty/auth/zz_verif/vr"
)

type c07Issued struct {
	Text  string
	Nonce []byte
	Ct    []byte
	User  string
	Admin bool
}

// c07Decode is the lenient reference decoder: any base64 alphabet/padding, CR/LF ignored.
func c07Decode(text string) (variants [][2][]byte) {
	a, b, ok := strings.Cut(text, ":")
	if !ok {
		return nil
	}
	dec := func(s string) [][]byte {
		s = strings.NewReplacer("\r", "", "\n", "").Replace(s)
		var out [][]byte
		for _, e := range []*base64.Encoding{base64.URLEncoding, base64.RawURLEncoding, base64.StdEncoding, base64.RawStdEncoding} {
			if v, err := e.DecodeString(s); err == nil {
				out = append(out, v)
			}
		}
		return out
	}
	for _, n := range dec(a) {
		for _, c := range dec(b) {
			variants = append(variants, [2][]byte{n, c})
		}
	}
	return
}

type c07Mon struct {
	R      *vr.Result
	issued map[string]*c07Issued // key nonce||ct
}

func (m *c07Mon) key(n, c []byte) string { return string(n) + "\x00|\x00" + string(c) }

func (m *c07Mon) issue(f *webSessionFactory, user string, admin bool) *c07Issued {
	st, e, tok := f.Generate(user, admin)
	if st != http.StatusOK {
		m.R.Violate("c07:generate-failed", e, "", user)
		return nil
	}
	v := c07Decode(tok)
	if len(v) == 0 {
		m.R.Violate("c07:token-format", "issued token is not nonce ':' ciphertext in base64: "+tok, "", nil)
		return nil
	}
	is := &c07Issued{Text: tok, Nonce: v[0][0], Ct: v[0][1], User: user, Admin: admin}
	m.issued[m.key(is.Nonce, is.Ct)] = is
	return is
}

// present checks one presented string against the monitor's rules. fresh says
// that all issued tokens are well inside their lifetime.
func (m *c07Mon) present(f *webSessionFactory, text, class, id string) {
	var st int
	var user string
	var admin bool
	pan := vr.Safe(func() { st, _, user, admin = f.Check(text) })
	m.R.Count("presented", 1)
	m.R.Count("class:"+class, 1)
	var match *c07Issued
	for _, v := range c07Decode(text) {
		if is := m.issued[m.key(v[0], v[1])]; is != nil {
			match = is
		}
	}
	m.R.Case(text, match == nil || text != match.Text)
	wit := map[string]any{"class": class, "presented": vr.Q(text)}
	if pan != "" {
		m.R.Violate("c07:panic:check:"+class, "webSessionFactory.Check panicked: "+pan, id, wit)
		return
	}
	accepted := st == http.StatusOK
	if accepted {
		m.R.Count("accepted", 1)
		if match == nil {
			m.R.Violate("c07:accepted-unissued:"+class, fmt.Sprintf("a string that decodes to no issued (nonce, ciphertext) pair was accepted as user %q admin=%v", user, admin), id, wit)
		} else if user != match.User || admin != match.Admin {
			m.R.Violate("c07:identity-differs:"+class, fmt.Sprintf("token issued for (%q, admin=%v) accepted as (%q, admin=%v)", match.User, match.Admin, user, admin), id, wit)
		}
	} else if match != nil && text == match.Text && !strings.Contains(match.User, ":") {
		m.R.Violate("c07:rejected-issued:"+class, fmt.Sprintf("an unmodified token issued moments ago was rejected with status %d", st), id, wit)
	}
}

func TestVerifC07(t *testing.T) {
	R := vr.New("C07", "tokens", "tokens issued for user names using every grammar character (and hostile names with ':'), both admin flags; presented strings: every single-bit flip of nonce||ciphertext, every single-character substitution of the text by every base64url character, '=' and ':', all nonce/ciphertext splices between distinct tokens, all prefix/suffix truncations, extensions by 1..64 bytes, tokens of a second factory and of a factory created after restart, chosen plaintexts sealed with the factory's own AEAD (ages around the lifetime incl. issue times within one second of the edge judged by a nanosecond clock bracket, future dates, lenient admin flags, 2 and 4 fields, non-numeric time); nonce uniqueness over sequential and 16-way concurrent issuance. Non-trivial: presented string differs from every issued token text; distinct by presented string")
	defer R.Write()
	rng := R.Rand("c07")
	life := 600 * time.Second
	f, err := NewWebSessionFactory(life)
	if err != nil {
		R.Fatal = err.Error()
		return
	}
	m := &c07Mon{R: R, issued: map[string]*c07Issued{}}
	names := []string{"a", "Z", "0", "abcdefghijklmnopqrstuvwxyz", "ABCDEFGHIJKLMNOPQRSTUVWXYZ", "0123456789", "u-_.@x", "x@y.z", "a.user", strings.Repeat("n", 200), "true", "false"}
	for i := 0; i < vr.Pick(4, 30); i++ {
		names = append(names, ref.ValidName(rng))
	}
	hostile := []string{"eve:true", "eve:true:1", "a:false", ":", "a:", ":true", "x:true:9999999999", "", "a\nb", "ü"}
	var toks []*c07Issued
	for _, n := range append(append([]string{}, names...), hostile...) {
		for _, adm := range []bool{false, true} {
			if is := m.issue(f, n, adm); is != nil {
				toks = append(toks, is)
				m.present(f, is.Text, "unmodified", "unmodified/"+n)
				if len(is.Nonce) != 12 {
					R.Violate("c07:nonce-length", fmt.Sprintf("nonce has %d bytes, want 12 (96 bit)", len(is.Nonce)), "", is.Text)
				}
			}
		}
	}
	enc := func(n, c []byte) string {
		return base64.URLEncoding.EncodeToString(n) + ":" + base64.URLEncoding.EncodeToString(c)
	}
	nFull := vr.Pick(6, len(toks))
	for ti, is := range toks {
		full := ti < nFull
		// single-bit flips of the decoded content
		raw := append(append([]byte{}, is.Nonce...), is.Ct...)
		for bit := 0; bit < len(raw)*8; bit++ {
			if !full && bit%13 != 0 {
				continue
			}
			b := append([]byte{}, raw...)
			b[bit/8] ^= 1 << uint(bit%8)
			m.present(f, enc(b[:len(is.Nonce)], b[len(is.Nonce):]), "bitflip", fmt.Sprintf("t%d/bit%d", ti, bit))
		}
		// single-character substitutions of the text
		const alpha = "ABCDEFGHIJKLMNOPQRSTUVWXYZabcdefghijklmnopqrstuvwxyz0123456789-_=:"
		for pos := 0; pos < len(is.Text); pos++ {
			if !full && pos%7 != 0 {
				continue
			}
			for ai := 0; ai < len(alpha); ai++ {
				if alpha[ai] == is.Text[pos] || (!full && ai%9 != 0) {
					continue
				}
				s := is.Text[:pos] + string(alpha[ai]) + is.Text[pos+1:]
				m.present(f, s, "char-substitution", fmt.Sprintf("t%d/pos%d/%c", ti, pos, alpha[ai]))
			}
		}
		// truncations of the text
		for n := 0; n < len(is.Text); n++ {
			if full || n%5 == 0 {
				m.present(f, is.Text[:n], "prefix-truncation", fmt.Sprintf("t%d/pre%d", ti, n))
				m.present(f, is.Text[n+1:], "suffix-truncation", fmt.Sprintf("t%d/suf%d", ti, n))
			}
		}
		// truncation / extension of the decoded parts
		for _, k := range []int{1, 2, 4, 11, 12, 16, 64} {
			ext := make([]byte, k)
			rng.Read(ext)
			m.present(f, enc(is.Nonce, append(append([]byte{}, is.Ct...), ext...)), "ct-extended", fmt.Sprintf("t%d/ctext%d", ti, k))
			m.present(f, enc(append(append([]byte{}, is.Nonce...), ext...), is.Ct), "nonce-extended", fmt.Sprintf("t%d/nonceext%d", ti, k))
			if k < len(is.Ct) {
				m.present(f, enc(is.Nonce, is.Ct[:len(is.Ct)-k]), "ct-truncated", fmt.Sprintf("t%d/cttr%d", ti, k))
				m.present(f, enc(is.Nonce, is.Ct[k:]), "ct-truncated", fmt.Sprintf("t%d/cttrh%d", ti, k))
			}
			if k <= len(is.Nonce) {
				m.present(f, enc(is.Nonce[:len(is.Nonce)-k], is.Ct), "nonce-truncated", fmt.Sprintf("t%d/ntr%d", ti, k))
			}
		}
		m.present(f, enc(is.Ct, is.Nonce), "parts-swapped", fmt.Sprintf("t%d/swap", ti))
		m.present(f, enc(nil, is.Ct), "nonce-empty", fmt.Sprintf("t%d/noempty", ti))
		m.present(f, enc(is.Nonce, nil), "ct-empty", fmt.Sprintf("t%d/ctempty", ti))
		m.present(f, is.Text+":"+is.Text, "doubled", fmt.Sprintf("t%d/dbl", ti))
		m.present(f, " "+is.Text, "space-prefixed", fmt.Sprintf("t%d/sp", ti))
		m.present(f, is.Text+" ", "space-suffixed", fmt.Sprintf("t%d/sps", ti))
	}
	// splices
	for i, a := range toks {
		for j, b := range toks {
			if i == j || (!vr.Thorough() && (i+j)%5 != 0) {
				continue
			}
			m.present(f, enc(a.Nonce, b.Ct), "splice", fmt.Sprintf("splice/%d/%d", i, j))
		}
	}
	// arbitrary text
	for _, s := range []string{"", ":", "::", "a", "a:b", "AAAA:AAAA", "AAAAAAAAAAAAAAAA:AAAAAAAAAAAAAAAAAAAAAAAAAAAAAAAAAAAAAAAAAAAAAA==", "%00:%00", "null", "true", strings.Repeat("A", 100000), strings.Repeat("A:", 1000)} {
		m.present(f, s, "arbitrary-text", "text/"+vr.Q(s))
	}
	// other instances: a second factory and a factory created after "restart"
	f2, _ := NewWebSessionFactory(life)
	for _, n := range names[:6] {
		_, _, tok := f2.Generate(n, true)
		m.present(f, tok, "other-instance", "other/"+n)
	}
	for i, is := range toks[:6] {
		f3, _ := NewWebSessionFactory(life) // restart: tokens issued before are presented to the new instance
		m3 := &c07Mon{R: R, issued: map[string]*c07Issued{}}
		m3.present(f3, is.Text, "issued-before-restart", fmt.Sprintf("restart/%d", i))
	}
	// chosen plaintexts sealed with the factory's own AEAD
	seal := func(plain string) string {
		_, _, n, c := f.sealToken(plain)
		return enc(n, c)
	}
	type ptCase struct {
		class string
		plain func(now int64) string
		valid bool
		user  string
		admin bool
	}
	L := int64(life / time.Second)
	var pts []ptCase
	for _, d := range []int64{3, 10, 60, 3600} {
		d := d
		pts = append(pts, ptCase{"age=lifetime+" + fmt.Sprint(d), func(now int64) string { return fmt.Sprintf("bob:false:%d", now-L-d) }, false, "", false})
		pts = append(pts, ptCase{"future+" + fmt.Sprint(d), func(now int64) string { return fmt.Sprintf("bob:true:%d", now+d) }, false, "", false})
		if d < L {
			pts = append(pts, ptCase{"age=lifetime-" + fmt.Sprint(d), func(now int64) string { return fmt.Sprintf("bob:true:%d", now-L+d) }, true, "bob", true})
		}
	}
	pts = append(pts, ptCase{"future+1y", func(now int64) string { return fmt.Sprintf("bob:true:%d", now+365*86400) }, false, "", false})
	pts = append(pts, ptCase{"age=10y", func(now int64) string { return fmt.Sprintf("bob:true:%d", now-3650*86400) }, false, "", false})
	pts = append(pts, ptCase{"time=0", func(now int64) string { return "bob:true:0" }, false, "", false})
	pts = append(pts, ptCase{"time-negative", func(now int64) string { return "bob:true:-5" }, false, "", false})
	pts = append(pts, ptCase{"time-overflow", func(now int64) string { return "bob:true:9223372036854775807" }, false, "", false})
	pts = append(pts, ptCase{"time-min", func(now int64) string { return "bob:true:-9223372036854775808" }, false, "", false})
	for _, a := range []string{"True", "1", "TRUE", " true", "true ", "yes", "", "t", "T", "False", "0", "admin"} {
		a := a
		pts = append(pts, ptCase{"admin-field=" + vr.Q(a), func(now int64) string { return fmt.Sprintf("bob:%s:%d", a, now-5) }, false, "", false})
	}
	pts = append(pts, ptCase{"two-fields", func(now int64) string { return fmt.Sprintf("bob:%d", now-5) }, false, "", false})
	pts = append(pts, ptCase{"two-fields-admin", func(now int64) string { return "bob:true" }, false, "", false})
	pts = append(pts, ptCase{"four-fields", func(now int64) string { return fmt.Sprintf("bob:true:%d:x", now-5) }, false, "", false})
	pts = append(pts, ptCase{"four-fields-time-last", func(now int64) string { return fmt.Sprintf("bob:true:x:%d", now-5) }, false, "", false})
	pts = append(pts, ptCase{"time-non-numeric", func(now int64) string { return "bob:true:now" }, false, "", false})
	pts = append(pts, ptCase{"time-hex", func(now int64) string { return fmt.Sprintf("bob:true:0x%x", now-5) }, false, "", false})
	pts = append(pts, ptCase{"time-float", func(now int64) string { return fmt.Sprintf("bob:true:%d.0", now-5) }, false, "", false})
	pts = append(pts, ptCase{"time-spaces", func(now int64) string { return fmt.Sprintf("bob:true: %d", now-5) }, false, "", false})
	pts = append(pts, ptCase{"empty-plaintext", func(now int64) string { return "" }, false, "", false})
	pts = append(pts, ptCase{"well-formed-user", func(now int64) string { return fmt.Sprintf("carol:false:%d", now-5) }, true, "carol", false})
	for _, pc := range pts {
		for attempt := 0; attempt < 5; attempt++ {
			t0 := time.Now()
			tok := seal(pc.plain(t0.Unix()))
			var st int
			var user string
			var admin bool
			pan := vr.Safe(func() { st, _, user, admin = f.Check(tok) })
			if time.Since(t0) > time.Second {
				if attempt == 4 {
					R.Inconcl("clock bracket > 1 s five times: " + pc.class)
				}
				continue
			}
			R.Case("plaintext:"+pc.class, true)
			R.Count("chosen_plaintexts", 1)
			if pan != "" {
				R.Violate("c07:panic:plaintext:"+pc.class, pan, "pt/"+pc.class, nil)
			} else if (st == http.StatusOK) != pc.valid {
				R.Violate(fmt.Sprintf("c07:plaintext:%s:accepted=%v", pc.class, st == http.StatusOK), fmt.Sprintf("token with sealed plaintext %q: status %d, expected valid=%v", pc.plain(t0.Unix()), st, pc.valid), "pt/"+pc.class, nil)
			} else if pc.valid && (user != pc.user || admin != pc.admin) {
				R.Violate("c07:plaintext-identity:"+pc.class, fmt.Sprintf("got (%q,%v)", user, admin), "pt/"+pc.class, nil)
			}
			break
		}
	}
	// ages at the very edge of the lifetime, decided by a wall-clock bracket in nanoseconds: the token is sealed for a
	// whole-second issue time chosen relative to the current second, the check is made mid-second, and the clock is
	// read before and after the check; the verdict is required only when both readings agree on it.
	for rep := 0; rep < vr.Pick(2, 6); rep++ {
		for _, j := range []int64{-L - 1, -L, -L + 1, -1, 0, 1} {
			for frac := time.Now().Nanosecond(); frac < 150e6 || frac > 650e6; frac = time.Now().Nanosecond() {
				time.Sleep(20 * time.Millisecond)
			}
			t0 := time.Now()
			stamp := t0.Unix() + j
			tok := seal(fmt.Sprintf("bob:true:%d", stamp))
			var st int
			pan := vr.Safe(func() { st, _, _, _ = f.Check(tok) })
			t1 := time.Now()
			ageMin := t0.UnixNano() - stamp*1e9
			ageMax := t1.UnixNano() - stamp*1e9
			class := fmt.Sprintf("edge:issue=now%+d-lifetime", j+L)
			if j >= -1 {
				class = fmt.Sprintf("edge:issue=now%+d", j)
			}
			var want bool
			switch {
			case ageMin > L*1e9 || ageMax < 0:
				want = false
			case ageMin >= 0 && ageMax < L*1e9:
				want = true
			default:
				R.Count("edge_ambiguous", 1)
				continue
			}
			R.Case(fmt.Sprintf("%s/%d", class, rep), true)
			R.Count("edge_ages", 1)
			if pan != "" {
				R.Violate("c07:panic:plaintext:"+class, pan, "edge", nil)
			} else if (st == http.StatusOK) != want {
				R.Violate(fmt.Sprintf("c07:edge-age:%s:accepted=%v", class, st == http.StatusOK), fmt.Sprintf("token issued at %d checked between %d.%09d and %d.%09d (age %.3f..%.3f s, lifetime %d s): status %d, expected accepted=%v", stamp, t0.Unix(), t0.Nanosecond(), t1.Unix(), t1.Nanosecond(), float64(ageMin)/1e9, float64(ageMax)/1e9, L, st, want), "edge", nil)
			}
		}
	}
	// far-away time stamps: every power of two distance on both sides, and random 64-bit values
	{
		now := time.Now().Unix()
		var tss []int64
		for k := uint(11); k < 63; k++ {
			d := int64(1) << k
			for _, j := range []int64{0, 1, 300, 599, 601, -1, -300} {
				tss = append(tss, now-d+j, now+d+j)
			}
		}
		tss = append(tss, -1<<63, 1<<63-1, -1<<63+now, -1<<63+now+300, 1<<63-1-now)
		for i := 0; i < vr.Pick(2000, 50000); i++ {
			tss = append(tss, int64(rng.Uint64()))
		}
		for _, ts := range tss {
			age := float64(now) - float64(ts)
			if age > -3 && age < float64(L)+3 {
				continue // inside or too close to the window
			}
			tok := seal(fmt.Sprintf("bob:true:%d", ts))
			var st int
			pan := vr.Safe(func() { st, _, _, _ = f.Check(tok) })
			R.Case(fmt.Sprintf("far-ts:%d", ts), true)
			R.Count("far_timestamps", 1)
			if pan != "" || st == http.StatusOK {
				kind := "expired"
				if ts > now {
					kind = "future"
				}
				R.Violate("c07:far-timestamp-accepted:"+kind, fmt.Sprintf("a token sealed with issue time %d (now %d, lifetime %d s) was accepted (status %d %s)", ts, now, L, st, pan), "far-ts", nil)
				break
			}
		}
	}
	// concurrent checks of tokens with different identities (equal-length names): each must get its own identity
	{
		var cw sync.WaitGroup
		var cmu sync.Mutex
		wrongID, rejected, total := 0, 0, 0
		first := ""
		for g := 0; g < 16; g++ {
			cw.Add(1)
			go func(g int) {
				defer cw.Done()
				user := fmt.Sprintf("user%02d", g)
				adm := g%2 == 0
				_, _, tok := f.Generate(user, adm)
				for i := 0; i < vr.Pick(3000, 30000); i++ {
					st, _, u, a := f.Check(tok)
					cmu.Lock()
					total++
					if st != http.StatusOK {
						rejected++
					} else if u != user || a != adm {
						wrongID++
						if first == "" {
							first = fmt.Sprintf("token of (%s,%v) accepted as (%s,%v)", user, adm, u, a)
						}
					}
					cmu.Unlock()
				}
			}(g)
		}
		cw.Wait()
		R.Case("concurrent-checks", true)
		R.Count("concurrent_checks", total)
		if wrongID > 0 {
			R.Violate("c07:identity-differs:concurrent-checks", fmt.Sprintf("%d of %d concurrent checks returned another token's identity; first: %s", wrongID, total, first), "concurrent-checks", nil)
		}
		if rejected > 0 {
			R.Violate("c07:rejected-issued:concurrent-checks", fmt.Sprintf("%d of %d concurrent checks of fresh valid tokens were rejected", rejected, total), "concurrent-checks", nil)
		}
	}
	// end to end: the same classes through /api/list of the real handler set (its own factory)
	c07EndToEnd(R)
	// a short-lived factory: real expiry (lifetime 1 s, wait 3 s)
	fs, _ := NewWebSessionFactory(time.Second)
	_, _, shortTok := fs.Generate("bob", true)
	if st, _, _, _ := fs.Check(shortTok); st != http.StatusOK { // used once while valid (an implementation caching verified tokens must still expire them)
		R.Violate("c07:rejected-issued:short-lived", "a fresh token of the 1 s factory was rejected", "expiry", nil)
	}
	// nonce uniqueness: sequential and concurrent issuance
	nseq := vr.Pick(100000, 2000000)
	seen := make(map[[12]byte]struct{}, nseq+400000)
	dups := 0
	addNonce := func(tok string) {
		a, _, _ := strings.Cut(tok, ":")
		n, err := base64.URLEncoding.DecodeString(a)
		if err != nil || len(n) != 12 {
			R.Violate("c07:nonce-length", "nonce is not 12 bytes: "+tok, "", nil)
			return
		}
		var k [12]byte
		copy(k[:], n)
		if _, dup := seen[k]; dup {
			dups++
		}
		seen[k] = struct{}{}
	}
	for i := 0; i < nseq; i++ {
		_, _, tok := f.Generate("u", i%2 == 0)
		addNonce(tok)
	}
	var wg sync.WaitGroup
	outs := make([][]string, 16)
	per := vr.Pick(10000, 100000)
	for g := 0; g < 16; g++ {
		wg.Add(1)
		go func(g int) {
			defer wg.Done()
			for i := 0; i < per; i++ {
				_, _, tok := f.Generate("u", false)
				outs[g] = append(outs[g], tok)
			}
		}(g)
	}
	wg.Wait()
	bad := 0
	for g := range outs {
		for i, tok := range outs[g] {
			addNonce(tok)
			if i%97 == 0 {
				if st, _, u, a := f.Check(tok); st != http.StatusOK || u != "u" || a {
					bad++
				}
			}
		}
	}
	R.Count("nonces_checked", len(seen)+dups)
	R.Set("distinct_nonces", len(seen))
	R.Case("nonce-uniqueness", true)
	if dups > 0 {
		R.Violate("c07:nonce-reuse", fmt.Sprintf("%d issued tokens share an encryption nonce with an earlier token (of %d)", dups, len(seen)+dups), "nonces", nil)
	}
	if bad > 0 {
		R.Violate("c07:concurrently-issued-token-rejected", fmt.Sprintf("%d tokens issued concurrently are not accepted as issued", bad), "nonces", nil)
	}
	// expiry in real time
	// (a) a token first used LATE in its life must still expire at issue time + lifetime (4 s factory:
	//     issued at the start of a second, used at +3 s, presented again at +5.5 s; margins >= 1 s)
	{
		f4, _ := NewWebSessionFactory(4 * time.Second)
		for time.Now().Nanosecond() > 100e6 {
			time.Sleep(10 * time.Millisecond)
		}
		t0 := time.Now()
		_, _, tok4 := f4.Generate("bob", true)
		time.Sleep(time.Until(t0.Add(3 * time.Second)))
		st1, _, _, _ := f4.Check(tok4)
		late1 := time.Since(t0)
		time.Sleep(time.Until(t0.Add(5500 * time.Millisecond)))
		st2, _, _, _ := f4.Check(tok4)
		R.Case("late-first-use", true)
		switch {
		case late1 > 3900*time.Millisecond || time.Since(t0) > 60*time.Second:
			R.Inconcl("machine stalled during the late-first-use expiry case")
		case st1 != http.StatusOK:
			R.Violate("c07:rejected-issued:late-first-use", fmt.Sprintf("a token of a 4 s factory was rejected %.1f s after issuance", late1.Seconds()), "expiry", nil)
		case st2 == http.StatusOK:
			R.Violate("c07:expired-token-accepted:after-late-first-use", "a token of a 4 s factory, first used 3 s after issuance, was still accepted 5.5 s after issuance", "expiry", nil)
		}
	}
	time.Sleep(3 * time.Second)
	if st, _, _, _ := fs.Check(shortTok); st == http.StatusOK {
		R.Violate("c07:expired-token-accepted", "a token of a factory with 1 s lifetime (checked once while valid) was accepted 3 s after issuance", "expiry", nil)
	}
	if st, _, _, _ := fs.Check(shortTok); st == http.StatusOK {
		R.Violate("c07:expired-token-accepted", "second presentation after expiry accepted", "expiry", nil)
	}
	R.Case("real-expiry", true)
	R.Sample(map[string]any{"issued": toks[0].Text, "user": toks[0].User, "admin": toks[0].Admin, "classes": "bitflip/char-substitution/truncation/extension/splice/other-instance/chosen-plaintext"})
	_ = bytes.Equal
}

func c07EndToEnd(R *vr.Result) {
	rng := R.Rand("c07-e2e")
	dir := ovlWork("c07-e2e")
	sets := ref.CheapSets(rng, 1)
	st := ovlMkStore(rng, dir, sets, 1, []ovlUser{{Name: "root", Pw: "root-pw", Admin: true, Set: 1}, {Name: "alice", Pw: "alice-pw", Set: 1}})
	ag, err := NewStore(st.Cfg, "", "", "", "")
	if err != nil {
		R.Fatal = err.Error()
		return
	}
	mux, _ := newWebHandler(ag.GetInterface())
	mux2, _ := newWebHandler(ag.GetInterface()) // a second handler set = another instance's factory
	w := &c06World{}
	login := func(m http.Handler, u, p string) string {
		_, mm, _, _ := w.post(m, "/api/authenticate", []byte(fmt.Sprintf(`{"username":%q,"password":%q}`, u, p)))
		s, _ := mm["session"].(string)
		return s
	}
	list := func(tok string) (int, bool, string) {
		code, mm, _, pan := w.post(mux, "/api/list", []byte(fmt.Sprintf(`{"session":%q}`, tok)))
		return code, mm["list"] != nil, pan
	}
	root := login(mux, "root", "root-pw")
	alice := login(mux, "alice", "alice-pw")
	foreign := login(mux2, "root", "root-pw")
	if code, has, _ := list(root); code != 200 || !has {
		R.Violate("c07:e2e:valid-admin-token-refused", fmt.Sprintf("status %d", code), "e2e", nil)
	}
	present := func(class, tok string, wantOK bool) {
		code, has, pan := list(tok)
		R.Case("e2e|"+tok, true)
		R.Count("e2e_presented", 1)
		if pan != "" {
			R.Violate("c07:e2e:panic:"+class, pan, "e2e/"+class, tok)
		} else if (code == 200) != wantOK || (has && !wantOK) {
			R.Violate(fmt.Sprintf("c07:e2e:%s:status-200=%v", class, code == 200), fmt.Sprintf("/api/list with a %s token: status %d, list disclosed=%v", class, code, has), "e2e/"+class, tok)
		}
	}
	present("ordinary-user", alice, false)
	present("other-instance", foreign, false)
	a, b, _ := strings.Cut(root, ":")
	na, nb := unb64(a), unb64(b)
	for bit := 0; bit < (len(na)+len(nb))*8; bit += 3 {
		x, y := append([]byte{}, na...), append([]byte{}, nb...)
		if bit/8 < len(x) {
			x[bit/8] ^= 1 << uint(bit%8)
		} else {
			y[bit/8-len(x)] ^= 1 << uint(bit%8)
		}
		present("bitflip", b64(x)+":"+b64(y), false)
	}
	for n := 0; n < len(root); n += 2 {
		present("prefix-truncation", root[:n], false)
		present("suffix-truncation", root[n+1:], false)
	}
	aa, ab, _ := strings.Cut(alice, ":")
	present("splice", a+":"+ab, false)
	present("splice", aa+":"+b, false)
	present("nonce-short", b64(na[:8])+":"+b, false)
	present("nonce-long", b64(append(na, 1, 2, 3, 4))+":"+b, false)
}
