package main

import (
	"bytes"
	"encoding/json"
	"fmt"
	"math/rand"
	"net/http"
	"net/http/httptest"
	"os"
	"path/filepath"
	"sort"
	"strings"
	"sync"
	"testing"
	"time"

	"github.com/anishathalye/porcupine"
	"github.com/whawty/auth/sasl"
	"github.com/whawty/auth/zz_verif/ref"
	"github.com/whawty/auth/zz_verif/vr"
)

// ---- sequential model -------------------------------------------------------

type c11In struct {
	Op    string // auth add update setadmin remove list
	User  string
	Pw    string
	Admin bool
	Via   string
}

type c11Out struct {
	OK    bool   // auth: verdict; others: no error
	Admin bool   // auth only
	List  string // list only: sorted "user:admin,..."
}

type c11User struct {
	Exists bool
	Pw     string
	Admin  bool
}

const c11MaxUsers = 4

type c11State struct {
	U [c11MaxUsers]c11User
}

func c11Step(names []string) func(st, in, out interface{}) (bool, interface{}) {
	idx := map[string]int{}
	for i, n := range names {
		idx[n] = i
	}
	return func(sti, ini, outi interface{}) (bool, interface{}) {
		st := sti.(c11State)
		in := ini.(c11In)
		out := outi.(c11Out)
		if in.Op == "list" {
			var l []string
			for i, n := range names {
				if st.U[i].Exists {
					l = append(l, fmt.Sprintf("%s:%v", n, st.U[i].Admin))
				}
			}
			sort.Strings(l)
			return strings.Join(l, ",") == out.List, st
		}
		i, ok := idx[in.User]
		if !ok {
			return false, st
		}
		u := st.U[i]
		switch in.Op {
		case "auth":
			want := u.Exists && u.Pw == in.Pw
			if out.OK != want {
				return false, st
			}
			if want && out.Admin != u.Admin {
				return false, st
			}
			return true, st
		case "add":
			if u.Exists {
				return !out.OK, st
			}
			if !out.OK {
				return false, st
			}
			st.U[i] = c11User{true, in.Pw, in.Admin}
			return true, st
		case "update":
			if !u.Exists {
				return !out.OK, st
			}
			if !out.OK {
				return false, st
			}
			st.U[i].Pw = in.Pw
			return true, st
		case "setadmin":
			if !u.Exists {
				return !out.OK, st
			}
			if !out.OK {
				return false, st
			}
			st.U[i].Admin = in.Admin
			return true, st
		case "remove":
			st.U[i] = c11User{}
			return out.OK, st
		}
		return false, st
	}
}

func c11Model(names []string, init c11State, partition bool) porcupine.Model {
	m := porcupine.Model{
		Init:  func() interface{} { return init },
		Step:  c11Step(names),
		Equal: func(a, b interface{}) bool { return a.(c11State) == b.(c11State) },
		DescribeOperation: func(in, out interface{}) string {
			i, o := in.(c11In), out.(c11Out)
			return fmt.Sprintf("%s(%s,%s,%v)via %s -> ok=%v admin=%v %s", i.Op, i.User, i.Pw, i.Admin, i.Via, o.OK, o.Admin, o.List)
		},
	}
	if partition {
		m.Partition = func(h []porcupine.Operation) [][]porcupine.Operation {
			by := map[string][]porcupine.Operation{}
			for _, op := range h {
				u := op.Input.(c11In).User
				by[u] = append(by[u], op)
			}
			var out [][]porcupine.Operation
			for _, n := range names {
				if len(by[n]) > 0 {
					out = append(out, by[n])
				}
			}
			return out
		}
	}
	return m
}

// ---- recording clients ------------------------------------------------------

type c11Rec struct {
	mu    sync.Mutex
	ops   []porcupine.Operation
	start time.Time
}

func (r *c11Rec) now() int64 { return int64(time.Since(r.start)) }

func (r *c11Rec) do(client int, in c11In, f func() c11Out) c11Out {
	call := r.now() // recorded before invoking
	out := f()
	ret := r.now() // after the reply
	r.mu.Lock()
	r.ops = append(r.ops, porcupine.Operation{ClientId: client, Input: in, Call: call, Output: out, Return: ret})
	r.mu.Unlock()
	return out
}

type c11Env struct {
	iface *Store
	web   string
	sock  string
	httpc *http.Client
}

func (e *c11Env) auth(via, user, pw string) c11Out {
	switch via {
	case "basic":
		req, _ := http.NewRequest("GET", e.web+"/basic-auth", nil)
		req.SetBasicAuth(user, pw)
		resp, err := e.httpc.Do(req)
		if err != nil {
			return c11Out{}
		}
		resp.Body.Close() //nolint:errcheck
		return c11Out{OK: resp.StatusCode == 200, Admin: false}
	case "api":
		body, _ := json.Marshal(map[string]string{"username": user, "password": pw})
		resp, err := e.httpc.Post(e.web+"/api/authenticate", "application/json", bytes.NewReader(body))
		if err != nil {
			return c11Out{}
		}
		defer resp.Body.Close() //nolint:errcheck
		var r webAuthenticateResponse
		json.NewDecoder(resp.Body).Decode(&r) //nolint:errcheck
		return c11Out{OK: resp.StatusCode == 200 && r.Session != "", Admin: r.IsAdmin}
	case "sasl":
		ok, _, err := sasl.NewClient(e.sock).Auth(user, pw, "svc", "")
		return c11Out{OK: ok && err == nil}
	case "upgrade-request":
		// the request a slave sends to its upgrade master: user and current password, no new password
		body, _ := json.Marshal(map[string]string{"username": user, "oldpassword": pw})
		resp, err := e.httpc.Post(e.web+"/api/update", "application/json", bytes.NewReader(body))
		if err != nil {
			return c11Out{}
		}
		resp.Body.Close() //nolint:errcheck
		return c11Out{OK: resp.StatusCode == 200}
	}
	ok, adm, _, err := e.iface.Authenticate(user, pw)
	return c11Out{OK: ok && err == nil, Admin: adm}
}

// frontends that do not report the admin flag: the model must not compare it
func c11ViaReportsAdmin(via string) bool { return via == "iface" || via == "api" }

func TestVerifC11(t *testing.T) {
	R := vr.New("C11", "linearizability", "many short concurrent histories (3-8 clients x 5-10 operations on 2-3 users, unique password per write) against a fresh agent each (upgrades off / local with upgradeable records, delay failpoints varied per history); operations recorded at the client boundary (Store interface, HTTP basic-auth, HTTP API, SASL socket) with one monotonic clock; after quiescence and a barrier through the FIFO update queue, sequential final reads (every password ever written, list) are appended; the history is checked by porcupine against a sequential store model (partitioned by user unless it contains list); final directory must match the model state; cross-talk phase with 64 concurrent connections; race detector on all of it. Non-trivial: history with >= 1 pair of overlapping operations on the same user of which one is a write; distinct by history content")
	defer R.Write()
	rng := R.Rand("c11")
	nh := vr.Pick(400, 6000)
	harmful := 0
	for h := 0; h < nh; h++ {
		id := fmt.Sprintf("h%d", h)
		if !R.Want(id) {
			continue
		}
		R.Mark(id)
		mode := []string{"local", "local", ""}[h%3]
		if c11History(R, rand.New(rand.NewSource(rng.Int63())), id, mode, h) {
			harmful++
		}
	}
	R.Count("histories_with_upgrade_after_later_update", harmful)
	verifSetDelay("exec.update", 0)
	verifSetDelay("exec.authenticate", 0)
	verifSetDelay("exec.upgrade", 0)
	verifSetDelay("upgrade.enqueue", 0)
	c11Crosstalk(R, rng)
}

func c11History(R *vr.Result, rng *rand.Rand, id, mode string, h int) (harmfulSeen bool) {
	dir := ovlWork("c11")
	thorough := vr.Thorough()
	nusers := 2
	nclients := 3 + rng.Intn(2)
	nops := 5 + rng.Intn(4)
	if thorough {
		nusers = 3
		nclients = 6 + rng.Intn(3)
		nops = 10
	}
	withList := h%5 == 4
	if withList { // short, checked whole
		nclients, nops = 3, 4
	}
	names := []string{"ua", "ub", "uc"}[:nusers]
	if h%4 == 1 { // names that contain each other and the file extensions
		names = []string{"u", "u.user", "u.admin"}[:nusers]
	}
	sets := ref.CheapSets(rng, 2)
	var users []ovlUser
	init := c11State{}
	users = append(users, ovlUser{Name: "zroot", Pw: "rootpw", Admin: true, Set: 1})
	for i, n := range names {
		if rng.Intn(5) == 0 {
			continue // does not exist initially
		}
		adm := rng.Intn(3) == 0
		set := uint(2) // upgradeable (default is 1)
		if rng.Intn(4) == 0 {
			set = 1
		}
		users = append(users, ovlUser{Name: n, Pw: "init-" + n, Admin: adm, Set: set, Aux: "totp: QUJD\n"})
		init.U[i] = c11User{true, "init-" + n, adm}
	}
	st := ovlMkStore(rng, dir, sets, 1, nil)
	st.Now = h%2 == 0 // records written in the very second in which the history runs (same-second timestamps)
	for _, u := range users {
		st.Plant(rng, u)
	}
	// failpoints for this history
	d := func(max int) time.Duration { return time.Duration(rng.Intn(max+1)) * 100 * time.Microsecond }
	verifSetDelay("exec.update", d(8))
	verifSetDelay("exec.authenticate", d(4))
	verifSetDelay("exec.upgrade", d(4))
	verifSetDelay("upgrade.enqueue", d(6))
	verifSetLogging(true)
	s, err := NewStore(st.Cfg, mode, "", "", "")
	if err != nil {
		R.Fatal = err.Error()
		return
	}
	env := &c11Env{iface: s.GetInterface(), httpc: &http.Client{}}
	useFront := h%4 == 0
	if useFront {
		hd, _ := newWebHandler(env.iface)
		web := httptest.NewServer(hd)
		defer func() { go web.Close() }()
		env.web = web.URL
		env.sock = filepath.Join(dir, "s.sock")
		stopSasl := ovlSasl(env.sock, env.iface)
		defer stopSasl()
		env.httpc = &http.Client{Transport: &http.Transport{MaxIdleConnsPerHost: 16}}
		defer env.httpc.CloseIdleConnections()
	}
	rec := &c11Rec{start: time.Now()}
	written := map[string][]string{}
	for _, n := range names {
		written[n] = []string{"init-" + n}
	}
	var wmu sync.Mutex
	var wg sync.WaitGroup
	startGate := make(chan struct{})
	for c := 0; c < nclients; c++ {
		wg.Add(1)
		crng := rand.New(rand.NewSource(rng.Int63()))
		go func(c int) {
			defer wg.Done()
			<-startGate
			lastPw := map[string]string{}
			for i := 0; i < nops; i++ {
				u := names[crng.Intn(len(names))]
				k := crng.Intn(100)
				switch {
				case k < 45:
					// authenticate with a password that was written at some point (initial, own last, any)
					wmu.Lock()
					cand := written[u]
					pw := cand[crng.Intn(len(cand))]
					wmu.Unlock()
					if lp, ok := lastPw[u]; ok && crng.Intn(2) == 0 {
						pw = lp
					}
					via := "iface"
					if useFront {
						via = []string{"iface", "basic", "api", "sasl"}[crng.Intn(4)]
					}
					in := c11In{Op: "auth", User: u, Pw: pw, Via: via}
					rec.do(c, in, func() c11Out { return env.auth(via, u, pw) })
				case k < 70:
					pw := fmt.Sprintf("c%d-%d-%s", c, i, u)
					wmu.Lock()
					written[u] = append(written[u], pw)
					wmu.Unlock()
					lastPw[u] = pw
					rec.do(c, c11In{Op: "update", User: u, Pw: pw, Via: "iface"}, func() c11Out { return c11Out{OK: env.iface.Update(u, pw) == nil} })
				case k < 80:
					pw := fmt.Sprintf("c%d-%d-%s", c, i, u)
					adm := crng.Intn(2) == 0
					wmu.Lock()
					written[u] = append(written[u], pw)
					wmu.Unlock()
					lastPw[u] = pw
					rec.do(c, c11In{Op: "add", User: u, Pw: pw, Admin: adm, Via: "iface"}, func() c11Out { return c11Out{OK: env.iface.Add(u, pw, adm) == nil} })
				case k < 90:
					adm := crng.Intn(2) == 0
					rec.do(c, c11In{Op: "setadmin", User: u, Admin: adm, Via: "iface"}, func() c11Out { return c11Out{OK: env.iface.SetAdmin(u, adm) == nil} })
				case k < 96 || !withList:
					rec.do(c, c11In{Op: "remove", User: u, Via: "iface"}, func() c11Out { return c11Out{OK: env.iface.Remove(u) == nil} })
				default:
					rec.do(c, c11In{Op: "list", Via: "iface"}, func() c11Out { return c11Out{OK: true, List: c11List(env.iface, names)} })
				}
			}
		}(c)
	}
	close(startGate)
	done := make(chan struct{})
	go func() { wg.Wait(); close(done) }()
	select {
	case <-done:
	case <-time.After(120 * time.Second):
		R.Inconcl("history " + id + " did not finish within the 120 s watchdog (see C10)")
		return
	}
	// quiescence: barrier through the FIFO update queue (behind any queued upgrade), twice
	env.iface.Update("zz-barrier", "x") //nolint:errcheck
	env.iface.Update("zz-barrier", "x") //nolint:errcheck
	// sequential final reads
	fc := nclients
	for _, u := range names {
		for _, pw := range written[u] {
			in := c11In{Op: "auth", User: u, Pw: pw, Via: "iface"}
			rec.do(fc, in, func() c11Out { return env.auth("iface", u, pw) })
		}
	}
	finalList := c11List(env.iface, names)
	if withList {
		rec.do(fc, c11In{Op: "list", Via: "iface"}, func() c11Out { return c11Out{OK: true, List: finalList} })
	}
	events := verifSnapshot()
	verifSetLogging(true)
	// normalise: frontends that do not report the admin flag
	ops := rec.ops
	hasList := false
	for i := range ops {
		in := ops[i].Input.(c11In)
		if in.Op == "list" {
			hasList = true
		}
	}
	model := c11Model(names, init, !hasList)
	if true {
		base := model.Step
		model.Step = func(st, in, out interface{}) (bool, interface{}) {
			i := in.(c11In)
			o := out.(c11Out)
			if i.Op == "auth" && o.OK && !c11ViaReportsAdmin(i.Via) {
				// take the model's admin flag: this frontend cannot report it
				idx := -1
				for k, n := range names {
					if n == i.User {
						idx = k
					}
				}
				if idx >= 0 {
					o.Admin = st.(c11State).U[idx].Admin
				}
			}
			return base(st, i, o)
		}
	}
	res, info := porcupine.CheckOperationsVerbose(model, ops, 60*time.Second)
	overl := c11Overlaps(ops)
	R.Case(c11Key(ops), overl > 0)
	R.Count("operations", len(ops))
	R.Count("overlapping_same_user_write_pairs", overl)
	R.Count("histories:"+map[string]string{"": "upgrades-off", "local": "upgrades-local"}[mode], 1)
	if hasList {
		R.Count("histories_with_list", 1)
	}
	if useFront {
		R.Count("histories_via_frontends", 1)
	}
	// harmful pattern evidence: the k-th executed upgrade of user u belongs to the k-th accepted enqueue of u
	// (FIFO queue); it is "harmful" if a client write to u was executed in between.
	nUpg := 0
	{
		type pos struct {
			enq []int
			upg []int
		}
		per := map[string]*pos{}
		for i, e := range events {
			if per[e.Subject] == nil {
				per[e.Subject] = &pos{}
			}
			if e.Kind == "upgrade.enqueue" && e.A < e.B {
				per[e.Subject].enq = append(per[e.Subject].enq, i)
			}
			if e.Kind == "exec.upgrade" {
				per[e.Subject].upg = append(per[e.Subject].upg, i)
			}
		}
		for u, p := range per {
			for k := 0; k < len(p.enq) && k < len(p.upg); k++ {
				for x := p.enq[k] + 1; x < p.upg[k]; x++ {
					f := events[x]
					if f.Subject != u {
						continue
					}
					clientWrite := (f.Kind == "exec.update" && (x == 0 || events[x-1].Kind != "exec.upgrade")) || f.Kind == "exec.remove" || f.Kind == "exec.setadmin"
					if clientWrite {
						harmfulSeen = true
					}
				}
			}
		}
	}
	for _, e := range events {
		if e.Kind == "exec.upgrade" {
			nUpg++
		}
	}
	R.Count("upgrades_executed", nUpg)
	wit := func() map[string]any {
		var hs []string
		sorted := append([]porcupine.Operation{}, ops...)
		sort.Slice(sorted, func(i, j int) bool { return sorted[i].Call < sorted[j].Call })
		for _, o := range sorted {
			hs = append(hs, fmt.Sprintf("[%d,%d] client %d: %s", o.Call/1000, o.Return/1000, o.ClientId, model.DescribeOperation(o.Input, o.Output)))
		}
		var ev []string
		for _, e := range events {
			if strings.HasPrefix(e.Kind, "exec.") || e.Kind == "upgrade.enqueue" {
				ev = append(ev, fmt.Sprintf("%d %s %s", e.T/1000, e.Kind, e.Subject))
			}
		}
		return map[string]any{"mode": mode, "initial": fmt.Sprintf("%+v", init), "history_us": hs, "dispatcher_events_us": ev}
	}
	switch res {
	case porcupine.Illegal:
		shape := "upgrades-" + map[string]string{"": "off", "local": "local"}[mode]
		if harmfulSeen {
			shape += ":upgrade-executed-after-later-update"
		}
		_ = info
		R.Violate("c11:not-linearizable:"+shape, "no sequential order consistent with real time explains the recorded responses (including the final reads at quiescence)", id, wit())
	case porcupine.Unknown:
		R.Inconcl("porcupine timed out on " + id)
	}
	// final directory must equal the state the final reads pin down
	c11FinalDir(R, id, st, names, ops, nclients, finalList, wit)
	if len(R.Samples) < 3 {
		w := wit()
		R.Sample(map[string]any{"history": id, "mode": mode, "ops": w["history_us"], "result": fmt.Sprint(res)})
	}
	return
}

func c11List(iface *Store, names []string) string {
	l, err := iface.List()
	if err != nil {
		return "error"
	}
	var out []string
	for _, n := range names {
		if e, ok := l[n]; ok {
			out = append(out, fmt.Sprintf("%s:%v", n, e.IsAdmin))
		}
	}
	sort.Strings(out)
	return strings.Join(out, ",")
}

func c11Key(ops []porcupine.Operation) string {
	var b strings.Builder
	sorted := append([]porcupine.Operation{}, ops...)
	sort.Slice(sorted, func(i, j int) bool { return sorted[i].Call < sorted[j].Call })
	for _, o := range sorted {
		fmt.Fprintf(&b, "%d%v%v;", o.ClientId, o.Input, o.Output)
	}
	return b.String()
}

func c11Overlaps(ops []porcupine.Operation) int {
	n := 0
	for i := range ops {
		for j := i + 1; j < len(ops); j++ {
			a, b := ops[i], ops[j]
			ia, ib := a.Input.(c11In), b.Input.(c11In)
			if ia.User != ib.User || (ia.Op == "auth" && ib.Op == "auth") {
				continue
			}
			if a.Call <= b.Return && b.Call <= a.Return {
				n++
			}
		}
	}
	return n
}

// c11FinalDir compares the directory with what the final sequential reads say.
func c11FinalDir(R *vr.Result, id string, st *ovlStore, names []string, ops []porcupine.Operation, finalClient int, finalList string, wit func() map[string]any) {
	okPw := map[string]int{}
	for _, o := range ops {
		if o.ClientId == finalClient && o.Input.(c11In).Op == "auth" && o.Output.(c11Out).OK {
			okPw[o.Input.(c11In).User]++
		}
	}
	entries, _ := os.ReadDir(st.Base)
	files := map[string][]string{}
	for _, e := range entries {
		if e.Name() == ".tmp" {
			continue
		}
		ext := filepath.Ext(e.Name())
		files[strings.TrimSuffix(e.Name(), ext)] = append(files[strings.TrimSuffix(e.Name(), ext)], ext)
	}
	tmp, _ := os.ReadDir(filepath.Join(st.Base, ".tmp"))
	if len(tmp) > 0 {
		R.Violate("c11:tmp-not-empty-at-quiescence", fmt.Sprintf("%d leftover files in .tmp while the agent is idle", len(tmp)), id, wit())
	}
	for _, n := range names {
		if len(files[n]) > 1 {
			R.Violate("c11:two-files-for-one-user", fmt.Sprintf("user %s has files %v at quiescence", n, files[n]), id, wit())
		}
		if okPw[n] > 1 {
			R.Violate("c11:two-passwords-valid-at-quiescence", fmt.Sprintf("%d different passwords authenticate user %s at quiescence", okPw[n], n), id, wit())
		}
		inList := strings.Contains(","+finalList, ","+n+":")
		if (len(files[n]) > 0) != inList {
			R.Violate("c11:directory-differs-from-list", fmt.Sprintf("user %s: files %v but list says present=%v", n, files[n], inList), id, wit())
		}
		if len(files[n]) == 1 && okPw[n] == 0 {
			R.Violate("c11:no-written-password-valid-at-quiescence", fmt.Sprintf("user %s exists but none of the passwords ever written authenticates", n), id, wit())
		}
	}
	d, err := lib_NewDir(st.Cfg)
	if err == nil {
		if cerr := d.Check(); cerr != nil {
			R.Violate("c11:check-fails-at-quiescence", "consistency check fails while idle: "+cerr.Error(), id, wit())
		}
	}
}

// ---- cross-talk --------------------------------------------------------------

func c11Crosstalk(R *vr.Result, rng *rand.Rand) {
	dir := ovlWork("c11-crosstalk")
	sets := ref.CheapSets(rng, 2)
	var users []ovlUser
	users = append(users, ovlUser{Name: "zroot", Pw: "rootpw", Admin: true, Set: 1})
	const n = 64
	for i := 0; i < n; i++ {
		users = append(users, ovlUser{Name: fmt.Sprintf("x%d", i), Pw: fmt.Sprintf("pw-%d", i), Admin: i%3 == 0, Set: 1})
	}
	st := ovlMkStore(rng, dir, sets, 1, users)
	s, err := NewStore(st.Cfg, "", "", "", "")
	if err != nil {
		R.Fatal = err.Error()
		return
	}
	env := &c11Env{iface: s.GetInterface(), httpc: &http.Client{}}
	hd, _ := newWebHandler(env.iface)
	web := httptest.NewServer(hd)
	defer func() { go web.Close() }()
	env.web = web.URL
	env.sock = filepath.Join(dir, "s.sock")
	stopSasl := ovlSasl(env.sock, env.iface)
	defer stopSasl()
	env.httpc = &http.Client{Transport: &http.Transport{MaxIdleConnsPerHost: 64}}
	defer env.httpc.CloseIdleConnections()
	rounds := vr.Pick(20, 300)
	var wg sync.WaitGroup
	var mu sync.Mutex
	wrong := 0
	total := 0
	var first string
	for r := 0; r < rounds; r++ {
		gate := make(chan struct{})
		for i := 0; i < n; i++ {
			wg.Add(1)
			go func(i, r int) {
				defer wg.Done()
				// neighbours differ in verdict: even connections use the right password, odd ones the neighbour's
				u := fmt.Sprintf("x%d", i)
				pw := fmt.Sprintf("pw-%d", i)
				want := true
				if (i+r)%2 == 1 {
					pw = fmt.Sprintf("pw-%d", (i+1)%n)
					want = false
				}
				via := []string{"iface", "basic", "api", "sasl"}[(i/2+r)%4]
				<-gate
				out := env.auth(via, u, pw)
				mu.Lock()
				total++
				if out.OK != want || (want && via == "api" && out.Admin != (i%3 == 0)) || (want && via == "iface" && out.Admin != (i%3 == 0)) {
					wrong++
					if first == "" {
						first = fmt.Sprintf("connection %d via %s user %s: got ok=%v admin=%v want ok=%v admin=%v", i, via, u, out.OK, out.Admin, want, i%3 == 0)
					}
				}
				mu.Unlock()
			}(i, r)
		}
		close(gate)
		wg.Wait()
	}
	R.Case("crosstalk", true)
	R.Count("crosstalk_requests", total)
	if wrong > 0 {
		R.Violate("c11:cross-talk", fmt.Sprintf("%d of %d concurrent connections received an answer that is not theirs; first: %s", wrong, total, first), "crosstalk", nil)
	}
}

// ---------------------------------------------------------------------------------------------------------
// backlog: many slow write requests queued behind one another for longer than any plausible client-side patience.
// Whatever a request is answered with must be what happened: an add / update answered with an error must not take
// effect later, an acknowledged one must be there.

func TestVerifC11Backlog(t *testing.T) { c11Backlog("C11", "backlog", "c11") }
func TestVerifC15Backlog(t *testing.T) { c11Backlog("C15", "agent-backlog", "c15") }

func c11Backlog(prop, stage, pfx string) {
	R := vr.New(prop, stage, "an in-process agent whose default parameter set costs a few hundred milliseconds per hash receives so many add / update / set-admin requests at once that the last ones wait in the queue for more than 12 s; every request's answer is recorded; after the queue has drained (FIFO barrier, then 3 more seconds) every user is read back: a request answered with an error must have had no effect (no file, old password, old flag), an acknowledged one must be in effect. Non-trivial: every request that waited longer than 5 s; distinct by request")
	defer R.Write()
	rng := R.Rand("backlog")
	dir := ovlWork("backlog")
	key := make([]byte, 32)
	rng.Read(key)
	sets := []ref.ParamSet{{ID: 1, Algo: ref.AlgoScrypt, HmacKey: key, Cost: 15, R: 8, P: 1}, {ID: 2, Algo: ref.AlgoScrypt, HmacKey: key, Cost: 2, R: 1, P: 1}}
	users := []ovlUser{{Name: "root", Pw: "rootpw", Admin: true, Set: 2}}
	for i := 0; i < 8; i++ {
		users = append(users, ovlUser{Name: fmt.Sprintf("old%d", i), Pw: fmt.Sprintf("oldpw%d", i), Set: 2})
	}
	st := ovlMkStore(rng, dir, sets, 1, users)
	ag, err := NewStore(st.Cfg, "", "", "", "")
	if err != nil {
		R.Fatal = err.Error()
		return
	}
	iface := ag.GetInterface()
	t0 := time.Now()
	iface.Add("calib", "calib-pw", false) //nolint:errcheck
	per := time.Since(t0)
	// add, update and set-admin have a queue of 10 each: with adds and updates alternating a late request finds about
	// 20 others in front of it after it has been queued
	n := int(17*time.Second/per) + 2
	if n < 26 {
		n = 26
	}
	if n > 120 {
		n = 120
	}
	type res struct {
		kind, user, pw string
		err            error
		waited         time.Duration
	}
	out := make([]res, n)
	var wg sync.WaitGroup
	gate := make(chan struct{})
	for i := 0; i < n; i++ {
		r := res{kind: "add", user: fmt.Sprintf("new%d", i), pw: fmt.Sprintf("newpw-%d", i)}
		switch {
		case i%11 == 7:
			r = res{kind: "setadmin", user: fmt.Sprintf("old%d", 7-(i/11)%8)}
		case i%2 == 1:
			r = res{kind: "update", user: fmt.Sprintf("old%d", (i/2)%8), pw: fmt.Sprintf("updated-%d", i)}
		}
		out[i] = r
		wg.Add(1)
		go func(i int) {
			defer wg.Done()
			<-gate
			time.Sleep(time.Duration(i) * time.Millisecond) // arrival order = index
			s := time.Now()
			switch out[i].kind {
			case "add":
				out[i].err = iface.Add(out[i].user, out[i].pw, false)
			case "update":
				out[i].err = iface.Update(out[i].user, out[i].pw)
			case "setadmin":
				out[i].err = iface.SetAdmin(out[i].user, true)
			}
			out[i].waited = time.Since(s)
		}(i)
	}
	close(gate)
	wg.Wait()
	iface.Update("zz-barrier-nonexistent", "x") //nolint:errcheck
	time.Sleep(3 * time.Second)                 // requests abandoned by their callers may still be in the queue
	iface.Update("zz-barrier-nonexistent", "x") //nolint:errcheck
	lastUpd := map[string]int{}
	for i, r := range out {
		if r.kind == "update" && r.err == nil {
			lastUpd[r.user] = i
		}
	}
	var maxWait time.Duration
	for i, r := range out {
		if r.waited > maxWait {
			maxWait = r.waited
		}
		R.Case(fmt.Sprintf("%s|%s|%d", r.kind, r.user, i), r.waited > 5*time.Second)
		R.Count("backlog_requests", 1)
		wit := map[string]any{"request": r.kind, "user": r.user, "answer": fmt.Sprint(r.err), "waited_ms": r.waited.Milliseconds(), "hash_cost_ms": per.Milliseconds(), "requests": n}
		switch r.kind {
		case "add":
			ok, _, _, _ := iface.Authenticate(r.user, r.pw)
			if r.err != nil && ok {
				R.Violate(pfx+":request-answered-with-error-took-effect:add", fmt.Sprintf("add(%s) was answered %q after %v, yet the user exists with that password afterwards", r.user, r.err, r.waited), "backlog", wit)
			}
			if r.err == nil && !ok {
				R.Violate(pfx+":acknowledged-request-not-in-effect:add", fmt.Sprintf("add(%s) was acknowledged but the user does not authenticate", r.user), "backlog", wit)
			}
		case "update":
			ok, _, _, _ := iface.Authenticate(r.user, r.pw)
			if r.err != nil && ok {
				R.Violate(pfx+":request-answered-with-error-took-effect:update", fmt.Sprintf("update(%s) was answered %q after %v, yet that password authenticates afterwards", r.user, r.err, r.waited), "backlog", wit)
			}
			if r.err == nil && lastUpd[r.user] == i && !ok {
				// (several updates of one user: only the last acknowledged one must be in effect, provided no failed one overtook it)
				overtaken := false
				for j := i + 1; j < len(out); j++ {
					if out[j].kind == "update" && out[j].user == r.user {
						overtaken = true
					}
				}
				if !overtaken {
					R.Violate(pfx+":acknowledged-request-not-in-effect:update", fmt.Sprintf("update(%s) was acknowledged last but its password does not authenticate", r.user), "backlog", wit)
				}
			}
		case "setadmin":
			_, adm, _, _ := iface.Authenticate(r.user, map[bool]string{true: "x", false: "x"}[true])
			l, _ := iface.List()
			adm = l[r.user].IsAdmin
			if r.err != nil && adm {
				R.Violate(pfx+":request-answered-with-error-took-effect:setadmin", fmt.Sprintf("set-admin(%s) was answered %q after %v, yet the user is an administrator afterwards", r.user, r.err, r.waited), "backlog", wit)
			}
			if r.err == nil && !adm {
				R.Violate(pfx+":acknowledged-request-not-in-effect:setadmin", "set-admin was acknowledged but the user is no administrator", "backlog", wit)
			}
		}
	}
	R.Count("backlog_max_wait_ms", int(maxWait.Milliseconds()))
	if maxWait < 12*time.Second {
		R.Inconcl(fmt.Sprintf("the backlog was shorter than intended: longest wait %v", maxWait))
	}
	R.Sample(map[string]any{"requests": n, "hash_cost_ms": per.Milliseconds(), "longest_wait_ms": maxWait.Milliseconds()})
}
