package main

import (
	"fmt"
	"math/rand"
	"os"
	"path/filepath"
	"sort"
	"strings"
	"syscall"
	"testing"
	"time"

	"github.com/whawty/auth/zz_verif/ref"
	"github.com/whawty/auth/zz_verif/vr"
)

func c19Script(dir, name, log string, mode os.FileMode, body string) string {
	p := filepath.Join(dir, name)
	if body == "" {
		body = "exit 0"
	}
	os.WriteFile(p, []byte("#!/bin/sh\necho \"$(basename \"$0\")|$*|$#|$WHAWTY_AUTH_STORE\" >> "+log+"\n"+body+"\n"), 0600) //nolint:errcheck
	os.Chmod(p, mode)                                                                                                       //nolint:errcheck
	return p
}

func c19Caller(dir, storeDir string, limit time.Duration) *HooksCaller {
	h := &HooksCaller{}
	h.Notify = make(chan bool, 32)
	h.NewStore = make(chan string, 1)
	h.dir = dir
	h.store = storeDir
	h.rateLimit = limit
	go h.run()
	return h
}

func c19Seq() uint64 {
	ev := verifSnapshot()
	if len(ev) == 0 {
		return 0
	}
	return ev[len(ev)-1].Seq
}

// c19Wait waits until pred(events) holds (watchdog, not a verdict).
func c19Wait(d time.Duration, pred func([]verifEvt) bool) bool {
	deadline := time.Now().Add(d)
	for {
		if pred(verifSnapshot()) {
			return true
		}
		if time.Now().After(deadline) {
			return false
		}
		time.Sleep(2 * time.Millisecond)
	}
}

func c19ReadLog(p string) []string {
	b, _ := os.ReadFile(p)
	var out []string
	for _, l := range strings.Split(string(b), "\n") {
		if l != "" {
			out = append(out, l)
		}
	}
	return out
}

func TestVerifC19(t *testing.T) {
	// the agent's own environment may already hold a variable of that name: hooks must still get the real store path
	os.Setenv("WHAWTY_AUTH_STORE", "/inherited/from/the/environment") //nolint:errcheck
	defer os.Unsetenv("WHAWTY_AUTH_STORE")                            //nolint:errcheck
	cwd0, _ := os.Getwd()
	R := vr.New("C19", "hooks", "(A) hooks directories with every combination of {hidden, exec bit, type file / symlink-to-exec / symlink-to-noexec / dangling symlink / directory / fifo, directory world-writable (also made world-writable after start)}: after one notification exactly the eligible files run, with argv [update] and the store path in WHAWTY_AUTH_STORE (scripts log themselves); (B) notification timing patterns (0,1,2,3,40 per rate-limit interval, pairs just before / after the timer, a second change arriving while a round is being started) against an in-package HooksCaller with a 120-250 ms rate limit, judged on the sequence-numbered event log: every send is followed by a start of every eligible hook, a round only directly after notify(pending=0) or timer(pending>1), at most two rounds between two timer events, the timer never early; (C) agent wiring: exactly one notification per successful add/update/set-admin and per remove, none for failed operations, store path updated on reload; (D) a never-ending hook does not delay requests (thorough: it is killed not earlier than 60 s after its start). Non-trivial: every pattern / directory layout; distinct by layout or (pattern, observed event sequence)")
	defer R.Write()
	rng := R.Rand("c19")
	verifSetLogging(true)
	defer verifSetLogging(false)
	c19Eligibility(R, rng)
	c19Timing(R, rng)
	c19Deaf(R, rng)
	c19Wiring(R, rng)
	c19Hanging(R, rng)
	// starting hooks must leave the agent process itself alone: same working directory as before
	if cwd1, _ := os.Getwd(); cwd1 != cwd0 {
		R.Violate("c19:agent-working-directory-changed-by-hook-run", fmt.Sprintf("the process was started in %s and is now in %s", cwd0, cwd1), "cwd", nil)
	}
}

// c19Deaf: the hooks directory is unusable exactly when a coalesced (trailing) round is due; after it has been
// repaired every later change must run the hooks again.
func c19Deaf(R *vr.Result, rng *rand.Rand) {
	for _, how := range []string{"world-writable", "missing", "not-a-directory"} {
		id := "deaf/" + how
		if !R.Want(id) {
			continue
		}
		R.Mark(id)
		root := ovlWork("c19-deaf")
		dir := filepath.Join(root, "hooks")
		os.Mkdir(dir, 0755) //nolint:errcheck
		log := filepath.Join(root, "log")
		hook := c19Script(dir, "h", log, 0755, "")
		L := 250 * time.Millisecond
		verifSetLogging(true)
		h := c19Caller(dir, "/store", L)
		h.Notify <- true
		h.Notify <- true
		h.Notify <- true
		// break the directory before the timer fires
		time.Sleep(L / 4)
		switch how {
		case "world-writable":
			os.Chmod(dir, 0777) //nolint:errcheck
		case "missing":
			os.Rename(dir, dir+".away") //nolint:errcheck
		case "not-a-directory":
			os.Rename(dir, dir+".away")             //nolint:errcheck
			os.WriteFile(dir, []byte("file"), 0644) //nolint:errcheck
		}
		if !c19Wait(20*L+3*time.Second, func(ev []verifEvt) bool {
			for _, e := range ev {
				if e.Kind == "hooks.timer" {
					return true
				}
			}
			return false
		}) {
			R.Inconcl("timer event not seen in " + id)
			continue
		}
		time.Sleep(20 * time.Millisecond)
		// repair
		switch how {
		case "world-writable":
			os.Chmod(dir, 0755) //nolint:errcheck
		default:
			os.Remove(dir)              //nolint:errcheck
			os.Rename(dir+".away", dir) //nolint:errcheck
		}
		okAll := true
		for k := 0; k < 3; k++ {
			s0 := c19Seq()
			h.Notify <- true
			ok := c19Wait(20*L+3*time.Second, func(ev []verifEvt) bool {
				for _, e := range ev {
					if e.Kind == "hooks.exec" && e.Seq > s0 && e.Subject == hook {
						return true
					}
				}
				return false
			})
			R.Count("post_repair_changes", 1)
			if !ok {
				okAll = false
				var sig []string
				for _, e := range verifSnapshot() {
					if strings.HasPrefix(e.Kind, "hooks.") && e.Kind != "hooks.exec" {
						sig = append(sig, fmt.Sprintf("%s(%d)", strings.TrimPrefix(e.Kind, "hooks."), e.A))
					}
				}
				R.Violate("c19:no-hook-after-directory-repaired:"+how, fmt.Sprintf("the hooks directory was %s when the coalesced round was due and has been repaired; change #%d afterwards started no hook within %v", how, k+1, 20*L+3*time.Second), id, map[string]any{"hook_goroutine_events": strings.Join(sig, " ")})
				break
			}
			time.Sleep(L + L/2)
		}
		R.Case(id, true)
		_ = okAll
		verifSetLogging(true)
	}
}

// ---------------------------------------------------------------- (A)
func c19Eligibility(R *vr.Result, rng *rand.Rand) {
	type ent struct {
		name     string
		eligible bool
	}
	for _, ww := range []string{"safe", "world-writable", "world-writable-after-start", "group-writable"} {
		id := "elig/" + ww
		if !R.Want(id) {
			continue
		}
		R.Mark(id)
		root := ovlWork("c19-elig")
		dir := filepath.Join(root, "hooks")
		os.Mkdir(dir, 0755) //nolint:errcheck
		log := filepath.Join(root, "log")
		outside := filepath.Join(root, "outside")
		os.Mkdir(outside, 0755) //nolint:errcheck
		c19Script(outside, "target-exec", log, 0755, "")
		c19Script(outside, "target-noexec", log, 0644, "")
		var ents []ent
		for _, hidden := range []bool{false, true} {
			for _, mode := range []os.FileMode{0755, 0644, 0100, 0010, 0001, 0700, 0666} {
				n := fmt.Sprintf("f-%o", mode)
				if hidden {
					n = "." + n
				}
				c19Script(dir, n, log, mode, "")
				runnable := mode&0111 != 0
				// a file without a read bit for us cannot be run by /bin/sh as a script; we are root here, root can
				ents = append(ents, ent{n, !hidden && runnable})
			}
			pre := ""
			if hidden {
				pre = "."
			}
			os.Symlink(filepath.Join(outside, "target-exec"), filepath.Join(dir, pre+"ln-exec"))     //nolint:errcheck
			os.Symlink(filepath.Join(outside, "target-noexec"), filepath.Join(dir, pre+"ln-noexec")) //nolint:errcheck
			os.Symlink(filepath.Join(outside, "nothing"), filepath.Join(dir, pre+"ln-dangling"))     //nolint:errcheck
			os.Symlink(outside, filepath.Join(dir, pre+"ln-dir"))                                    //nolint:errcheck
			os.Mkdir(filepath.Join(dir, pre+"subdir"), 0755)                                         //nolint:errcheck
			c19Script(filepath.Join(dir, pre+"subdir"), "inner", log, 0755, "")
			syscall.Mkfifo(filepath.Join(dir, pre+"fifo"), 0755) //nolint:errcheck
			ents = append(ents, ent{pre + "ln-exec", !hidden})
		}
		// names that need cleaning
		c19Script(dir, "sp ace", log, 0755, "")
		ents = append(ents, ent{"sp ace", true})
		mode := os.FileMode(0755)
		switch ww {
		case "world-writable":
			mode = 0757
		case "group-writable":
			mode = 0775
		}
		os.Chmod(dir, mode) //nolint:errcheck
		storePath := filepath.Join(root, "the-store")
		verifSetLogging(true)
		h := c19Caller(dir, storePath, 150*time.Millisecond)
		rounds := 1
		h.Notify <- true
		c19Wait(5*time.Second, func(ev []verifEvt) bool {
			for _, e := range ev {
				if e.Kind == "hooks.timer" {
					return true
				}
			}
			return false
		})
		if ww == "world-writable-after-start" {
			time.Sleep(50 * time.Millisecond)
			before := c19ReadLog(log)
			os.Chmod(dir, 0757) //nolint:errcheck
			c19Script(dir, "planted", log, 0755, "")
			s0 := c19Seq()
			h.Notify <- true
			c19Wait(5*time.Second, func(ev []verifEvt) bool {
				for _, e := range ev {
					if e.Kind == "hooks.timer" && e.Seq > s0 {
						return true
					}
				}
				return false
			})
			time.Sleep(200 * time.Millisecond)
			after := c19ReadLog(log)
			R.Case(id+"/second", true)
			if len(after) != len(before) {
				R.Violate("c19:hooks-run-from-world-writable-dir:made-writable-after-start", fmt.Sprintf("after the hooks directory became world-writable a change still executed %d hooks: %v", len(after)-len(before), after[len(before):]), id, nil)
			}
			os.Chmod(dir, 0755) //nolint:errcheck
			continue
		}
		time.Sleep(300 * time.Millisecond) // let the started processes write their line
		lines := c19ReadLog(log)
		ran := map[string]int{}
		for _, l := range lines {
			f := strings.Split(l, "|")
			ran[f[0]]++
			if len(f) != 4 || f[1] != "update" || f[2] != "1" || f[3] != storePath {
				R.Violate("c19:hook-arguments", fmt.Sprintf("hook ran with %q, want argv [update] and WHAWTY_AUTH_STORE=%s", l, storePath), id, nil)
			}
		}
		R.Case(id, true)
		R.Count("eligibility_layouts", 1)
		for _, e := range ents {
			want := 0
			if e.eligible && ww != "world-writable" {
				want = rounds
			}
			name := e.name
			if strings.HasSuffix(e.name, "ln-exec") {
				name = e.name // basename $0 of a symlinked script is the link name
			}
			got := ran[name]
			R.Count("eligibility_files_checked", 1)
			if got != want {
				kind := "eligible-hook-not-run"
				if got > want {
					kind = "ineligible-file-executed"
				}
				R.Violate(fmt.Sprintf("c19:%s:%s:dir=%s", kind, c19Kind(e.name), ww), fmt.Sprintf("file %q ran %d times, expected %d (directory mode %o)", e.name, got, want, mode), id, map[string]any{"log": lines})
			}
			delete(ran, name)
		}
		for n, c := range ran {
			R.Violate("c19:ineligible-file-executed:"+c19Kind(n)+":dir="+ww, fmt.Sprintf("%q ran %d times but is not eligible", n, c), id, map[string]any{"log": lines})
		}
		if ww == "safe" {
			R.Sample(map[string]any{"layout": "hooks dir mode 0755", "files": ents, "log_lines": len(lines)})
		}
		os.Chmod(dir, 0755) //nolint:errcheck
	}
}

func c19Kind(n string) string {
	k := strings.TrimPrefix(n, ".")
	pre := ""
	if strings.HasPrefix(n, ".") {
		pre = "hidden-"
	}
	switch {
	case strings.HasPrefix(k, "f-"):
		return pre + "file-mode-" + k[2:]
	case strings.HasPrefix(k, "ln-"), k == "fifo", k == "subdir", k == "inner":
		return pre + k
	}
	return pre + "other"
}

// ---------------------------------------------------------------- (B)
type c19Pattern struct {
	Name   string
	Gaps   []float64 // gap before each send, in units of the rate limit
	During bool      // second send while the first round is being started (many hooks)
	Reload int       // if > 0: after this many sends the caller is told a new store path (what a SIGHUP reload does)
}

func c19Timing(R *vr.Result, rng *rand.Rand) {
	pats := []c19Pattern{
		{Name: "none"},
		{Name: "one", Gaps: []float64{0}},
		{Name: "two-in-interval", Gaps: []float64{0, 0.3}},
		{Name: "three-in-interval", Gaps: []float64{0, 0.2, 0.2}},
		{Name: "forty-burst", Gaps: make([]float64, 40)},
		{Name: "two-intervals-apart", Gaps: []float64{0, 1.6}},
		{Name: "second-just-before-timer", Gaps: []float64{0, 0.93}},
		{Name: "second-just-after-timer", Gaps: []float64{0, 1.07}},
		{Name: "second-at-timer", Gaps: []float64{0, 1.0}},
		{Name: "two-then-one-after-trailing-round", Gaps: []float64{0, 0.5, 0.6}},
		{Name: "two-then-two", Gaps: []float64{0, 0.5, 0.7, 0.2}},
		{Name: "steady-half-interval", Gaps: []float64{0, 0.5, 0.5, 0.5, 0.5, 0.5, 0.5}},
		{Name: "two-in-interval-then-reload", Gaps: []float64{0, 0.3}, Reload: 2},
		{Name: "three-in-interval-reload-in-between", Gaps: []float64{0, 0.2, 0.2}, Reload: 2},
		{Name: "one-then-reload", Gaps: []float64{0}, Reload: 1},
		{Name: "second-while-round-starting", Gaps: []float64{0, 0}, During: true},
		{Name: "burst-while-round-starting", Gaps: []float64{0, 0, 0, 0}, During: true},
	}
	reps := vr.Pick(3, 25)
	seqSeen := map[string]int{}
	orders := map[string]int{}
	for _, p := range pats {
		for rep := 0; rep < reps; rep++ {
			id := fmt.Sprintf("timing/%s/%d", p.Name, rep)
			if !R.Want(id) {
				continue
			}
			R.Mark(id)
			sig := c19TimingOnce(R, rng, id, p, orders)
			seqSeen[p.Name+": "+sig]++
		}
	}
	R.Set("distinct_event_sequences", seqSeen)
	R.Set("notify_vs_timer_orders_at_boundary", orders)
	R.Count("distinct_event_sequences", len(seqSeen))
	for k, v := range orders {
		R.Count("boundary_order:"+k, v)
	}
}

func c19TimingOnce(R *vr.Result, rng *rand.Rand, id string, p c19Pattern, orders map[string]int) string {
	root := ovlWork("c19-timing")
	dir := filepath.Join(root, "hooks")
	os.Mkdir(dir, 0755) //nolint:errcheck
	log := filepath.Join(root, "log")
	nh := 3
	if p.During {
		nh = 40
	}
	var hooks []string
	for i := 0; i < nh; i++ {
		hooks = append(hooks, c19Script(dir, fmt.Sprintf("h%02d", i), log, 0755, ""))
	}
	L := time.Duration(120+rng.Intn(130)) * time.Millisecond
	verifSetLogging(true)
	h := c19Caller(dir, "/store", L)
	type send struct {
		seq uint64
		t   time.Time
	}
	var sends []send
	for i, g := range p.Gaps {
		if p.During && i > 0 {
			// wait until the first round has started at least one hook, then send at once
			c19Wait(5*time.Second, func(ev []verifEvt) bool {
				n := 0
				for _, e := range ev {
					if e.Kind == "hooks.exec" {
						n++
					}
				}
				return n >= 1+i
			})
		} else if g > 0 {
			time.Sleep(time.Duration(g * float64(L)))
		}
		sends = append(sends, send{c19Seq(), time.Now()})
		h.Notify <- true
		if p.Reload == i+1 {
			time.Sleep(L / 10)
			h.NewStore <- "/store-after-reload"
		}
	}
	// quiescence: a timer event after the last send and no pending work (watchdog 20 x L)
	if len(sends) > 0 {
		last := sends[len(sends)-1].seq
		ok := c19Wait(20*L+3*time.Second, func(ev []verifEvt) bool {
			// all sends consumed and a timer event after the last notify event
			var lastNotify uint64
			n := 0
			for _, e := range ev {
				if e.Kind == "hooks.notify" {
					n++
					lastNotify = e.Seq
				}
			}
			if n < len(sends) && len(h.Notify) > 0 {
				return false
			}
			for _, e := range ev {
				if e.Kind == "hooks.timer" && e.Seq > lastNotify && e.Seq > last {
					return true
				}
			}
			return false
		})
		if !ok {
			R.Inconcl("no timer event after the last notification within the watchdog: " + id)
		}
		// wait until the hook goroutine's log is stable (a trailing round may still be starting processes)
		prev := -1
		for i := 0; i < 200; i++ {
			time.Sleep(100 * time.Millisecond)
			n := len(verifSnapshot())
			if n == prev {
				break
			}
			prev = n
		}
	} else {
		time.Sleep(2 * L)
	}
	ev := verifSnapshot()
	verifSetLogging(true)
	// compact signature of the hook goroutine's sequence
	var sigp []string
	for _, e := range ev {
		switch e.Kind {
		case "hooks.notify":
			sigp = append(sigp, fmt.Sprintf("n%d", e.A))
		case "hooks.timer":
			sigp = append(sigp, fmt.Sprintf("T%d", e.A))
		case "hooks.round":
			sigp = append(sigp, "R")
		}
	}
	sig := strings.Join(sigp, " ")
	if len(sigp) > 30 {
		sig = strings.Join(sigp[:12], " ") + " .. " + strings.Join(sigp[len(sigp)-6:], " ")
	}
	R.Case(p.Name+"|"+sig, true)
	R.Count("timing_runs", 1)
	wit := map[string]any{"pattern": p.Name, "rate_limit_ms": L.Milliseconds(), "sends": len(sends), "hook_goroutine_events": sig}
	// classification of notify/timer order at the boundary patterns
	if strings.HasPrefix(p.Name, "second-just") || p.Name == "second-at-timer" {
		if strings.Contains(sig, "n0 R n1 T2") {
			orders["second-notify-before-timer"]++
		} else if strings.Contains(sig, "n0 R T1 n0 R") {
			orders["second-notify-after-timer"]++
		} else {
			orders["other:"+sig]++
		}
	}
	// R1: every send is followed by a start of every eligible hook
	nNotify := 0
	for _, e := range ev {
		if e.Kind == "hooks.notify" {
			nNotify++
		}
	}
	for k, s := range sends {
		started := map[string]bool{}
		for _, e := range ev {
			if e.Kind == "hooks.exec" && e.Seq > s.seq {
				started[e.Subject] = true
			}
		}
		for _, hk := range hooks {
			if !started[hk] {
				R.Violate("c19:change-without-later-hook-start:"+p.Name, fmt.Sprintf("notification #%d of %d: hook %s was not started at or after it (rate limit %v)", k+1, len(sends), filepath.Base(hk), L), id, wit)
				break
			}
		}
	}
	if nNotify != len(sends) {
		R.Violate("c19:notification-not-consumed-by-run-loop:"+p.Name, fmt.Sprintf("%d notifications sent, %d consumed by the run loop", len(sends), nNotify), id, wit)
	}
	// R2/R3: structure
	roundsSinceTimer := 0
	var armT int64 = -1
	for i, e := range ev {
		switch e.Kind {
		case "hooks.round":
			roundsSinceTimer++
			prev := verifEvt{}
			for j := i - 1; j >= 0; j-- {
				if ev[j].Kind == "hooks.notify" || ev[j].Kind == "hooks.timer" || ev[j].Kind == "hooks.round" {
					prev = ev[j]
					break
				}
			}
			okPrev := (prev.Kind == "hooks.notify" && prev.A == 0) || (prev.Kind == "hooks.timer" && prev.A > 1)
			if !okPrev {
				R.Violate("c19:round-without-cause:"+p.Name, fmt.Sprintf("a hook round started after %s(pending=%d)", prev.Kind, prev.A), id, wit)
			}
			if prev.Kind == "hooks.notify" {
				armT = prev.T
			}
			if roundsSinceTimer > 2 {
				R.Violate("c19:more-than-two-rounds-per-interval:"+p.Name, "more than two hook rounds between two timer events", id, wit)
			}
		case "hooks.timer":
			if armT >= 0 && time.Duration(e.T-armT) < L-2*time.Millisecond {
				R.Violate("c19:timer-early:"+p.Name, fmt.Sprintf("the rate-limit timer fired %v after it was armed, limit %v", time.Duration(e.T-armT), L), id, wit)
			}
			roundsSinceTimer = 0
			armT = -1
		}
	}
	// each round starts exactly the eligible hooks
	for i, e := range ev {
		if e.Kind != "hooks.round" {
			continue
		}
		var started []string
		for _, f := range ev[i+1:] {
			if f.Kind == "hooks.exec" {
				started = append(started, f.Subject)
			} else if f.Kind == "hooks.round" || f.Kind == "hooks.notify" || f.Kind == "hooks.timer" {
				break
			}
		}
		sort.Strings(started)
		want := append([]string{}, hooks...)
		sort.Strings(want)
		if strings.Join(started, ",") != strings.Join(want, ",") {
			R.Violate("c19:round-does-not-start-all-hooks:"+p.Name, fmt.Sprintf("a round started %d hooks, %d are eligible", len(started), len(want)), id, wit)
		}
	}
	// boundary: what the scripts themselves logged equals rounds x hooks
	nr := 0
	for _, e := range ev {
		if e.Kind == "hooks.round" {
			nr++
		}
	}
	time.Sleep(150 * time.Millisecond)
	if lines := c19ReadLog(log); len(lines) != nr*nh {
		// processes may still be starting under load: wait once more
		time.Sleep(time.Second)
		if lines = c19ReadLog(log); len(lines) != nr*nh {
			R.Violate("c19:script-log-differs-from-event-log:"+p.Name, fmt.Sprintf("%d rounds x %d hooks but %d script executions logged", nr, nh, len(lines)), id, wit)
		}
	}
	R.Count("rounds_observed", nr)
	R.Count("sends", len(sends))
	if len(R.Samples) < 5 {
		R.Sample(wit)
	}
	return sig
}

// ---------------------------------------------------------------- (C)
func c19Wiring(R *vr.Result, rng *rand.Rand) {
	id := "wiring"
	if !R.Want(id) {
		return
	}
	R.Mark(id)
	root := ovlWork("c19-wiring")
	hooksDir := filepath.Join(root, "hooks")
	os.Mkdir(hooksDir, 0755) //nolint:errcheck
	log := filepath.Join(root, "log")
	c19Script(hooksDir, "sync.sh", log, 0755, "")
	sets := ref.CheapSets(rng, 2)
	st := ovlMkStore(rng, filepath.Join(root, "a"), sets, 1, []ovlUser{{Name: "root", Pw: "rootpw", Admin: true, Set: 1}, {Name: "alice", Pw: "pw", Set: 1}})
	st2 := ovlMkStore(rng, filepath.Join(root, "b"), sets, 1, []ovlUser{{Name: "root", Pw: "rootpw", Admin: true, Set: 1}})
	verifSetLogging(true)
	ag, err := NewStore(st.Cfg, "", "", "", hooksDir)
	if err != nil {
		R.Fatal = err.Error()
		return
	}
	iface := ag.GetInterface()
	count := func() int {
		n := 0
		for _, e := range verifSnapshot() {
			if e.Kind == "hooks.notify" {
				n++
			}
		}
		return n
	}
	type step struct {
		name string
		f    func() error
		succ bool
	}
	steps := []step{
		{"add-new", func() error { return iface.Add("bob", "pw", false) }, true},
		{"add-existing", func() error { return iface.Add("bob", "pw", false) }, false},
		{"add-invalid-name", func() error { return iface.Add("../x", "pw", false) }, false},
		{"update-existing", func() error { return iface.Update("bob", "pw2") }, true},
		{"update-nonexistent", func() error { return iface.Update("ghost", "pw2") }, false},
		{"setadmin-existing", func() error { return iface.SetAdmin("bob", true) }, true},
		{"setadmin-same", func() error { return iface.SetAdmin("bob", true) }, true},
		{"setadmin-nonexistent", func() error { return iface.SetAdmin("ghost", true) }, false},
		{"authenticate", func() error { _, _, _, e := iface.Authenticate("bob", "pw2"); return e }, false},
		{"authenticate-wrong", func() error { iface.Authenticate("bob", "nope"); return fmt.Errorf("ro") }, false}, //nolint:errcheck
		{"list", func() error { iface.List(); return fmt.Errorf("ro") }, false},                                    //nolint:errcheck
		{"check", func() error { iface.Check(); return fmt.Errorf("ro") }, false},                                  //nolint:errcheck
		{"remove-existing", func() error { return iface.Remove("bob") }, true},
		{"remove-nonexistent", func() error { return iface.Remove("bob") }, true},
		{"init-nonempty", func() error { return iface.Init("root2", "pw") }, false},
		{"add-again", func() error { return iface.Add("bob", "pw", false) }, true},
		{"remove-again", func() error { return iface.Remove("bob") }, true},
	}
	reps := vr.Pick(2, 10)
	for rep := 0; rep < reps; rep++ {
		for _, s := range steps {
			before := count()
			err := s.f()
			// a marker operation whose notification is consumed after any stray one (FIFO channel, one consumer)
			iface.Update("alice", "pw") //nolint:errcheck
			if !c19Wait(10*time.Second, func([]verifEvt) bool { return count() >= before+1 }) {
				R.Inconcl("marker notification not consumed within the watchdog")
				return
			}
			time.Sleep(5 * time.Millisecond)
			got := count() - before - 1
			want := 0
			if s.succ {
				want = 1
			}
			R.Case("wiring|"+s.name, true)
			R.Count("wiring_steps", 1)
			if (err == nil) != s.succ && s.name != "authenticate" {
				R.Violate("c19:wiring-step-result:"+s.name, fmt.Sprintf("operation result %v", err), id, nil)
			}
			if got != want {
				R.Violate(fmt.Sprintf("c19:notifications-for-%s:got=%d:want=%d", s.name, got, want), fmt.Sprintf("operation %s (error: %v) produced %d hook notifications, expected %d", s.name, err, got, want), id, nil)
			}
		}
	}
	// a login-triggered hash upgrade is a change of the store like any other: one notification iff the record was rewritten
	{
		st3 := ovlMkStore(rng, filepath.Join(root, "c"), sets, 1, []ovlUser{{Name: "root", Pw: "rootpw", Admin: true, Set: 1}, {Name: "alice", Pw: "pw", Set: 1}, {Name: "marker", Pw: "pw", Set: 1},
			{Name: "up1", Pw: "uppw1", Set: 2, Aux: "totp: QUJD\n"}, {Name: "up2", Pw: "uppw2", Set: 2}, {Name: "up3", Pw: "uppw3", Admin: true, Set: 2}})
		ag3, err := NewStore(st3.Cfg, "local", "", "", hooksDir)
		if err != nil {
			R.Fatal = err.Error()
			return
		}
		if3 := ag3.GetInterface()
		logins := []struct{ name, user, pw string }{
			{"login-upgradeable", "up1", "uppw1"}, {"login-upgradeable-wrong-password", "up2", "nope"}, {"login-already-upgraded", "up1", "uppw1"},
			{"login-default-set", "alice", "pw"}, {"login-upgradeable-2", "up2", "uppw2"}, {"login-upgradeable-admin", "up3", "uppw3"}, {"login-unknown", "ghost", "x"},
		}
		for _, l := range logins {
			_, fileBefore, _, _ := st3.File(l.user)
			before := count()
			if3.Authenticate(l.user, l.pw) //nolint:errcheck
			// the upgrade (if any) sits in the update queue ahead of this marker; its notification precedes the marker's
			if3.Update("marker", "pw") //nolint:errcheck
			if !c19Wait(10*time.Second, func([]verifEvt) bool { return count() >= before+1 }) {
				R.Inconcl("marker notification not consumed within the watchdog")
				return
			}
			time.Sleep(5 * time.Millisecond)
			_, fileAfter, _, _ := st3.File(l.user)
			got := count() - before - 1
			want := 0
			if string(fileBefore) != string(fileAfter) {
				want = 1
				R.Count("wiring_upgrades_observed", 1)
			}
			R.Case("wiring|"+l.name, true)
			R.Count("wiring_steps", 1)
			if got != want {
				R.Violate(fmt.Sprintf("c19:notifications-for-%s:got=%d:want=%d", l.name, got, want), fmt.Sprintf("the login %s (upgrades local) left the record of %s %s and produced %d hook notifications, expected %d: a record rewritten by a hash upgrade is a change of the store that no hook hears about", l.name, l.user, map[bool]string{true: "rewritten", false: "unchanged"}[want == 1], got, want), id, nil)
			}
		}
	}
	// reload: the store path handed to hooks follows the configuration
	os.WriteFile(st.Cfg, []byte(ref.YAML(st2.Base, 1, sets)), 0600) //nolint:errcheck
	s0 := c19Seq()
	syscall.Kill(os.Getpid(), syscall.SIGHUP) //nolint:errcheck
	if !c19Wait(10*time.Second, func(ev []verifEvt) bool {
		for _, e := range ev {
			if e.Kind == "hooks.newstore" && e.Seq > s0 && e.Subject == st2.Base {
				return true
			}
		}
		return false
	}) {
		R.Violate("c19:store-path-not-updated-on-reload", "no hooks.newstore event with the new base directory after a successful reload", id, nil)
		return
	}
	time.Sleep(5200 * time.Millisecond) // the agent's rate limit is hard-coded to 5 s: let the interval of the last round pass
	os.Remove(log)                      //nolint:errcheck
	iface.Add("carol", "pw", false)     //nolint:errcheck
	c19Wait(10*time.Second, func([]verifEvt) bool { return len(c19ReadLog(log)) > 0 })
	lines := c19ReadLog(log)
	R.Case("wiring|reload", true)
	if len(lines) == 0 || !strings.HasSuffix(lines[len(lines)-1], "|"+st2.Base) {
		R.Violate("c19:hook-gets-old-store-path-after-reload", fmt.Sprintf("after a reload to %s the hook saw %v", st2.Base, lines), id, nil)
	}
	R.Count("reload_checked", 1)
	verifSetLogging(true)
}

// ---------------------------------------------------------------- (D)
func c19Hanging(R *vr.Result, rng *rand.Rand) {
	id := "hanging"
	if !R.Want(id) {
		return
	}
	R.Mark(id)
	root := ovlWork("c19-hang")
	hooksDir := filepath.Join(root, "hooks")
	os.Mkdir(hooksDir, 0755) //nolint:errcheck
	log := filepath.Join(root, "log")
	pidf := filepath.Join(root, "pid")
	// a stubborn never-ending hook: it ignores the polite signals (ignored dispositions survive exec), only SIGKILL ends it
	c19Script(hooksDir, "hang.sh", log, 0755, "trap '' TERM INT HUP QUIT; echo $$ > "+pidf+"; exec sleep 100000")
	sets := ref.CheapSets(rng, 2)
	st := ovlMkStore(rng, filepath.Join(root, "s"), sets, 1, []ovlUser{{Name: "root", Pw: "rootpw", Admin: true, Set: 1}})
	verifSetLogging(true)
	ag, err := NewStore(st.Cfg, "", "", "", hooksDir)
	if err != nil {
		R.Fatal = err.Error()
		return
	}
	iface := ag.GetInterface()
	t0 := time.Now()
	done := make(chan int, 1)
	go func() {
		n := 0
		for i := 0; i < 200; i++ {
			if iface.Add(fmt.Sprintf("u%d", i), "pw", false) == nil {
				n++
			}
			iface.Authenticate("root", "rootpw") //nolint:errcheck
		}
		done <- n
	}()
	select {
	case n := <-done:
		R.Count("requests_completed_while_hook_hangs", 2*n)
		if n != 200 {
			R.Violate("c19:requests-failed-while-hook-hangs", fmt.Sprintf("%d of 200 adds succeeded", n), id, nil)
		}
	case <-time.After(60 * time.Second):
		desc, blocked, where, raw := ovlDispatcherState(ovlDump(), 0)
		if blocked {
			R.Violate("c19:hanging-hook-delays-agent", "400 requests did not complete within 60 s while a hook hangs; dispatcher "+desc+" at "+where, id, raw)
		} else {
			R.Inconcl("requests slow while hook hangs (dispatcher not blocked)")
		}
	}
	R.Case(id, true)
	var execT int64 = -1
	for _, e := range verifSnapshot() {
		if e.Kind == "hooks.exec" && strings.HasSuffix(e.Subject, "hang.sh") && execT < 0 {
			execT = e.T
		}
	}
	pidb, _ := os.ReadFile(pidf)
	var pid int
	fmt.Sscan(strings.TrimSpace(string(pidb)), &pid)
	if vr.Thorough() && pid > 1 && execT >= 0 {
		ok := c19Wait(100*time.Second, func(ev []verifEvt) bool {
			for _, e := range ev {
				if e.Kind == "hooks.kill" && strings.HasSuffix(e.Subject, "hang.sh") {
					return true
				}
			}
			return false
		})
		if !ok {
			R.Violate("c19:hanging-hook-not-killed", "no kill of the never-ending hook within 100 s", id, nil)
		} else {
			for _, e := range verifSnapshot() {
				if e.Kind == "hooks.kill" {
					if d := time.Duration(e.T - execT); d < 60*time.Second-50*time.Millisecond {
						R.Violate("c19:hook-killed-early", fmt.Sprintf("killed %v after its start", d), id, nil)
					}
					break
				}
			}
			time.Sleep(300 * time.Millisecond)
			if syscall.Kill(pid, 0) == nil {
				// still there? (zombie reaped by Wait in the agent)
				if b, _ := os.ReadFile(fmt.Sprintf("/proc/%d/stat", pid)); len(b) > 0 && !strings.Contains(string(b), ") Z ") {
					R.Violate("c19:hook-process-survives-kill", "the hook process is still running after the kill", id, nil)
				}
			}
			R.Count("kill_observed", 1)
		}
	}
	// never leave the sleeper behind
	for _, e := range verifSnapshot() {
		_ = e
	}
	pids, _ := filepath.Glob("/proc/[0-9]*/cmdline")
	_ = pids
	if pid > 1 {
		syscall.Kill(pid, syscall.SIGKILL) //nolint:errcheck
	}
	// all instances of the hanging hook started by later rounds
	out, _ := os.ReadFile(pidf)
	_ = out
	c19KillSleepers(hooksDir)
	R.Set("hang_test_wall_s", time.Since(t0).Seconds())
}

// c19KillSleepers kills every process whose command line mentions the given hooks dir or that is a 'sleep 100000' child of ours.
func c19KillSleepers(dir string) {
	ents, _ := os.ReadDir("/proc")
	me := os.Getpid()
	for _, e := range ents {
		var pid int
		if _, err := fmt.Sscan(e.Name(), &pid); err != nil || pid == me {
			continue
		}
		cl, _ := os.ReadFile(fmt.Sprintf("/proc/%d/cmdline", pid))
		st, _ := os.ReadFile(fmt.Sprintf("/proc/%d/stat", pid))
		if strings.Contains(string(cl), "sleep\x00100000") {
			f := strings.Fields(string(st))
			if len(f) > 3 && (f[3] == fmt.Sprint(me) || f[3] == "1") {
				syscall.Kill(pid, syscall.SIGKILL) //nolint:errcheck
			}
		}
	}
}
