package main

import (
	"fmt"
	"math/rand"
	"os"
	"path/filepath"
	"sort"
	"strings"
	"testing"
	"time"

	"github.com/whawty/auth/zz_verif/ref"
	"github.com/whawty/auth/zz_verif/vr"
)

// TestVerifC01Agent: the history property at the agent's request interface (upgrades off and local):
// after every operation the verdict, admin flag, last-changed time and list must be those of the model.
func TestVerifC01Agent(t *testing.T) {
	R := vr.New("C01", "agent-history", "sequential operation histories (add, update, set-admin, remove, failed operations, logins with right / stale / other users' passwords) through the agent's request interface with hash upgrades off and local; after every operation every user is authenticated with its current password and with every password it ever had, and list is compared with a sequential model: verdict, admin flag and last-changed time must be those of the most recent successful write. Non-trivial: a history with >= 1 update, >= 1 set-admin and >= 1 remove; distinct by operation sequence")
	defer R.Write()
	rng := R.Rand("c01a")
	nh := vr.Pick(60, 1500)
	for h := 0; h < nh; h++ {
		id := fmt.Sprintf("h%d", h)
		if !R.Want(id) {
			continue
		}
		R.Mark(id)
		c01AgentHistory(R, rand.New(rand.NewSource(rng.Int63())), id, []string{"", "local"}[h%2])
	}
}

type c01aUser struct {
	pw       string
	admin    bool
	tLo, tHi int64
	old      []string
}

func c01AgentHistory(R *vr.Result, rng *rand.Rand, id, mode string) {
	dir := ovlWork("c01a")
	sets := ref.CheapSets(rng, 3)
	planted := []ovlUser{{Name: "root", Pw: "rootpw", Admin: true, Set: 2}, {Name: "alice", Pw: "alicepw", Set: 3}, {Name: "bob", Pw: "bobpw", Admin: true, Set: 1}}
	st := ovlMkStore(rng, dir, sets, 1, planted)
	hooksDir := ""
	variant := ""
	cfgPath := st.Cfg
	if rng.Intn(2) == 0 {
		// an agent started in the directory above its store, with a relative base directory and update hooks
		if err := os.Chdir(dir); err == nil {
			cfgPath = filepath.Join(dir, "relative.yml")
			os.WriteFile(cfgPath, []byte(ref.YAML("base", 1, sets)), 0600) //nolint:errcheck
			hooksDir = filepath.Join(dir, "hooks")
			os.Mkdir(hooksDir, 0700)                                                              //nolint:errcheck
			os.WriteFile(filepath.Join(hooksDir, "sync.sh"), []byte("#!/bin/sh\nexit 0\n"), 0700) //nolint:errcheck
			variant = "+relative-basedir+hooks"
			R.Count("histories_with_relative_basedir_and_hooks", 1)
		}
	}
	ag, err := NewStore(cfgPath, mode, "", "", hooksDir)
	if err != nil {
		R.Fatal = err.Error()
		return
	}
	iface := ag.GetInterface()
	now := time.Now().Unix()
	model := map[string]*c01aUser{}
	for _, u := range planted {
		model[u.Name] = &c01aUser{pw: u.Pw, admin: u.Admin, tLo: now - 3601, tHi: now - 3599}
	}
	pool := []string{"root", "alice", "bob", "carol", "dave"}
	var hist []string
	nUpd, nSet, nRem := 0, 0, 0
	viol := func(sig, what string) {
		R.Violate(sig, what, id, map[string]any{"mode": mode + variant, "history": hist})
	}
	for i := 0; i < vr.Pick(25, 40); i++ {
		u := pool[rng.Intn(len(pool))]
		m := model[u]
		switch k := rng.Intn(100); {
		case k < 20:
			adm := rng.Intn(3) == 0
			pw := fmt.Sprintf("added-%d", i) + c01aTail(rng)
			t0 := time.Now().Unix()
			err := iface.Add(u, pw, adm)
			hist = append(hist, fmt.Sprintf("add(%s,%v)=%v", u, adm, err == nil))
			if (err == nil) != (m == nil) {
				viol("c01:agent:op-result:add", fmt.Sprintf("add(%s) returned %v, user exists in model: %v", u, err, m != nil))
			}
			if err == nil && m == nil {
				model[u] = &c01aUser{pw: pw, admin: adm, tLo: t0, tHi: time.Now().Unix()}
			}
		case k < 45:
			pw := fmt.Sprintf("updated-%d", i) + c01aTail(rng)
			t0 := time.Now().Unix()
			err := iface.Update(u, pw)
			hist = append(hist, fmt.Sprintf("update(%s)=%v", u, err == nil))
			if (err == nil) != (m != nil) {
				viol("c01:agent:op-result:update", fmt.Sprintf("update(%s) returned %v", u, err))
			}
			if err == nil && m != nil {
				m.old = append(m.old, m.pw)
				m.pw, m.tLo, m.tHi = pw, t0, time.Now().Unix()
				nUpd++
			}
		case k < 65:
			adm := rng.Intn(2) == 0
			err := iface.SetAdmin(u, adm)
			hist = append(hist, fmt.Sprintf("setadmin(%s,%v)=%v", u, adm, err == nil))
			if (err == nil) != (m != nil) {
				viol("c01:agent:op-result:setadmin", fmt.Sprintf("setadmin(%s) returned %v", u, err))
			}
			if err == nil && m != nil {
				m.admin = adm
				nSet++
			}
		case k < 78:
			iface.Remove(u) //nolint:errcheck
			hist = append(hist, fmt.Sprintf("remove(%s)", u))
			if m != nil {
				nRem++
			}
			delete(model, u)
		default:
			// a login (may trigger a local upgrade of a planted record)
			pw := "wrong"
			if m != nil {
				pw = m.pw
			}
			iface.Authenticate(u, pw) //nolint:errcheck
			hist = append(hist, fmt.Sprintf("login(%s)", u))
		}
		iface.Update("zz-barrier", "x") //nolint:errcheck
		// observe everything
		for _, n := range pool {
			mu := model[n]
			cands := []string{"never-a-password"}
			if mu != nil {
				cands = append(cands, mu.pw)
				cands = append(cands, mu.old...)
			}
			for _, pw := range cands {
				ok, adm, lc, _ := iface.Authenticate(n, pw)
				R.Count("agent_auth_probes", 1)
				want := mu != nil && pw == mu.pw
				if ok != want {
					viol(fmt.Sprintf("c01:agent:auth-verdict:want=%v", want), fmt.Sprintf("authenticate(%s,%q)=%v, model current password %q", n, pw, ok, func() string {
						if mu != nil {
							return mu.pw
						}
						return "<absent>"
					}()))
				}
				if ok && want {
					if adm != mu.admin {
						viol("c01:agent:auth-admin-flag", fmt.Sprintf("authenticate(%s) reports admin=%v, the user's current record says %v", n, adm, mu.admin))
					}
					// a local upgrade rewrites the record (same password): the time stamp may be that of the upgrade
					if lc.Unix() < mu.tLo || (lc.Unix() > mu.tHi && mode == "") || lc.Unix() > time.Now().Unix() {
						viol("c01:agent:auth-lastchanged", fmt.Sprintf("authenticate(%s) reports last-changed %d, write bracket [%d,%d]", n, lc.Unix(), mu.tLo, mu.tHi))
					}
				}
			}
		}
		l, lerr := iface.List()
		lf, _ := iface.ListFull()
		var got, want []string
		for n, e := range l {
			got = append(got, fmt.Sprintf("%s:%v", n, e.IsAdmin))
			if mu := model[n]; mu != nil {
				fe := lf[n]
				for _, lc := range []int64{e.LastChanged.Unix(), fe.LastChanged.Unix()} {
					if lc < mu.tLo || (lc > mu.tHi && mode == "") || lc > time.Now().Unix() {
						viol("c01:agent:list-lastchanged", fmt.Sprintf("list/list-full report last-changed %d for %s, the current record was written in [%d,%d]", lc, n, mu.tLo, mu.tHi))
					}
				}
				if mode == "" && mu.tLo > now-3000 && fe.ParamID != 1 {
					viol("c01:agent:listfull-paramid", fmt.Sprintf("list-full reports parameter set %d for %s whose record was last written under the default set 1", fe.ParamID, n))
				}
			}
		}
		for n, mu := range model {
			want = append(want, fmt.Sprintf("%s:%v", n, mu.admin))
		}
		sort.Strings(got)
		sort.Strings(want)
		if lerr != nil || strings.Join(got, ",") != strings.Join(want, ",") {
			viol("c01:agent:list-mismatch", fmt.Sprintf("list = %v (%v), model = %v", got, lerr, want))
		}
	}
	R.Case(strings.Join(hist, ";"), nUpd >= 1 && nSet >= 1 && nRem >= 1)
	R.Count("agent_operations", len(hist))
	if len(R.Samples) < 2 {
		R.Sample(map[string]any{"history": id, "mode": mode, "ops": hist})
	}
}

// c01aTail: most passwords end plainly, some end in bytes that careless input handling strips.
func c01aTail(rng *rand.Rand) string {
	return []string{"", "", "", "\n", "\r\n", " ", "\t", "\x00x", " \n"}[rng.Intn(9)]
}
