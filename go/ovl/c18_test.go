package main

import (
	"fmt"
	"math/rand"
	"os"
	"path/filepath"
	"strings"
	"sync"
	"sync/atomic"
	"syscall"
	"testing"
	"time"

	"github.com/whawty/auth/zz_verif/ref"
	"github.com/whawty/auth/zz_verif/vr"
)

type c18Conf struct {
	Name string
	Base string
	Def  uint
	Sets []ref.ParamSet
}

func (c c18Conf) yaml() string { return ref.YAML(c.Base, c.Def, c.Sets) }

// c18Answered counts the requests the background clients got answered (set by the reload test).
var c18Answered *int64

// c18Lost is set when a reload signal was followed by hundreds of answered requests but no reload.
var c18Lost bool

func c18Reload(cfgPath, content string) bool {
	os.WriteFile(cfgPath, []byte(content), 0600) //nolint:errcheck
	n0 := 0
	for _, e := range verifSnapshot() {
		if e.Kind == "exec.reload" {
			n0++
		}
	}
	var a0 int64
	if c18Answered != nil {
		a0 = atomic.LoadInt64(c18Answered)
	}
	syscall.Kill(os.Getpid(), syscall.SIGHUP) //nolint:errcheck
	c18Lost = false
	return c19Wait(20*time.Second, func(ev []verifEvt) bool {
		n := 0
		for _, e := range ev {
			if e.Kind == "exec.reload" {
				n++
			}
		}
		if n > n0 {
			return true
		}
		// the dispatcher has gone through its select hundreds of times with the signal pending (Go picks among ready
		// cases at random, so a pending signal is taken with overwhelming probability): the signal is lost, not late
		if c18Answered != nil && atomic.LoadInt64(c18Answered)-a0 >= 400 {
			c18Lost = true
		}
		return c18Lost
	}) && !c18Lost
}

// c18Which determines from observable behaviour which configuration the agent is serving:
// a freshly added user lands in exactly one base dir, under a default, verifying with that config's parameters.
func c18Which(R *vr.Result, id string, iface *Store, confs []c18Conf, n *int) (name string, detail string) {
	*n++
	user := fmt.Sprintf("probe%d", *n)
	pw := fmt.Sprintf("probe-pw-%d", *n)
	if err := iface.Add(user, pw, false); err != nil {
		return "add-failed", err.Error()
	}
	var found []string
	for _, c := range confs {
		for _, ext := range []string{".user", ".admin"} {
			p := filepath.Join(c.Base, user+ext)
			data, err := os.ReadFile(p)
			if err != nil {
				continue
			}
			rec, ok := ref.ParseStrict(data)
			if !ok {
				found = append(found, c.Name+":unparsable-record")
				continue
			}
			// which configuration's parameters verify it?
			ver := "none"
			for _, c2 := range confs {
				sm := ref.SetMap(c2.Sets)
				if ps, has := sm[rec.ID]; has && rec.ID == c2.Def && ps.Algo == rec.Algo && ref.MustAccept(sm, data, []byte(pw)) {
					ver = c2.Name
					break
				}
			}
			found = append(found, fmt.Sprintf("dir=%s,set=%d,verifies-with=%s", c.Name, rec.ID, ver))
			os.Remove(p) //nolint:errcheck
		}
	}
	if len(found) != 1 {
		return "anomalous", strings.Join(found, " + ")
	}
	f := found[0]
	for _, c := range confs {
		if f == fmt.Sprintf("dir=%s,set=%d,verifies-with=%s", c.Name, c.Def, c.Name) {
			return c.Name, f
		}
	}
	return "mixture", f
}

func TestVerifC18Reload(t *testing.T) { c18ReloadBody("reload", true) }

// the same with update hooks disabled (the default): the agent's hook goroutine then only drains its channels
func TestVerifC18ReloadNoHooks(t *testing.T) { c18ReloadBody("reload-nohooks", false) }

func c18ReloadBody(stage string, withHooks bool) {
	R := vr.New("C18", stage, "an in-process agent (update hooks "+map[bool]string{true: "configured", false: "not configured"}[withHooks]+") receives SIGHUP after its configuration file was replaced by (a) a good configuration with different base directory, default and HMAC keys, (b) documents that do not load (syntax error, unknown key, undefined default, two algorithms, id 0), (c) configurations whose directory fails the consistency check (empty, no admin, both extensions, foreign file, same base directory but the admin's parameter set removed), (d) a good configuration that drops a parameter set, and one that changes only values inside a set (same base directory, default, ids, algorithms); after each reload the configuration actually served is identified from behaviour (where a newly added record lands, which default it names, which HMAC key verifies it; which users authenticate) and must be the complete new one after a good reload and the complete previous one otherwise - never a mixture; the store path handed to the update hooks (hook event and the WHAWTY_AUTH_STORE seen by a real hook script) must never be a directory of a rejected reload; background clients run through all reloads and every request must be answered. Non-trivial: every reload; distinct by (previous configuration, reload kind)")
	defer R.Write()
	rng := R.Rand("c18r")
	verifSetLogging(true)
	defer verifSetLogging(false)
	root := ovlWork("c18r")
	mkSets := func(tag byte) []ref.ParamSet {
		k1, k2 := make([]byte, 32), make([]byte, 32)
		for i := range k1 {
			k1[i], k2[i] = tag, tag+1
		}
		return []ref.ParamSet{{ID: 1, Algo: ref.AlgoScrypt, HmacKey: k1, Cost: 2, R: 1, P: 1}, {ID: 2, Algo: ref.AlgoScrypt, HmacKey: k2, Cost: 3, R: 2, P: 1}, {ID: 3, Algo: ref.AlgoArgon, Time: 1, Memory: 8, Threads: 1, Length: 16 + uint32(tag%2)*16},
			{ID: 7, Algo: ref.AlgoScrypt, HmacKey: k1, Cost: 14, R: 8, P: 1}} // ~50 ms per verification: keeps the dispatcher busy
	}
	A := c18Conf{Name: "A", Base: filepath.Join(root, "A"), Def: 1, Sets: mkSets(0x10)}
	B := c18Conf{Name: "B", Base: filepath.Join(root, "B"), Def: 2, Sets: mkSets(0x60)}
	confs := []c18Conf{A, B}
	cfg := filepath.Join(root, "store.yml")
	plant := func(c c18Conf, users []ovlUser) {
		st := &ovlStore{Dir: root, Base: c.Base, Cfg: filepath.Join(root, "unused.yml"), Sets: c.Sets, Def: c.Def, Users: map[string]*ovlUser{}}
		os.MkdirAll(filepath.Join(c.Base, ".tmp"), 0700) //nolint:errcheck
		for _, u := range users {
			st.Plant(rng, u)
		}
	}
	plant(A, []ovlUser{{Name: "root", Pw: "rootA", Admin: true, Set: 1}, {Name: "onlyA", Pw: "pwA", Set: 1}, {Name: "mix", Pw: "mixA", Set: 1}, {Name: "a3", Pw: "a3pw", Set: 3}, {Name: "slow", Pw: "slowpw", Set: 7}, {Name: "bgupd", Pw: "bgupd-0", Set: 1}})
	plant(B, []ovlUser{{Name: "root", Pw: "rootB", Admin: true, Set: 2}, {Name: "onlyB", Pw: "pwB", Set: 2}, {Name: "mix", Pw: "mixB", Set: 1}, {Name: "b3", Pw: "b3pw", Set: 3}, {Name: "slow", Pw: "slowpw", Set: 7}, {Name: "bgupd", Pw: "bgupd-0", Set: 2}})
	os.WriteFile(cfg, []byte(A.yaml()), 0600) //nolint:errcheck
	hooksDir := filepath.Join(root, "hooks")
	hooksLog := filepath.Join(root, "hooks.log")
	os.MkdirAll(hooksDir, 0700) //nolint:errcheck
	c19Script(hooksDir, "rec", hooksLog, 0700, "")
	if !withHooks {
		hooksDir = ""
	}
	mode := ""
	if !withHooks {
		mode = "local" // login-triggered upgrades share the update queue with the clients' updates
	}
	ag, err := NewStore(cfg, mode, "", "", hooksDir)
	if err != nil {
		R.Fatal = err.Error()
		return
	}
	iface := ag.GetInterface()
	iface.Check() //nolint:errcheck  (a served request proves the dispatcher runs and has installed its SIGHUP handler)
	// the update hooks are part of the configuration in effect: the store path they are given (hooks.newstore events and
	// the WHAWTY_AUTH_STORE a hook script really saw) may only ever be a base directory that was being served
	hooksSeen := map[string]bool{}
	checkHooks := func(id string, count bool) {
		for _, e := range verifSnapshot() {
			if e.Kind != "hooks.newstore" {
				continue
			}
			if count {
				R.Count("hook_store_switches", 1)
			}
			if e.Subject != A.Base && e.Subject != B.Base && !hooksSeen["ev:"+e.Subject] {
				hooksSeen["ev:"+e.Subject] = true
				R.Violate("c18:reload:hooks-switched-to-rejected-directory:"+filepath.Base(e.Subject), fmt.Sprintf("the update hooks were told to use %s, a directory of a reload that was rejected (the agent keeps serving %s or %s)", e.Subject, A.Base, B.Base), id, e)
			}
		}
		for _, l := range c19ReadLog(hooksLog) {
			f := strings.Split(l, "|")
			got := f[len(f)-1]
			if count {
				R.Count("hook_runs_observed", 1)
			}
			if got != A.Base && got != B.Base && !hooksSeen["run:"+got] {
				hooksSeen["run:"+got] = true
				R.Violate("c18:reload:hook-ran-with-rejected-directory:"+filepath.Base(got), "a hook script ran with WHAWTY_AUTH_STORE="+got+", a directory of a rejected reload", id, l)
			}
		}
	}
	// background clients: every request must be answered
	var stop int32
	var answered, bgErrors, updatesAnswered int64
	var wg sync.WaitGroup
	c18Answered = &answered
	var reported int32
	reportWedge := func() {
		if n := atomic.LoadInt64(&bgErrors); n > 0 && atomic.CompareAndSwapInt32(&reported, 0, 1) {
			desc, blocked, where, raw := ovlDispatcherState(ovlDump(), 0)
			R.Violate("c18:request-unanswered-during-reload", fmt.Sprintf("%d background requests got no answer within 30 s (dispatcher %s blocked=%v at %s)", n, desc, blocked, where), "background", raw)
		}
	}
	// the test's own calls go through the same dispatcher: if it is wedged they never return, so a guard ends the stage
	go func() {
		for atomic.LoadInt32(&stop) == 0 {
			time.Sleep(500 * time.Millisecond)
			if atomic.LoadInt64(&bgErrors) > 0 {
				reportWedge()
				R.Write()
				os.Exit(0)
			}
		}
	}()
	// a client that keeps changing one user's password: its requests wait in the update queue during reloads
	wg.Add(1)
	go func() {
		defer wg.Done()
		for i := 1; atomic.LoadInt32(&stop) == 0; i++ {
			done := make(chan struct{})
			go func() { iface.Update("bgupd", fmt.Sprintf("bgupd-%d", i)); close(done) }() //nolint:errcheck
			select {
			case <-done:
				atomic.AddInt64(&answered, 1)
				atomic.AddInt64(&updatesAnswered, 1)
			case <-time.After(30 * time.Second):
				atomic.AddInt64(&bgErrors, 1)
				return
			}
		}
	}()
	for c := 0; c < 4; c++ {
		wg.Add(1)
		go func(c int) {
			defer wg.Done()
			for atomic.LoadInt32(&stop) == 0 {
				u := []string{"onlyA", "onlyB", "mix", "root"}[c]
				pw := []string{"pwA", "pwB", "mixA", "rootB"}[c]
				done := make(chan struct{})
				go func() { iface.Authenticate(u, pw); close(done) }() //nolint:errcheck
				select {
				case <-done:
					atomic.AddInt64(&answered, 1)
				case <-time.After(30 * time.Second):
					atomic.AddInt64(&bgErrors, 1)
					return
				}
				if c == 3 {
					iface.List() //nolint:errcheck
				}
			}
		}(c)
	}
	current := A
	nprobe := 0
	expectState := func(id string, want c18Conf, kind string) {
		iface.Check() //nolint:errcheck  (behind the reload in the dispatcher)
		defer checkHooks(id, false)
		got, detail := c18Which(R, id, iface, confs, &nprobe)
		R.Case(current.Name+"|"+kind, true)
		R.Count("reloads", 1)
		R.Count("reload_kind:"+kind, 1)
		wit := map[string]any{"reload": kind, "previous": current.Name, "expected": want.Name, "observed": got, "detail": detail}
		if got != want.Name {
			sig := "c18:reload:" + kind + ":serving-" + got
			R.Violate(sig, fmt.Sprintf("after reload '%s' (previous configuration %s) the agent should serve the complete configuration %s, but a new record shows: %s", kind, current.Name, want.Name, detail), id, wit)
		}
		// which users authenticate
		other := A
		if want.Name == "A" {
			other = B
		}
		type probe struct {
			u, pw string
			want  bool
		}
		probes := []probe{{"only" + want.Name, "pw" + want.Name, true}, {"only" + other.Name, "pw" + other.Name, false}, {"mix", "mix" + want.Name, true}, {"mix", "mix" + other.Name, false}, {"root", "root" + want.Name, true}, {"root", "root" + other.Name, false}}
		for _, p := range probes {
			ok, _, _, _ := iface.Authenticate(p.u, p.pw)
			R.Count("state_probes", 1)
			if ok != p.want {
				R.Violate(fmt.Sprintf("c18:reload:%s:auth-%s-with-%s-password=%v", kind, p.u, map[bool]string{true: "expected-config", false: "other-config"}[p.want], ok), fmt.Sprintf("after reload '%s' expecting configuration %s: authenticate(%s,%s)=%v", kind, want.Name, p.u, p.pw, ok), id, wit)
			}
		}
	}
	noReload := func(id, kind string) {
		if c18Lost {
			R.Violate("c18:reload:signal-lost:"+strings.SplitN(kind, ":", 2)[0], "a reload signal was followed by more than 400 answered requests but the agent never reloaded its configuration ("+kind+")", id, nil)
		} else {
			R.Inconcl("reload event not seen: " + id)
		}
	}
	rounds := vr.Pick(2, 12)
	for r := 0; r < rounds; r++ {
		other := B
		if current.Name == "B" {
			other = A
		}
		bads := []struct{ kind, yaml string }{
			{"syntax-error", "basedir: [unclosed"},
			{"unknown-key", other.yaml() + "extra: 1\n"},
			{"undefined-default", strings.Replace(other.yaml(), fmt.Sprintf("default: %d", other.Def), "default: 9", 1)},
			{"empty-file", ""},
			{"id-zero", strings.Replace(other.yaml(), "- id: 1", "- id: 0", 1)},
			{"missing-basedir", strings.SplitN(other.yaml(), "\n", 2)[1]},
		}
		// rejected documents that repeat the HMAC keys and costs of the configuration being served with other r / p values
		{
			alt := current
			alt.Sets = append([]ref.ParamSet{}, current.Sets...)
			for i := range alt.Sets {
				if alt.Sets[i].Algo == ref.AlgoScrypt {
					alt.Sets[i].R, alt.Sets[i].P = alt.Sets[i].R+5, alt.Sets[i].P+2
				}
			}
			undefined := alt
			undefined.Def = 99
			emptyDir := alt
			emptyDir.Base = filepath.Join(root, "bad-same-keys-empty")
			os.RemoveAll(emptyDir.Base)      //nolint:errcheck
			os.MkdirAll(emptyDir.Base, 0700) //nolint:errcheck
			bads = append(bads, struct{ kind, yaml string }{"same-keys-other-r-p-undefined-default", undefined.yaml()},
				struct{ kind, yaml string }{"same-keys-other-r-p-empty-directory", emptyDir.yaml()})
		}
		for _, b := range bads {
			id := fmt.Sprintf("r%d/bad-config/%s", r, b.kind)
			R.Mark(id)
			if !c18Reload(cfg, b.yaml) {
				noReload(id, "config-does-not-load:"+b.kind)
				continue
			}
			expectState(id, current, "config-does-not-load:"+b.kind)
		}
		// configuration loads but its directory fails the check
		badDirs := []struct {
			kind string
			prep func(d string)
		}{
			{"empty-directory", func(d string) {}},
			{"no-admin", func(d string) { plantIn(rng, other, d, []ovlUser{{Name: "u", Pw: "p", Set: other.Def}}) }},
			{"both-extensions", func(d string) {
				plantIn(rng, other, d, []ovlUser{{Name: "root", Pw: "p", Admin: true, Set: other.Def}, {Name: "dup", Pw: "p", Set: other.Def}})
				b, _ := os.ReadFile(filepath.Join(d, "dup.user"))
				os.WriteFile(filepath.Join(d, "dup.admin"), b, 0600) //nolint:errcheck
			}},
			{"foreign-file", func(d string) {
				plantIn(rng, other, d, []ovlUser{{Name: "root", Pw: "p", Admin: true, Set: other.Def}})
				os.WriteFile(filepath.Join(d, "README.txt"), []byte("x"), 0600) //nolint:errcheck
			}},
			{"nonexistent-directory", nil},
			{"admin-hash-unsupported", func(d string) {
				plantIn(rng, other, d, []ovlUser{{Name: "root", Pw: "p", Admin: true, Set: 3}})
				os.WriteFile(filepath.Join(d, "root.admin"), []byte("argon2id:1:77:QUJD:REVG\n"), 0600) //nolint:errcheck
			}},
		}
		for _, bd := range badDirs {
			id := fmt.Sprintf("r%d/bad-dir/%s", r, bd.kind)
			R.Mark(id)
			d := filepath.Join(root, "bad-"+bd.kind)
			os.RemoveAll(d) //nolint:errcheck
			if bd.prep != nil {
				os.MkdirAll(d, 0700) //nolint:errcheck
				bd.prep(d)
			}
			c := other
			c.Base = d
			if !c18Reload(cfg, c.yaml()) {
				noReload(id, "directory-fails-check:"+bd.kind)
				continue
			}
			expectState(id, current, "directory-fails-check:"+bd.kind)
		}
		// same base directory, but the parameter set of the only admin is gone: Check fails under the new configuration
		{
			id := fmt.Sprintf("r%d/bad-dir/same-base-admin-set-removed", r)
			R.Mark(id)
			c := current
			var keep []ref.ParamSet
			adminSet := map[string]uint{"A": 1, "B": 2}[current.Name]
			for _, s := range c.Sets {
				if s.ID != adminSet {
					keep = append(keep, s)
				}
			}
			c.Sets = keep
			c.Def = keep[0].ID
			if c18Reload(cfg, c.yaml()) {
				expectState(id, current, "directory-fails-check:same-base-admin-set-removed")
			}
		}
		// good reload that keeps base directory, default, ids and algorithms and changes only a value inside set 3:
		// a record hashed with the new value must authenticate afterwards (and no longer after the way back)
		{
			id := fmt.Sprintf("r%d/good/values-only", r)
			R.Mark(id)
			c := current
			c.Sets = append([]ref.ParamSet{}, current.Sets...)
			for i := range c.Sets {
				if c.Sets[i].ID == 3 {
					c.Sets[i].Time += 2
					c.Sets[i].Memory *= 2
				}
			}
			plantIn(rng, c, current.Base, []ovlUser{{Name: "k3", Pw: "k3pw", Set: 3}})
			if ok, _, _, _ := iface.Authenticate("k3", "k3pw"); ok {
				R.Violate("c18:reload:record-of-other-parameters-authenticates", "a record hashed with time/memory values that are not configured authenticates", id, nil)
			}
			if c18Reload(cfg, c.yaml()) {
				expectState(id, current, "good:same-base-values-only")
				R.Count("value_only_reloads", 1)
				if ok, _, _, _ := iface.Authenticate("k3", "k3pw"); !ok {
					R.Violate("c18:reload:good:changed-values-not-in-effect", "after a successful reload that changed only time/memory of parameter set 3, a record hashed with the new values does not authenticate: the agent still uses the old values", id, nil)
				}
			} else {
				noReload(id, "good:same-base-values-only")
			}
			if c18Reload(cfg, current.yaml()) {
				expectState(id+"/back", current, "good:same-base-values-back")
				iface.Update("zz-barrier-nonexistent", "x")                                //nolint:errcheck (FIFO barrier: a queued upgrade of k3 has run)
				plantIn(rng, c, current.Base, []ovlUser{{Name: "k3", Pw: "k3pw", Set: 3}}) // (a local upgrade may have rewritten it under the default set)
				if ok, _, _, _ := iface.Authenticate("k3", "k3pw"); ok {
					R.Violate("c18:reload:good:old-values-not-restored", "after reloading the original values the record hashed with the other values still authenticates", id, nil)
				}
			}
			os.Remove(filepath.Join(current.Base, "k3.user")) //nolint:errcheck
		}
		// good reload that drops parameter set 3: its users must become unsupported, everything else complete
		{
			id := fmt.Sprintf("r%d/good/drop-set-3", r)
			R.Mark(id)
			c := current
			c.Sets = c.Sets[:2]
			u3 := map[string]string{"A": "a3", "B": "b3"}[current.Name]
			ok0, _, _, _ := iface.Authenticate(u3, u3+"pw")
			if c18Reload(cfg, c.yaml()) {
				expectState(id, current, "good:same-base-set-3-dropped")
				ok1, _, _, _ := iface.Authenticate(u3, u3+"pw")
				l, _ := iface.List()
				_, listed := l[u3]
				R.Count("dropped_set_probes", 1)
				if !ok0 {
					R.Violate("c18:reload:set-3-user-did-not-authenticate-before", "", id, nil)
				}
				if (ok1 || listed) && mode == "" { // with local upgrades the login above has moved the record to the default set
					R.Violate("c18:reload:good:dropped-parameter-set-still-served", fmt.Sprintf("after a successful reload to a configuration without parameter set 3, user %s (hashed with set 3) authenticates=%v listed=%v: old and new parameter sets are mixed", u3, ok1, listed), id, nil)
				}
			}
			// restore the full configuration
			c18Reload(cfg, current.yaml())
			expectState(id+"/restore", current, "good:same-base-restore")
		}
		// good reload to the other configuration
		id := fmt.Sprintf("r%d/good/%s-to-%s", r, current.Name, other.Name)
		R.Mark(id)
		if !c18Reload(cfg, other.yaml()) {
			noReload(id, "good")
			continue
		}
		prev := current
		current = other
		expectState(id, other, "good:"+prev.Name+"-to-"+other.Name)
		current = other
	}
	// one signal while the dispatcher is busy with slow logins and more are queued; nothing else tells the agent to reload
	{
		other := B
		if current.Name == "B" {
			other = A
		}
		id := "busy-signal"
		R.Mark(id)
		var bw sync.WaitGroup
		for g := 0; g < 6; g++ {
			bw.Add(1)
			go func() {
				defer bw.Done()
				for k := 0; k < 3; k++ {
					iface.Authenticate("slow", "slowpw") //nolint:errcheck
				}
			}()
		}
		time.Sleep(120 * time.Millisecond)
		ok := c18Reload(cfg, other.yaml())
		bw.Wait()
		if !ok {
			noReload(id, "good:signal-while-busy")
		} else {
			prev := current
			current = other
			expectState(id, other, "good:signal-while-busy:"+prev.Name+"-to-"+other.Name)
		}
	}
	// the configuration file is being replaced (atomically, by rename) all the time, alternately by the good configuration
	// and by one whose directory fails the check, while reload signals arrive: whatever a reload reads, the agent must go
	// on serving a configuration that passed the check as a whole
	{
		id := "racing-swap"
		R.Mark(id)
		badDir := filepath.Join(root, "bad-swap-no-admin")
		os.RemoveAll(badDir)      //nolint:errcheck
		os.MkdirAll(badDir, 0700) //nolint:errcheck
		plantIn(rng, current, badDir, []ovlUser{{Name: "nobody", Pw: "p", Set: current.Def}})
		bc := current
		bc.Base = badDir
		good, bad := current.yaml(), bc.yaml()
		stopSwap := make(chan struct{})
		var sw sync.WaitGroup
		sw.Add(1)
		go func() {
			defer sw.Done()
			for i := 0; ; i++ {
				select {
				case <-stopSwap:
					return
				default:
				}
				content := good
				if i%2 == 1 {
					content = bad
				}
				os.WriteFile(cfg+".swap", []byte(content), 0600) //nolint:errcheck
				os.Rename(cfg+".swap", cfg)                      //nolint:errcheck
				time.Sleep(150 * time.Microsecond)
			}
		}()
		for k := 0; k < vr.Pick(25, 120); k++ {
			n0 := 0
			for _, e := range verifSnapshot() {
				if e.Kind == "exec.reload" {
					n0++
				}
			}
			syscall.Kill(os.Getpid(), syscall.SIGHUP) //nolint:errcheck
			if !c19Wait(10*time.Second, func(ev []verifEvt) bool {
				n := 0
				for _, e := range ev {
					if e.Kind == "exec.reload" {
						n++
					}
				}
				return n > n0
			}) {
				continue
			}
			iface.Check() //nolint:errcheck
			got, detail := c18Which(R, id, iface, confs, &nprobe)
			R.Count("reloads_during_config_swaps", 1)
			if got != current.Name {
				R.Violate("c18:reload:racing-config-swap:serving-"+got, fmt.Sprintf("while the configuration file alternates between the good configuration %s and one whose directory has no administrator, after reload #%d a new record shows: %s (%s); entries in the rejected directory: %v", current.Name, k, got, detail, func() []string {
					e, _ := os.ReadDir(badDir)
					var n []string
					for _, x := range e {
						n = append(n, x.Name())
					}
					return n
				}()), id, nil)
				break
			}
		}
		close(stopSwap)
		sw.Wait()
		if c18Reload(cfg, current.yaml()) {
			expectState(id+"/after", current, "good:after-racing-swap")
		}
	}
	// a burst of signals at random points of the request stream
	nb := vr.Pick(10, 50)
	for i := 0; i < nb; i++ {
		c := []c18Conf{A, B}[rng.Intn(2)]
		os.WriteFile(cfg, []byte(c.yaml()), 0600) //nolint:errcheck
		syscall.Kill(os.Getpid(), syscall.SIGHUP) //nolint:errcheck
		time.Sleep(time.Duration(rng.Intn(3000)) * time.Microsecond)
		current = c
	}
	c18Reload(cfg, current.yaml())
	expectState("burst", current, "good:after-signal-burst")
	atomic.StoreInt32(&stop, 1)
	wg.Wait()
	time.Sleep(200 * time.Millisecond)
	checkHooks("final", true)
	R.Count("background_requests_answered", int(atomic.LoadInt64(&answered)))
	R.Count("background_updates_answered", int(atomic.LoadInt64(&updatesAnswered)))
	reportWedge()
	R.Sample(map[string]any{"configurations": "A: base A, default 1, keys 0x10..; B: base B, default 2, keys 0x60..", "reloads": R.Get("reloads"), "background_requests_answered": answered})
}

func plantIn(rng *rand.Rand, c c18Conf, dir string, users []ovlUser) {
	st := &ovlStore{Dir: dir, Base: dir, Sets: c.Sets, Def: c.Def, Users: map[string]*ovlUser{}}
	for _, u := range users {
		st.Plant(rng, u)
	}
}
