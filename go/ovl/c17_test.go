package main

import (
	"bytes"
	"encoding/json"
	"fmt"
	"math"
	"math/rand"
	"net/http"
	"os"
	"os/exec"
	"path/filepath"
	"strconv"
	"strings"
	"testing"
	"unicode/utf8"

	"github.com/nbutton23/zxcvbn-go"
	"github.com/whawty/auth/zz_verif/ref"
	"github.com/whawty/auth/zz_verif/vr"
)

// refpolicy: the reference verdict, computed with the zxcvbn library directly.
type c17Cond struct {
	Kind string
	Thr  float64
}

func (c c17Cond) Pass(pw, user string) bool {
	m := zxcvbn.PasswordStrength(pw, []string{user, "whawty"})
	switch c.Kind {
	case "score":
		return float64(m.Score) >= c.Thr
	case "entropy":
		return m.Entropy >= c.Thr
	case "time":
		return m.CrackTime >= c.Thr
	}
	return false
}

func (c c17Cond) String() string {
	return fmt.Sprintf("%s >= %s", c.Kind, strconv.FormatFloat(c.Thr, 'f', -1, 64))
}

type c17CondStr struct {
	Text   string
	Expect string // valid | invalid | lenient
	Cond   c17Cond
}

func c17Conditions() []c17CondStr {
	var out []c17CondStr
	for _, t := range []float64{0, 1, 2, 3, 4} {
		out = append(out, c17CondStr{fmt.Sprintf("score >= %v", t), "valid", c17Cond{"score", t}})
	}
	for _, t := range []float64{0, 10, 30, 60, 100} {
		out = append(out, c17CondStr{fmt.Sprintf("entropy >= %v", t), "valid", c17Cond{"entropy", t}})
	}
	for _, t := range []float64{0, 1, 3600, 1e6, 1e12} {
		out = append(out, c17CondStr{fmt.Sprintf("time >= %.0f", t), "valid", c17Cond{"time", t}})
	}
	inv := []string{"", " ", "score", "score >=", ">= 3", "score 3", "score > 3", "score <= 3", "score == 3", "score = 3", "score => 3", "score >= three", "score >= 5", "score >= 99",
		"score >= -1", "entropy >= -1", "time >= -3600", "score >= 3 extra", "score >= 3 and entropy >= 40", "score >= 3, entropy >= 40", "score>=3", "score >=3", "score>= 3",
		"Score >= 3", "SCORE >= 3", "strength >= 3", "zxcvbn >= 3", "length >= 8", "score >= ", "score >= 3;", "score >= 3)", "(score >= 3)", "\"score >= 3\"", "score >= '3'",
		"time >= 1,000,000", "time >= 1_000_000", "time >= 1h", "time >= 3600s", "entropy >= 45 bits", "entropy >= 40bits", "entropy >= forty", "time >= NaN", "time >= inf", "entropy >= 1e",
		"score >= 18446744073709551616", "time >= 99999999999999999999999", "score >= ٣", "score ≥ 3", "score >= 3 #comment", "score\x00>= 3", "entropy >= 0x", "time >= --1",
		"score >= 3 >= 2", "3 >= score", "score >= score", "entropy >= entropy"}
	for _, s := range inv {
		out = append(out, c17CondStr{Text: s, Expect: "invalid"})
	}
	// readable as kind >= number in some common number syntax: either refused, or enforced with that value
	out = append(out,
		c17CondStr{" score >= 3 ", "lenient", c17Cond{"score", 3}},
		c17CondStr{"score  >=  3", "lenient", c17Cond{"score", 3}},
		c17CondStr{"score\t>=\t3", "lenient", c17Cond{"score", 3}},
		c17CondStr{"score >= 03", "lenient", c17Cond{"score", 3}},
		c17CondStr{"score >= +3", "lenient", c17Cond{"score", 3}},
		c17CondStr{"score >= 3.0", "lenient", c17Cond{"score", 3}},
		c17CondStr{"entropy >= 40.5", "lenient", c17Cond{"entropy", 40.5}},
		c17CondStr{"entropy >= 4e1", "lenient", c17Cond{"entropy", 40}},
		c17CondStr{"time >= 1e9", "lenient", c17Cond{"time", 1e9}},
		c17CondStr{"time >= 1E12", "lenient", c17Cond{"time", 1e12}},
		c17CondStr{"time >= 0x1000000", "lenient", c17Cond{"time", 0x1000000}},
		c17CondStr{"time >= 3600.5", "lenient", c17Cond{"time", 3600.5}},
		c17CondStr{"entropy >= 00060", "lenient", c17Cond{"entropy", 60}},
		// thresholds in the upper half of the 64-bit range (a password whose estimated crack time exceeds them passes)
		c17CondStr{"time >= 9223372036854775808", "lenient", c17Cond{"time", 9223372036854775808}},
		c17CondStr{"time >= 10000000000000000000", "lenient", c17Cond{"time", 1e19}},
		c17CondStr{"time >= 18446744073709551615", "lenient", c17Cond{"time", 18446744073709551615}},
		c17CondStr{"entropy >= 9223372036854775808", "lenient", c17Cond{"entropy", 9223372036854775808}},
		c17CondStr{"time >= 4294967296", "lenient", c17Cond{"time", 4294967296}},
	)
	return out
}

func c17Passwords(rng *rand.Rand, n int) []string {
	pws := []string{"password", "123456", "qwerty", "letmein", "iloveyou", "Password1", "P@ssw0rd", "19850312", "2024-01-01", "qwertyuiop", "asdfghjkl", "1qaz2wsx", "zxcvbn",
		"whawty", "whawty123", "alice", "alice2024", "alice!", "ecila", "kowalczykowski", "xq7kowalczykowski", "kowalczykowski99", "bob-bob-bob", "correct horse battery staple",
		"Tr0ub4dor&3", "aaaaaaaaaaaaaaaa", "abcdefghijklmnop", "a", "ab", "pässwörd", "日本語のパスワード", "🔒🔑🗝️secret", "x9$Lq!2vZr#8mW@4", "D0g.....................", "neverguessme123"}
	for i := 0; i < n; i++ {
		pws = append(pws, string(ref.Password(rng)))
	}
	var out []string
	// long but trivially weak / strong passwords (129-200 bytes; zxcvbn needs < 0.1 s for these)
	long := []string{strings.Repeat("a", 129), strings.Repeat("password", 20), strings.Repeat("a", 200), strings.Repeat("x9$Lq!2vZr#8mW@4", 9)}
	out = append(out, long[rng.Intn(2)], long[2+rng.Intn(2)])
	// longer than 64 bytes and weak only in l33t spelling; and a strong one whose estimated crack time exceeds 2^64 s
	out = append(out, []string{strings.Repeat("p@ssw0rd", 9), strings.Repeat("P@55w0rd!", 8)}[rng.Intn(2)], "kT7#vQ2$mZ9!pL4^wX8&bN3*hR6@jC1%")
	for _, p := range pws {
		// zxcvbn's matching is super-linear in the password length: keep the rest of the corpus at realistic lengths
		if len(p) > 48 {
			p = p[:48]
		}
		if p != "" && !strings.ContainsAny(p, "\x00") {
			out = append(out, p)
		}
	}
	return out
}

func TestVerifC17(t *testing.T) {
	R := vr.New("C17", "policy", "for every condition kind (score/entropy/time) x thresholds and a password corpus (common, dates, keyboard walks, user-name derived, random, Unicode, 129-200 byte repetitions) x user names, every write path of the agent - interface init/add/update, HTTP add by admin, HTTP update by admin session / own session / old password, the command line init/add/update of the built binary, and the login-triggered upgrade - is exercised with a policy configured; a request is refused exactly when the reference verdict (zxcvbn called directly) is 'fails', refused requests leave the directory byte-identical; about 90 malformed / borderline condition strings and unknown types must make the constructor (and the binary) fail, or - for borderline number syntaxes - be enforced with the value written. Non-trivial: every (write path, condition, password, user) tuple; distinct by that tuple")
	defer R.Write()
	rng := R.Rand("c17")
	conds := c17Conditions()
	// ---- constructor
	for i, c := range conds {
		id := fmt.Sprintf("cond/%d", i)
		if !R.Want(id) {
			continue
		}
		var p PolicyChecker
		var err error
		pan := vr.Safe(func() { p, err = NewPasswordPolicy("zxcvbn", c.Text) })
		R.Case("cond:"+c.Text, c.Expect != "valid")
		R.Count("condition_strings:"+c.Expect, 1)
		wit := map[string]any{"condition": vr.Q(c.Text), "expect": c.Expect, "error": fmt.Sprint(err)}
		if pan != "" {
			R.Violate("c17:panic:constructor", pan, id, wit)
			continue
		}
		if c.Expect == "invalid" {
			if err == nil {
				R.Violate("c17:unparsable-condition-accepted", fmt.Sprintf("NewPasswordPolicy accepted the condition %s", vr.Q(c.Text)), id, wit)
			}
			// and the agent must not start
			if _, serr := c17Agent(R, rng, "zxcvbn", c.Text); serr == nil {
				R.Violate("c17:agent-starts-with-unparsable-policy", "NewStore succeeded with condition "+vr.Q(c.Text), id, wit)
			}
			continue
		}
		if c.Expect == "valid" && err != nil {
			R.Violate("c17:valid-condition-refused", fmt.Sprintf("NewPasswordPolicy refused %s: %v", vr.Q(c.Text), err), id, wit)
			continue
		}
		if err != nil {
			continue // lenient: refused is fine
		}
		// enforced with the written value: compare verdicts on the corpus
		for _, pw := range c17Passwords(rng, 10) {
			for _, user := range []string{"alice", "kowalczykowski"} {
				got, perr := p.Check(pw, user)
				want := c.Cond.Pass(pw, user)
				R.Count("constructor_verdict_probes", 1)
				if perr != nil || got != want {
					R.Violate(fmt.Sprintf("c17:condition-misparsed:%s:%s", c.Expect, c.Cond.Kind), fmt.Sprintf("condition %s is accepted but password %s for user %s gives %v, the written threshold gives %v", vr.Q(c.Text), vr.Q(pw), user, got, want), id, wit)
					break
				}
			}
		}
	}
	// thresholds just below and just above each password's own rating: the comparison is exact, not rounded
	for i, pw := range c17Passwords(rng, 6) {
		if len(pw) > 64 {
			continue
		}
		m := zxcvbn.PasswordStrength(pw, []string{"alice", "whawty"})
		type edge struct {
			kind string
			v    float64
		}
		for _, e := range []edge{{"entropy", m.Entropy}, {"time", m.CrackTime}} {
			if e.v < 1 || e.v > 1e15 || e.v == math.Floor(e.v) {
				continue
			}
			for _, thr := range []float64{math.Floor(e.v), math.Ceil(e.v)} {
				cond := fmt.Sprintf("%s >= %.0f", e.kind, thr)
				p, err := NewPasswordPolicy("zxcvbn", cond)
				if err != nil {
					R.Violate("c17:valid-condition-refused", cond+": "+err.Error(), fmt.Sprintf("edge/%d", i), nil)
					continue
				}
				got, perr := p.Check(pw, "alice")
				want := e.v >= thr
				R.Case("edge:"+cond+"|"+pw, true)
				R.Count("rating_edge_probes", 1)
				if perr != nil || got != want {
					R.Violate("c17:condition-compared-inexactly:"+e.kind, fmt.Sprintf("password %s is rated %s=%.4f; under %q the policy says %v, the exact comparison says %v", vr.Q(pw), e.kind, e.v, cond, got, want), fmt.Sprintf("edge/%d", i), map[string]any{"password": vr.Q(pw), "rating": e.v, "condition": cond})
				}
			}
		}
	}
	for _, ty := range []string{"zxcvbn2", "ZXCVBN", "none", "null", "regex", " zxcvbn", "zxcvbn "} {
		if _, err := NewPasswordPolicy(ty, "score >= 3"); err == nil {
			R.Violate("c17:unknown-policy-type-accepted", "type "+vr.Q(ty), "type/"+ty, nil)
		}
		if _, err := c17Agent(R, rng, ty, "score >= 3"); err == nil {
			R.Violate("c17:agent-starts-with-unknown-policy-type", "type "+vr.Q(ty), "type/"+ty, nil)
		}
		R.Case("type:"+ty, true)
	}
	// ---- write paths
	nc := 0
	for _, c := range conds {
		if c.Expect != "valid" {
			continue
		}
		nc++
		if !vr.Thorough() && nc%3 != 1 && c.Text != "score >= 3" {
			continue
		}
		id := "paths/" + c.Text
		if !R.Want(id) {
			continue
		}
		R.Mark(id)
		c17Paths(R, rand.New(rand.NewSource(rng.Int63())), id, c)
	}
	c17CLI(R, rng)
}

type c17World struct {
	st    *ovlStore
	ag    *store
	iface *Store
	mux   *http.ServeMux
}

func c17Agent(R *vr.Result, rng *rand.Rand, ptype, pcond string) (*c17World, error) {
	dir := ovlWork("c17")
	sets := ref.CheapSets(rng, 2)
	users := []ovlUser{{Name: "root", Pw: "root-Password-9!x", Admin: true, Set: 1}, {Name: "alice", Pw: "alice-old-Password-7!", Set: 1, Aux: "totp: QUJD\n"}, {Name: "kowalczykowski", Pw: "k-old-Password-7!", Set: 1}, {Name: "weakold", Pw: "abc", Set: 2}}
	st := ovlMkStore(rng, dir, sets, 1, users)
	ag, err := NewStore(st.Cfg, "local", ptype, pcond, "")
	if err != nil {
		return nil, err
	}
	w := &c17World{st: st, ag: ag, iface: ag.GetInterface()}
	w.mux, _ = newWebHandler(w.iface)
	return w, nil
}

func (w *c17World) post(path string, m map[string]any) (int, map[string]any) {
	b, _ := json.Marshal(m)
	wd := &c06World{}
	code, mm, _, _ := wd.post(w.mux, path, b)
	return code, mm
}

func c17Paths(R *vr.Result, rng *rand.Rand, id string, c c17CondStr) {
	w, err := c17Agent(R, rng, "zxcvbn", c.Text)
	if err != nil {
		R.Violate("c17:valid-condition-refused", err.Error(), id, nil)
		return
	}
	_, rs := w.post("/api/authenticate", map[string]any{"username": "root", "password": "root-Password-9!x"})
	rootSess, _ := rs["session"].(string)
	pws := c17Passwords(rng, vr.Pick(6, 40))
	cur := map[string]string{"alice": "alice-old-Password-7!", "kowalczykowski": "k-old-Password-7!"}
	paths := []string{"iface-add", "iface-update", "http-add-admin", "http-update-admin", "http-update-own-session", "http-update-oldpw"}
	for pi, pw := range pws {
		for ui, user := range []string{"alice", "kowalczykowski"} {
			path := paths[(pi+ui)%len(paths)]
			if vr.Thorough() {
				path = paths[(pi*2+ui+rng.Intn(len(paths)))%len(paths)]
			}
			if strings.HasPrefix(path, "http") && !utf8.ValidString(pw) {
				path = "iface-" + map[bool]string{true: "add", false: "update"}[strings.Contains(path, "add")] // JSON cannot carry invalid UTF-8
			}
			if (path == "http-update-own-session" || path == "http-update-oldpw") && !utf8.ValidString(cur[user]) {
				path = "iface-update" // the current password (needed for the login / as old password) cannot travel in JSON
			}
			want := c.Cond.Pass(pw, user)
			target := user
			if strings.Contains(path, "add") {
				// adding needs a free name: remove the user first (its name is what the policy sees)
				w.iface.Remove(user) //nolint:errcheck
			}
			before := ref.TakeSnap(w.st.Base)
			var ok bool
			debug := ""
			switch path {
			case "iface-add":
				ok = w.iface.Add(target, pw, false) == nil
			case "iface-update":
				ok = w.iface.Update(target, pw) == nil
			case "http-add-admin":
				code, _ := w.post("/api/add", map[string]any{"session": rootSess, "username": target, "password": pw, "admin": false})
				ok = code == 200
			case "http-update-admin":
				code, _ := w.post("/api/update", map[string]any{"session": rootSess, "username": target, "newpassword": pw})
				ok = code == 200
			case "http-update-own-session":
				lc, m := w.post("/api/authenticate", map[string]any{"username": target, "password": cur[target]})
				s, _ := m["session"].(string)
				code, um := w.post("/api/update", map[string]any{"session": s, "username": target, "newpassword": pw})
				ok = code == 200
				debug = fmt.Sprintf("login with current password %s -> %d; update -> %d %v", vr.Q(cur[target]), lc, code, um)
			case "http-update-oldpw":
				code, _ := w.post("/api/update", map[string]any{"username": target, "oldpassword": cur[target], "newpassword": pw})
				ok = code == 200
			}
			diff := ref.Diff(before, ref.TakeSnap(w.st.Base), ref.DiffOpts{IgnorePath: ref.IgnoreTmpDir})
			R.Case(fmt.Sprintf("%s|%s|%s|%s", path, c.Text, pw, user), true)
			R.Count("write_attempts:"+path, 1)
			if want {
				R.Count("policy_pass", 1)
			} else {
				R.Count("policy_fail", 1)
			}
			wit := map[string]any{"path": path, "condition": c.Text, "password": vr.Q(pw), "user": user, "reference_passes": want, "stored": ok, "diff": diff, "debug": debug}
			if ok && !want {
				R.Violate("c17:failing-password-stored:"+path+":"+c.Cond.Kind, fmt.Sprintf("password %s fails '%s' for user %s but was stored through %s", vr.Q(pw), c.Text, user, path), id, wit)
			}
			if !ok && want {
				R.Violate("c17:passing-password-refused:"+path+":"+c.Cond.Kind, fmt.Sprintf("password %s satisfies '%s' for user %s but %s refused it", vr.Q(pw), c.Text, user, path), id, wit)
			}
			if !ok && len(diff) > 0 {
				R.Violate("c17:refused-request-changed-store:"+path, fmt.Sprint(diff), id, wit)
			}
			if ok {
				cur[target] = pw
				if a, _, _, _ := w.iface.Authenticate(target, pw); !a {
					R.Violate("c17:stored-password-does-not-authenticate:"+path, "", id, wit)
				}
			} else if strings.Contains(path, "add") {
				// restore the user for the following cases
				w.st.Plant(rng, ovlUser{Name: user, Pw: "restored-Password-7!" + user, Set: 1})
				cur[target] = "restored-Password-7!" + user
			}
		}
	}
	// login-triggered upgrade of a weak password must not store it again
	_, before, _, _ := w.st.File("weakold")
	okLogin, _, _, _ := w.iface.Authenticate("weakold", "abc")
	w.iface.Update("zz-barrier", "x") //nolint:errcheck
	_, after, _, _ := w.st.File("weakold")
	wantUp := c.Cond.Pass("abc", "weakold")
	R.Case("upgrade|"+c.Text, true)
	R.Count("write_attempts:login-upgrade", 1)
	if okLogin && !wantUp && !bytes.Equal(before, after) {
		R.Violate("c17:failing-password-stored:login-upgrade:"+c.Cond.Kind, "the login-triggered upgrade re-stored a password that fails the policy", id, nil)
	}
	// init on an empty store
	for _, pw := range []string{"password", "x9$Lq!2vZr#8mW@4"} {
		dir := ovlWork("c17-init")
		st := ovlMkStore(rng, dir, w.st.Sets, 1, nil)
		os.Remove(filepath.Join(st.Base, ".tmp")) //nolint:errcheck
		ag, err := NewStore(st.Cfg, "", "zxcvbn", c.Text, "")
		if err != nil {
			continue
		}
		before := ref.TakeSnap(st.Base)
		ok := ag.GetInterface().Init("root", pw) == nil
		diff := ref.Diff(before, ref.TakeSnap(st.Base), ref.DiffOpts{IgnorePath: ref.IgnoreTmpDir})
		want := c.Cond.Pass(pw, "root")
		R.Case(fmt.Sprintf("iface-init|%s|%s", c.Text, pw), true)
		R.Count("write_attempts:iface-init", 1)
		if ok != want {
			R.Violate(fmt.Sprintf("c17:init-verdict:stored=%v:%s", ok, c.Cond.Kind), fmt.Sprintf("init with password %s under '%s': stored=%v reference passes=%v", vr.Q(pw), c.Text, ok, want), id, nil)
		}
		if !ok && len(diff) > 0 {
			R.Violate("c17:refused-request-changed-store:iface-init", fmt.Sprint(diff), id, nil)
		}
	}
	R.Sample(map[string]any{"condition": c.Text, "passwords": len(pws), "paths": paths})
}

// c17CLI drives the built binary with --policy-* options.
func c17CLI(R *vr.Result, rng *rand.Rand) {
	bin := filepath.Join(os.Getenv("VERIF_BIN"), "whawty-auth")
	if _, err := os.Stat(bin); err != nil {
		R.Fatal = "agent binary not built: " + bin
		return
	}
	run := func(cfg string, args ...string) (int, string) {
		cmd := exec.Command(bin, append([]string{"--store", cfg}, args...)...)
		cmd.Env = append(os.Environ(), "WHAWTY_AUTH_POLICY_TYPE=", "WHAWTY_AUTH_POLICY_CONDITION=")
		out, err := cmd.CombinedOutput()
		if ee, ok := err.(*exec.ExitError); ok {
			return ee.ExitCode(), string(out)
		}
		if err != nil {
			return -1, err.Error()
		}
		return 0, string(out)
	}
	conds := []c17CondStr{{"score >= 3", "valid", c17Cond{"score", 3}}, {"entropy >= 30", "valid", c17Cond{"entropy", 30}}, {"time >= 3600", "valid", c17Cond{"time", 3600}}}
	pws := []string{"password", "alice2024", "x9$Lq!2vZr#8mW@4", "correct horse battery staple", "Tr0ub4dor&3", "qwertyuiop", "xq7kowalczykowski", "kowalczykowski99"}
	if vr.Thorough() {
		for _, p := range c17Passwords(rng, 30) {
			if !strings.HasPrefix(p, "-") && len(p) < 200 {
				pws = append(pws, p)
			}
		}
	}
	for _, c := range conds {
		dir := ovlWork("c17-cli")
		sets := ref.CheapSets(rng, 2)
		st := ovlMkStore(rng, dir, sets, 1, nil)
		os.Remove(filepath.Join(st.Base, ".tmp")) //nolint:errcheck
		// init with a failing password must be refused, then with a passing one accepted
		before := ref.TakeSnap(st.Base)
		code, out := run(st.Cfg, "--policy-type", "zxcvbn", "--policy-condition", c.Text, "init", "root", "password")
		R.Case("cli-init-weak|"+c.Text, true)
		R.Count("write_attempts:cli-init", 1)
		if c.Cond.Pass("password", "root") != (code == 0) {
			R.Violate("c17:cli-init-verdict:"+c.Cond.Kind, fmt.Sprintf("exit %d: %s", code, out), "cli/init", nil)
		}
		if code != 0 && len(ref.Diff(before, ref.TakeSnap(st.Base), ref.DiffOpts{IgnorePath: ref.IgnoreTmpDir})) > 0 {
			R.Violate("c17:refused-request-changed-store:cli-init", out, "cli/init", nil)
		}
		if code != 0 {
			code, out = run(st.Cfg, "--policy-type", "zxcvbn", "--policy-condition", c.Text, "init", "root", "x9$Lq!2vZr#8mW@4-root")
			if code != 0 {
				R.Violate("c17:passing-password-refused:cli-init:"+c.Cond.Kind, out, "cli/init", nil)
				continue
			}
		}
		for i, pw := range pws {
			user := []string{"alice", "kowalczykowski"}[i%2]
			for _, op := range []string{"add", "update"} {
				before := ref.TakeSnap(st.Base)
				code, out := run(st.Cfg, "--policy-type", "zxcvbn", "--policy-condition", c.Text, op, user, pw)
				diff := ref.Diff(before, ref.TakeSnap(st.Base), ref.DiffOpts{IgnorePath: ref.IgnoreTmpDir})
				want := c.Cond.Pass(pw, user)
				_, _, _, exists := st.File(user)
				R.Case(fmt.Sprintf("cli-%s|%s|%s|%s", op, c.Text, pw, user), true)
				R.Count("write_attempts:cli-"+op, 1)
				semOK := (op == "add" && len(before[user+".user"].Type) == 0) || (op == "update" && len(before[user+".user"].Type) > 0)
				_ = exists
				wit := map[string]any{"op": op, "condition": c.Text, "password": vr.Q(pw), "user": user, "exit": code, "output": out, "diff": diff}
				if code == 0 && !want {
					R.Violate("c17:failing-password-stored:cli-"+op+":"+c.Cond.Kind, fmt.Sprintf("CLI %s stored password %s which fails '%s' for user %s", op, vr.Q(pw), c.Text, user), "cli/"+op, wit)
				}
				if code != 0 && want && semOK {
					R.Violate("c17:passing-password-refused:cli-"+op+":"+c.Cond.Kind, fmt.Sprintf("exit %d", code), "cli/"+op, wit)
				}
				if code != 0 && len(diff) > 0 {
					R.Violate("c17:refused-request-changed-store:cli-"+op, fmt.Sprint(diff), "cli/"+op, wit)
				}
			}
			run(st.Cfg, "remove", user) //nolint:errcheck
		}
	}
	// unparsable policy: the binary must exit non-zero and must not serve
	dir := ovlWork("c17-cli-bad")
	st := ovlMkStore(rng, dir, ref.CheapSets(rng, 2), 1, []ovlUser{{Name: "root", Pw: "root-pw", Admin: true, Set: 1}})
	for _, bad := range [][2]string{{"zxcvbn", "score > 3"}, {"zxcvbn", ""}, {"zxcvbn", "time >= 1,000"}, {"zxcvbn", "score >= 5"}, {"nope", "score >= 3"}, {"zxcvbn", "entropy >= 45 bits"}} {
		lc := filepath.Join(dir, "listener.yml")
		os.WriteFile(lc, []byte("saslauthd:\n  listen:\n    - "+filepath.Join(dir, "s.sock")+"\n"), 0600) //nolint:errcheck
		cmd := exec.Command("timeout", "5", bin, "--store", st.Cfg, "--policy-type", bad[0], "--policy-condition", bad[1], "run", "--listener", lc)
		out, err := cmd.CombinedOutput()
		code := 0
		if ee, ok := err.(*exec.ExitError); ok {
			code = ee.ExitCode()
		}
		R.Case("cli-bad|"+bad[0]+"|"+bad[1], true)
		R.Count("cli_bad_policy_starts", 1)
		if code == 0 || code == 124 {
			R.Violate("c17:binary-serves-with-unparsable-policy", fmt.Sprintf("whawty-auth run with policy (%q, %q) did not exit with an error (exit %d): %s", bad[0], bad[1], code, out), "cli/bad", nil)
		}
		for _, cmdn := range []string{"add"} {
			code, _ := run(st.Cfg, "--policy-type", bad[0], "--policy-condition", bad[1], cmdn, "eve", "password")
			if code == 0 {
				R.Violate("c17:binary-stores-with-unparsable-policy", fmt.Sprintf("add succeeded with policy (%q, %q)", bad[0], bad[1]), "cli/bad", nil)
			}
		}
	}
	_ = math.Inf
}

// TestVerifC17Reload: the policy is part of how the agent was started, not of the store configuration: reloading the
// store configuration (successfully or not, same or another base directory) must leave it in force.
func TestVerifC17Reload(t *testing.T) {
	R := vr.New("C17", "policy-after-reload", "one in-process agent started with a zxcvbn condition; its store configuration is reloaded by SIGHUP (same configuration, an extra unused parameter set, another default, another base directory, a document that does not load) and after every reload passwords that fail / satisfy the condition (reference verdict: zxcvbn called directly) are sent through add and update of the request interface and through HTTP add / update: the failing ones must be refused with the directory byte-identical, the satisfying ones stored. Non-trivial: every (reload kind, write path, password); distinct by that tuple")
	defer R.Write()
	rng := R.Rand("c17r")
	verifSetLogging(true)
	defer verifSetLogging(false)
	// one agent only: SIGHUP reaches every agent of the process and the reload event is attributable only then
	for ci, cond := range []c17CondStr{{"score >= 3", "valid", c17Cond{"score", 3}}}[:1] {
		w, err := c17Agent(R, rng, "zxcvbn", cond.Text)
		if err != nil {
			R.Fatal = err.Error()
			return
		}
		w.iface.Check() //nolint:errcheck (the dispatcher has installed its signal handler)
		st := w.st
		other := filepath.Join(st.Dir, "other-base")
		os.MkdirAll(filepath.Join(other, ".tmp"), 0700) //nolint:errcheck
		plantIn(rng, c18Conf{Sets: st.Sets, Def: 1}, other, []ovlUser{{Name: "root", Pw: "root-Password-9!x", Admin: true, Set: 1}})
		extra := append(append([]ref.ParamSet{}, st.Sets...), ref.ParamSet{ID: 9, Algo: ref.AlgoArgon, Time: 1, Memory: 8, Threads: 1, Length: 16})
		kinds := []struct{ kind, yaml, base string }{
			{"before-any-reload", "", st.Base},
			{"same-configuration", ref.YAML(st.Base, 1, st.Sets), st.Base},
			{"extra-unused-set", ref.YAML(st.Base, 1, extra), st.Base},
			{"other-default", ref.YAML(st.Base, 2, extra), st.Base},
			{"does-not-load", "basedir: [unclosed", st.Base},
			{"other-base-directory", ref.YAML(other, 1, st.Sets), other},
		}
		n := 0
		for _, k := range kinds {
			id := fmt.Sprintf("c%d/%s", ci, k.kind)
			R.Mark(id)
			if k.yaml != "" {
				if !c18Reload(st.Cfg, k.yaml) {
					R.Inconcl("reload event not seen: " + id)
					continue
				}
				w.iface.Check() //nolint:errcheck
			}
			admin, _ := w.post("/api/authenticate", map[string]any{"username": "root", "password": "root-Password-9!x"})
			_ = admin
			_, am := w.post("/api/authenticate", map[string]any{"username": "root", "password": "root-Password-9!x"})
			sess, _ := am["session"].(string)
			for _, pw := range []string{"password", "abc123", "qwertyuiop", "kT7#vQ2$mZ9!pL4^wX8&bN3", "Quartz-Zebra-Lamp-77-horse!"} {
				n++
				u := fmt.Sprintf("n%d", n)
				want := cond.Cond.Pass(pw, u)
				for _, path := range []string{"iface-add", "iface-update", "http-add", "http-update"} {
					target := u + "-" + path
					before := ref.TakeSnap(k.base)
					var stored bool
					switch path {
					case "iface-add":
						stored = w.iface.Add(target, pw, false) == nil
					case "iface-update":
						w.iface.Add(target, "Initial-Quartz-Zebra-Lamp-1!", false) //nolint:errcheck
						before = ref.TakeSnap(k.base)
						stored = w.iface.Update(target, pw) == nil
					case "http-add":
						code, _ := w.post("/api/add", map[string]any{"session": sess, "username": target, "password": pw, "admin": false})
						stored = code == 200
					case "http-update":
						w.iface.Add(target, "Initial-Quartz-Zebra-Lamp-1!", false) //nolint:errcheck
						before = ref.TakeSnap(k.base)
						code, _ := w.post("/api/update", map[string]any{"username": target, "oldpassword": "Initial-Quartz-Zebra-Lamp-1!", "newpassword": pw})
						stored = code == 200
					}
					wantP := cond.Cond.Pass(pw, target)
					_ = want
					diff := ref.Diff(before, ref.TakeSnap(k.base), ref.DiffOpts{IgnorePath: ref.IgnoreTmpDir})
					R.Case(fmt.Sprintf("%s|%s|%s|%s", cond.Text, k.kind, path, pw), true)
					R.Count("after_reload_probes", 1)
					wit := map[string]any{"condition": cond.Text, "reload": k.kind, "path": path, "password": pw, "user": target, "reference_passes": wantP, "stored": stored, "directory_changes": diff}
					if !wantP && (stored || len(diff) > 0) {
						R.Violate("c17:failing-password-stored:after-reload:"+k.kind, fmt.Sprintf("after reload '%s' the password %q (fails %s for user %s) was accepted by %s", k.kind, pw, cond.Text, target, path), id, wit)
					}
					if wantP && !stored {
						R.Violate("c17:satisfying-password-refused:after-reload:"+k.kind, fmt.Sprintf("after reload '%s' the password %q (satisfies %s) was refused by %s", k.kind, pw, cond.Text, path), id, wit)
					}
				}
			}
		}
	}
}
