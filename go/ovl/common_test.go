package main

// Overlay test support (compiled into package main of cmd/whawty-auth by the
// /verif runner with -overlay; never copied into the repository).

import (
	"encoding/base64"
	"fmt"
	"math/rand"
	"net"
	"os"
	"path/filepath"
	"syscall"
	"testing"
	"time"

	"github.com/whawty/auth/zz_verif/ref"
	"github.com/whawty/auth/zz_verif/vr"
)

func ovlWork(sub string) string {
	d := os.Getenv("VERIF_WORK")
	if d == "" {
		d = "/verif/.work/adhoc"
	}
	d = filepath.Join(d, sub)
	os.RemoveAll(d)      //nolint:errcheck
	os.MkdirAll(d, 0700) //nolint:errcheck
	return d
}

// ovlStoreSpec describes a store directory to materialise.
type ovlUser struct {
	Name  string
	Pw    string
	Admin bool
	Set   uint
	Aux   string
}

type ovlStore struct {
	Dir   string // contains base/ and store.yml
	Base  string
	Cfg   string
	Sets  []ref.ParamSet
	Def   uint
	Users map[string]*ovlUser
	Now   bool // plant records with the current time instead of one hour ago
}

// ovlMkStore writes base dir, config and reference-written records.
func ovlMkStore(rng *rand.Rand, dir string, sets []ref.ParamSet, def uint, users []ovlUser) *ovlStore {
	s := &ovlStore{Dir: dir, Base: filepath.Join(dir, "base"), Cfg: filepath.Join(dir, "store.yml"), Sets: sets, Def: def, Users: map[string]*ovlUser{}}
	os.MkdirAll(filepath.Join(s.Base, ".tmp"), 0700) //nolint:errcheck
	s.WriteCfg()
	for i := range users {
		u := users[i]
		s.Plant(rng, u)
	}
	return s
}

func (s *ovlStore) WriteCfg() {
	os.WriteFile(s.Cfg, []byte(ref.YAML(s.Base, s.Def, s.Sets)), 0600) //nolint:errcheck
}

func (s *ovlStore) Set(id uint) ref.ParamSet {
	for _, p := range s.Sets {
		if p.ID == id {
			return p
		}
	}
	panic("no such set")
}

// Plant writes a reference-made record for the user (removing any other file of that user).
func (s *ovlStore) Plant(rng *rand.Rand, u ovlUser) {
	ps := s.Set(u.Set)
	salt := make([]byte, ps.SaltLen())
	rng.Read(salt)
	os.Remove(filepath.Join(s.Base, u.Name+".user"))  //nolint:errcheck
	os.Remove(filepath.Join(s.Base, u.Name+".admin")) //nolint:errcheck
	ext := ".user"
	if u.Admin {
		ext = ".admin"
	}
	ts := time.Now().Unix() - 3600
	if s.Now {
		ts = time.Now().Unix()
	}
	data := ps.Record([]byte(u.Pw), salt, ts) + "\n" + u.Aux
	os.WriteFile(filepath.Join(s.Base, u.Name+ext), []byte(data), 0600) //nolint:errcheck
	uu := u
	s.Users[u.Name] = &uu
}

func (s *ovlStore) File(name string) (path string, data []byte, admin bool, ok bool) {
	for _, ext := range []string{".admin", ".user"} {
		p := filepath.Join(s.Base, name+ext)
		if b, err := os.ReadFile(p); err == nil {
			return p, b, ext == ".admin", true
		}
	}
	return "", nil, false, false
}

func ovlAgent(cfg, upgrades, ptype, pcond, hooks string) (*store, error) {
	return NewStore(cfg, upgrades, ptype, pcond, hooks)
}

func ovlResult(t *testing.T, prop, stage, rule string) *vr.Result {
	return vr.New(prop, stage, rule)
}

var _ = fmt.Sprint
var base64URL = base64.URLEncoding

func lib_NewDir(cfg string) (interface{ Check() error }, error) {
	return libNewDirFromConfig(cfg)
}

func b64(b []byte) string { return base64URL.EncodeToString(b) }
func unb64(s string) []byte {
	b, _ := base64URL.DecodeString(s)
	return b
}

// ovlRaiseNoFile lifts the soft descriptor limit to the hard limit: the tests create hundreds of agents,
// listeners and client connections in one process.
func ovlRaiseNoFile() {
	var l syscall.Rlimit
	if syscall.Getrlimit(syscall.RLIMIT_NOFILE, &l) == nil && l.Cur < l.Max {
		l.Cur = l.Max
		syscall.Setrlimit(syscall.RLIMIT_NOFILE, &l) //nolint:errcheck
	}
}

// ovlSasl serves the agent's saslauthd frontend on a listener the test owns, so that it can be closed again.
func ovlSasl(path string, iface *Store) (stop func()) {
	os.Remove(path) //nolint:errcheck
	addr, err := net.ResolveUnixAddr("unix", path)
	if err != nil {
		return func() {}
	}
	ln, err := net.ListenUnix("unix", addr)
	if err != nil {
		return func() {}
	}
	go runSaslAuthSocketListener(ln, iface) //nolint:errcheck
	return func() { ln.Close() }            //nolint:errcheck
}

func init() { ovlRaiseNoFile() }
