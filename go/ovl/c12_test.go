package main

import (
	"bytes"
	"encoding/json"
	"fmt"
	"io"
	"math/rand"
	"net/http"
	"net/http/httptest"
	"os"
	"path/filepath"
	"strings"
	"sync"
	"sync/atomic"
	"syscall"
	"testing"
	"time"

	"github.com/whawty/auth/zz_verif/ref"
	"github.com/whawty/auth/zz_verif/vr"
)

type c12Front struct {
	iface    *Store
	web      *httptest.Server
	sock     string
	env      *c11Env
	stopSasl func()
}

func c12Fronts(iface *Store, dir string) *c12Front {
	hd, _ := newWebHandler(iface)
	f := &c12Front{iface: iface, web: httptest.NewServer(hd), sock: filepath.Join(dir, "c12.sock")}
	f.stopSasl = ovlSasl(f.sock, iface)
	f.env = &c11Env{iface: iface, web: f.web.URL, sock: f.sock, httpc: &http.Client{Transport: &http.Transport{MaxIdleConnsPerHost: 4}}}
	return f
}

func (f *c12Front) login(via, user, pw string) bool {
	if via == "ldap" {
		code, _ := ldapHandler{store: f.iface}.Bind(user+"@example.org", pw, nil)
		return code == 0
	}
	return f.env.auth(via, user, pw).OK
}

func (f *c12Front) close() {
	f.stopSasl()
	f.env.httpc.CloseIdleConnections()
	go f.web.Close()
}

var outageHits int32

var c12Vias = []string{"iface", "basic", "api", "sasl", "ldap", "upgrade-request"}

func c12Barrier(iface *Store) {
	iface.Update("zz-barrier-nonexistent", "x") //nolint:errcheck
}

func TestVerifC12(t *testing.T) {
	R := vr.New("C12", "upgrades", "(a) library: upgradeable == (record set id != default) for every record x every default x right/wrong password; (b) agent with local upgrades on stores mixing 4 parameter sets and both algorithms, every default (incl. a default switched by SIGHUP reload), admin and ordinary users with auxiliary data, logins with right / wrong / near-miss passwords over the Store interface, HTTP basic-auth, HTTP API, SASL socket, LDAP bind and the old-password-only form of /api/update (what a slave sends to its master), passwords incl. ones ending in LF / CR LF / blank; after each login and a FIFO barrier the record must be byte-identical or a strict record under the default set for exactly the login password with same extension and auxiliary bytes, and it MUST be rewritten when the login was right, the hash upgradeable and the policy satisfied; (c) upgrades off: directory byte- and inode-identical after any number of authentications; (d) remote mode: the master sees user + old password and no new password, the slave directory never changes. Non-trivial: every login of an existing user; distinct by (default, record set, frontend, password class, policy)")
	defer R.Write()
	rng := R.Rand("c12")
	c12Library(R, rng)
	// the reload part runs first: SIGHUP reaches every agent of this process, and the reload event is only
	// attributable while the agent under test is the only one
	if R.Want("reload") {
		R.Mark("reload")
		c12Reload(R, rng, "reload")
	}
	rounds := vr.Pick(3, 30)
	for r := 0; r < rounds; r++ {
		for def := uint(1); def <= 4; def++ {
			id := fmt.Sprintf("local/r%d/default%d", r, def)
			if R.Want(id) {
				R.Mark(id)
				c12Local(R, rand.New(rand.NewSource(rng.Int63())), id, def, r%2 == 1)
			}
		}
		id := fmt.Sprintf("off/r%d", r)
		if R.Want(id) {
			R.Mark(id)
			c12Off(R, rand.New(rand.NewSource(rng.Int63())), id)
		}
		id = fmt.Sprintf("remote/r%d%s", r, strings.Repeat("x", r%2))
		if R.Want(id) {
			R.Mark(id)
			c12Remote(R, rand.New(rand.NewSource(rng.Int63())), id)
		}
	}
}

func c12Users(sets []ref.ParamSet) []ovlUser {
	var us []ovlUser
	for _, s := range sets {
		us = append(us, ovlUser{Name: fmt.Sprintf("adm%d", s.ID), Pw: fmt.Sprintf("Correct-Horse-Battery-%d-admin!", s.ID), Admin: true, Set: s.ID, Aux: "totp: QUJDREVG\nu2f: R0hJSg=="})
		us = append(us, ovlUser{Name: fmt.Sprintf("usr%d", s.ID), Pw: fmt.Sprintf("Tr0ub4dor&%d-zebra-lamp-quartz", s.ID), Set: s.ID, Aux: ""})
		us = append(us, ovlUser{Name: fmt.Sprintf("weak%d", s.ID), Pw: fmt.Sprintf("abc%d", s.ID), Set: s.ID, Aux: "totp: QQ==\r\nx: \xff\xfe binary\n"})
		// passwords whose last bytes are line ends or blanks (every frontend transports them)
		us = append(us, ovlUser{Name: fmt.Sprintf("nl%d", s.ID), Pw: fmt.Sprintf("Quartz-Zebra-Lamp-%d-tail", s.ID) + []string{"\n", "\r\n", " ", "\t\n"}[int(s.ID)%4], Set: s.ID, Aux: "totp: QUJD\n"})
	}
	return us
}

func c12Library(R *vr.Result, rng *rand.Rand) {
	dir := ovlWork("c12-lib")
	sets := ref.CheapSets(rng, 4)
	users := c12Users(sets)
	for def := uint(1); def <= 4; def++ {
		st := ovlMkStore(rng, filepath.Join(dir, fmt.Sprint(def)), sets, def, users)
		d, err := libNewDirFromConfig(st.Cfg)
		if err != nil {
			R.Fatal = err.Error()
			return
		}
		for _, u := range users {
			for _, pw := range []string{u.Pw, u.Pw + "x", ""} {
				ok, _, up, _, _ := d.Authenticate(u.Name, pw)
				R.Case(fmt.Sprintf("lib/%d/%s/%v", def, u.Name, pw == u.Pw), true)
				R.Count("library_probes", 1)
				if ok != (pw == u.Pw) {
					R.Violate("c12:library-verdict", fmt.Sprintf("Authenticate(%s) = %v", u.Name, ok), "lib", nil)
				}
				if up != (u.Set != def) {
					R.Violate(fmt.Sprintf("c12:upgradeable-flag:right-password=%v:got=%v", pw == u.Pw, up), fmt.Sprintf("record of %s is under set %d, default is %d, Authenticate reports upgradeable=%v", u.Name, u.Set, def, up), fmt.Sprintf("lib/default%d/%s", def, u.Name), nil)
				}
			}
		}
	}
}

// c12After judges the record of user u after a login with password pw.
func c12After(R *vr.Result, id string, st *ovlStore, def uint, u *ovlUser, before []byte, beforeIno uint64, pw string, loginOK, mustRewrite bool, via string) (rewritten bool) {
	_, after, adm, ok := st.File(u.Name)
	wit := map[string]any{"user": u.Name, "record_set": u.Set, "default": def, "frontend": via, "password_class": map[bool]string{true: "right", false: "wrong"}[pw == u.Pw], "before": vr.Q(string(before)), "after": vr.Q(string(after))}
	if !ok {
		R.Violate("c12:record-vanished", "the user's file is gone after a login", id, wit)
		return
	}
	if adm != u.Admin {
		R.Violate("c12:admin-flag-changed", "the file extension changed after a login", id, wit)
	}
	if bytes.Equal(before, after) {
		if mustRewrite {
			R.Violate(fmt.Sprintf("c12:upgrade-did-not-happen:via=%s", via), fmt.Sprintf("successful login of %s (record set %d, default %d) on an idle agent with upgrades enabled: after the FIFO barrier the record is still the old one", u.Name, u.Set, def), id, wit)
		}
		return false
	}
	R.Count("records_rewritten", 1)
	if !loginOK || pw != u.Pw {
		R.Violate("c12:rewrite-after-failed-login", "the record changed although the login did not succeed", id, wit)
		return true
	}
	if u.Set == def {
		R.Violate("c12:rewrite-of-non-upgradeable", "a record already under the default set was rewritten", id, wit)
	}
	line, rest, _ := bytes.Cut(after, []byte("\n"))
	if string(rest) != u.Aux {
		R.Violate("c12:aux-changed-by-upgrade", fmt.Sprintf("auxiliary data changed: %q -> %q", u.Aux, rest), id, wit)
	}
	rec := append(append([]byte{}, line...), '\n')
	p, pok := ref.ParseStrict(rec)
	if !pok || p.ID != def || !ref.MustAccept(ref.SetMap(st.Sets), rec, []byte(pw)) {
		R.Violate("c12:upgraded-record-wrong", fmt.Sprintf("the rewritten record is not a strict record under default set %d for exactly the login password", def), id, wit)
	}
	return true
}

func fileIno(path string) uint64 {
	fi, err := os.Stat(path)
	if err != nil {
		return 0
	}
	return fi.Sys().(*syscall.Stat_t).Ino
}

func c12Local(R *vr.Result, rng *rand.Rand, id string, def uint, policy bool) {
	dir := ovlWork("c12-local")
	sets := ref.CheapSets(rng, 4)
	users := c12Users(sets)
	st := ovlMkStore(rng, dir, sets, def, users)
	ptype, pcond := "", ""
	if policy {
		ptype, pcond = "zxcvbn", "score >= 3"
	}
	ag, err := NewStore(st.Cfg, "local", ptype, pcond, "")
	if err != nil {
		R.Fatal = err.Error()
		return
	}
	fr := c12Fronts(ag.GetInterface(), dir)
	defer fr.close()
	pol, _ := NewPasswordPolicy(ptype, pcond)
	order := rng.Perm(len(users))
	for k, ui := range order {
		u := st.Users[users[ui].Name]
		via := c12Vias[(k+int(def))%len(c12Vias)]
		// first wrong / near-miss logins: nothing may change
		for _, wrong := range []string{u.Pw + "x", u.Pw[:len(u.Pw)-1], strings.ToUpper(u.Pw), ""} {
			if wrong == "" && via != "iface" {
				continue
			}
			before := ref.TakeSnap(st.Base)
			ok := fr.login(via, u.Name, wrong)
			c12Barrier(fr.iface)
			diff := ref.Diff(before, ref.TakeSnap(st.Base), ref.DiffOpts{Inode: true, IgnorePath: ref.IgnoreTmpDir})
			R.Case(fmt.Sprintf("%d/%d/%s/wrong/%v", def, u.Set, via, policy), true)
			R.Count("failed_logins", 1)
			if ok {
				R.Violate("c12:wrong-password-accepted", "login with a wrong password succeeded", id, map[string]any{"user": u.Name, "via": via})
			}
			if len(diff) > 0 {
				R.Violate("c12:failed-login-changed-store:via="+via, fmt.Sprintf("a failed login changed the directory: %v", diff), id, map[string]any{"user": u.Name, "via": via, "diff": diff})
			}
		}
		path, before, _, _ := st.File(u.Name)
		ino := fileIno(path)
		// every other user: the work area holds what interrupted earlier writes of this user may have left behind - complete
		// replacement files (longer than the record is now) under every name a writer might choose for its work file
		planted := map[string]bool{}
		if k%2 == 1 {
			stale := append(append([]byte{}, before...), []byte("\nstale-line-1: "+strings.Repeat("S", 300)+"\nstale-line-2: "+strings.Repeat("T", 300)+"\n")...)
			for _, n := range []string{u.Name + ".user", u.Name + ".admin", u.Name + ".user.new", u.Name + ".admin.new", u.Name + ".user.tmp", u.Name + ".tmp", u.Name, "." + u.Name + ".user", u.Name + ".user~"} {
				if os.WriteFile(filepath.Join(st.Base, ".tmp", n), stale, 0600) == nil {
					planted[".tmp/"+n] = true
				}
			}
			R.Count("logins_with_stale_work_files", 1)
		}
		others := ref.TakeSnap(st.Base)
		ok := fr.login(via, u.Name, u.Pw)
		c12Barrier(fr.iface)
		polOK, _ := pol.Check(u.Pw, u.Name)
		must := ok && u.Set != def && polOK
		R.Case(fmt.Sprintf("%d/%d/%s/right/%v", def, u.Set, via, policy), true)
		R.Count("successful_logins", 1)
		if !ok {
			R.Violate("c12:right-password-refused:via="+via, "login with the right password failed", id, map[string]any{"user": u.Name, "via": via})
		}
		if u.Set != def {
			R.Count("upgradeable_logins", 1)
			if !polOK {
				R.Count("upgradeable_logins_policy_rejects", 1)
			}
		}
		rew := c12After(R, id, st, def, u, before, ino, u.Pw, ok, must, via)
		// every other file untouched
		diff := ref.Diff(others, ref.TakeSnap(st.Base), ref.DiffOpts{Inode: true, IgnorePath: func(rel string) bool {
			return ref.IgnoreTmpDir(rel) || strings.HasPrefix(rel, u.Name+".") || planted[rel] // entries of the work area may be reused or cleared
		}})
		for rel := range planted {
			os.Remove(filepath.Join(st.Base, rel)) //nolint:errcheck
		}
		if len(diff) > 0 {
			R.Violate("c12:login-touched-other-files", fmt.Sprint(diff), id, map[string]any{"user": u.Name, "diff": diff})
		}
		if rew {
			// converged: no longer upgradeable, and old near-misses still fail
			d, _ := libNewDirFromConfig(st.Cfg)
			if ok2, _, up, _, _ := d.Authenticate(u.Name, u.Pw); !ok2 || up {
				R.Violate("c12:not-converged", fmt.Sprintf("after the upgrade Authenticate gives ok=%v upgradeable=%v", ok2, up), id, map[string]any{"user": u.Name})
			}
			u.Set = def
			// a second login must not rewrite again
			_, b2, _, _ := st.File(u.Name)
			fr.login(via, u.Name, u.Pw)
			c12Barrier(fr.iface)
			if _, a2, _, _ := st.File(u.Name); !bytes.Equal(a2, b2) {
				R.Violate("c12:rewrite-of-non-upgradeable", "a second login rewrote an already upgraded record", id, map[string]any{"user": u.Name})
			}
		}
	}
	R.Sample(map[string]any{"case": id, "default": def, "policy": policy, "users": len(users)})
}

func c12Off(R *vr.Result, rng *rand.Rand, id string) {
	dir := ovlWork("c12-off")
	sets := ref.CheapSets(rng, 4)
	users := c12Users(sets)
	def := uint(1 + rng.Intn(4))
	st := ovlMkStore(rng, dir, sets, def, users)
	ag, err := NewStore(st.Cfg, "", "", "", "")
	if err != nil {
		R.Fatal = err.Error()
		return
	}
	fr := c12Fronts(ag.GetInterface(), dir)
	defer fr.close()
	before := ref.TakeSnap(st.Base)
	n := 0
	for _, u := range users {
		for _, via := range c12Vias {
			for _, pw := range []string{u.Pw, u.Pw + "x"} {
				ok := fr.login(via, u.Name, pw)
				n++
				if ok != (pw == u.Pw) {
					R.Violate("c12:verdict-with-upgrades-off:via="+via, fmt.Sprintf("login(%s) = %v", u.Name, ok), id, nil)
				}
			}
		}
	}
	c12Barrier(fr.iface)
	time.Sleep(50 * time.Millisecond)
	diff := ref.Diff(before, ref.TakeSnap(st.Base), ref.DiffOpts{Inode: true, FileMtime: true, IgnorePath: ref.IgnoreTmpDir})
	R.Case(id, true)
	R.Count("logins_with_upgrades_off", n)
	if len(diff) > 0 {
		R.Violate("c12:upgrades-off-but-store-modified", fmt.Sprintf("with upgrades disabled %d authentications changed the directory: %v", n, diff), id, map[string]any{"diff": diff})
	}
}

func c12Remote(R *vr.Result, rng *rand.Rand, id string) {
	sdir := ovlWork("c12-slave")
	mdir := ovlWork("c12-master")
	sets := ref.CheapSets(rng, 4)
	users := c12Users(sets)
	def := uint(1 + rng.Intn(4))
	slave := ovlMkStore(rng, sdir, sets, def, users)
	master := ovlMkStore(rng, mdir, sets, def, users)
	mag, err := NewStore(master.Cfg, "local", "", "", "")
	if err != nil {
		R.Fatal = err.Error()
		return
	}
	mh, _ := newWebHandler(mag.GetInterface())
	var mu sync.Mutex
	var posts []map[string]any
	var outage int32
	msrv := httptest.NewServer(http.HandlerFunc(func(w http.ResponseWriter, r *http.Request) {
		if o := atomic.LoadInt32(&outage); o != 0 {
			atomic.AddInt32(&outageHits, 1)
			if o == 2 { // transport-level failure: drop the connection without an answer
				if hj, ok := w.(http.Hijacker); ok {
					if c, _, err := hj.Hijack(); err == nil {
						c.Close() //nolint:errcheck
						return
					}
				}
			}
			http.Error(w, "master unavailable", http.StatusServiceUnavailable)
			return
		}
		body, _ := io.ReadAll(r.Body)
		var m map[string]any
		json.Unmarshal(body, &m) //nolint:errcheck
		if m == nil {
			m = map[string]any{}
		}
		m["_path"] = r.URL.Path
		m["_raw"] = string(body)
		mu.Lock()
		posts = append(posts, m)
		mu.Unlock()
		r.Body = io.NopCloser(bytes.NewReader(body))
		mh.ServeHTTP(w, r)
	}))
	defer func() { go msrv.Close() }()
	verifSetLogging(true)
	sag, err := NewStore(slave.Cfg, msrv.URL+"/api/update", "", "", "")
	if err != nil {
		R.Fatal = err.Error()
		return
	}
	fr := c12Fronts(sag.GetInterface(), sdir)
	defer fr.close()
	// outage phase first: the master answers 503 to more upgrade requests than the upgrader has slots;
	// afterwards (master healthy) upgradeable logins must reach the master again
	var outUsers []ovlUser
	for i := 0; i < 14; i++ {
		ou := ovlUser{Name: fmt.Sprintf("out%d", i), Pw: fmt.Sprintf("Outage-Password-%d!", i), Set: 1 + (def % 4)}
		slave.Plant(rng, ou)
		master.Plant(rng, ou)
		outUsers = append(outUsers, ou)
	}
	sbefore := ref.TakeSnap(slave.Base)
	atomic.StoreInt32(&outageHits, 0)
	atomic.StoreInt32(&outage, 1+int32(len(id))%2) // 503 answers in some rounds, dropped connections in others
	for _, ou := range outUsers {
		fr.login("iface", ou.Name, ou.Pw)
		time.Sleep(3 * time.Millisecond)
	}
	expected := 0
	waitDone := func(want int) bool {
		deadline := time.Now().Add(20 * time.Second)
		for {
			done, drop := 0, 0
			for _, e := range verifSnapshot() {
				if e.Kind == "remote.done" {
					done++
				}
				if e.Kind == "remote.drop" {
					drop++
				}
			}
			if done+drop >= want {
				return true
			}
			if time.Now().After(deadline) {
				return false
			}
			time.Sleep(2 * time.Millisecond)
		}
	}
	if !waitDone(len(outUsers)) {
		R.Inconcl("outage-phase upgrade requests did not finish within the watchdog")
		return
	}
	R.Count("remote_outage_requests", int(atomic.LoadInt32(&outageHits)))
	atomic.StoreInt32(&outage, 0)
	baseDone := 0
	for _, e := range verifSnapshot() {
		if e.Kind == "remote.done" || e.Kind == "remote.drop" {
			baseDone++
		}
	}
	_ = baseDone
	verifSetLogging(true) // clear: the per-user loop below counts remote.done from zero
	for k, u := range users {
		via := c12Vias[k%len(c12Vias)]
		_, mb, _, _ := master.File(u.Name)
		ok := fr.login(via, u.Name, u.Pw)
		fr.login(via, u.Name, u.Pw+"wrong")
		R.Case(fmt.Sprintf("remote/%d/%d/%s", def, u.Set, via), true)
		R.Count("remote_logins", 1)
		if !ok {
			R.Violate("c12:right-password-refused:via="+via, "slave login failed", id, nil)
			continue
		}
		if u.Set == def {
			continue
		}
		expected++
		// wait for the asynchronous POST: remote.done event (watchdog, not a verdict)
		deadline := time.Now().Add(20 * time.Second)
		for {
			done := 0
			for _, e := range verifSnapshot() {
				if e.Kind == "remote.done" {
					done++
				}
			}
			if done >= expected {
				break
			}
			dropped := 0
			for _, e := range verifSnapshot() {
				if e.Kind == "remote.drop" {
					dropped++
				}
			}
			if dropped > 0 {
				R.Violate("c12:remote-upgrade-dropped-on-idle-agent", fmt.Sprintf("after an outage of the master (it answered 503 to %d requests) and with no upgrade in flight, the upgrade request for %s was dropped as rate-limited", atomic.LoadInt32(&outageHits), u.Name), id, nil)
				return
			}
			if time.Now().After(deadline) {
				R.Inconcl("remote upgrade POST did not finish within the 20 s watchdog")
				return
			}
			time.Sleep(2 * time.Millisecond)
		}
		c12Barrier(mag.GetInterface())
		mu.Lock()
		var p map[string]any
		if len(posts) > 0 {
			p = posts[len(posts)-1]
		}
		np := len(posts)
		mu.Unlock()
		if np != expected || p == nil {
			R.Violate("c12:remote-post-count", fmt.Sprintf("%d POSTs seen at the master after %d upgradeable logins", np, expected), id, nil)
			continue
		}
		if p["username"] != u.Name || p["oldpassword"] != u.Pw || p["_path"] != "/api/update" {
			R.Violate("c12:remote-post-content", "the POST to the master does not carry the user and the login password as oldpassword", id, p["_raw"])
		}
		if v, has := p["newpassword"]; has && v != "" {
			R.Violate("c12:remote-post-carries-new-password", "the POST to the master carries a new password", id, p["_raw"])
		}
		if _, has := p["session"]; has {
			R.Violate("c12:remote-post-carries-session", "the POST carries a session", id, p["_raw"])
		}
		// the master's record obeys the rewrite rule (its own local upgrade)
		mu2 := u
		c12After(R, id+"/master", master, def, &mu2, mb, 0, u.Pw, true, true, "remote->master")
		R.Count("remote_upgrades_observed", 1)
	}
	diff := ref.Diff(sbefore, ref.TakeSnap(slave.Base), ref.DiffOpts{Inode: true, FileMtime: true, IgnorePath: ref.IgnoreTmpDir})
	if len(diff) > 0 {
		R.Violate("c12:remote-mode-slave-store-modified", fmt.Sprintf("in remote upgrade mode the slave's directory changed: %v", diff), id, map[string]any{"diff": diff})
	}
	verifSetLogging(true)
}

// c12Reload: the default is switched by a SIGHUP reload; upgradeable must be judged against the NEW default.
func c12Reload(R *vr.Result, rng *rand.Rand, id string) {
	dir := ovlWork("c12-reload")
	sets := ref.CheapSets(rng, 4)
	users := c12Users(sets)
	st := ovlMkStore(rng, dir, sets, 1, users)
	verifSetLogging(true)
	ag, err := NewStore(st.Cfg, "local", "", "", "")
	if err != nil {
		R.Fatal = err.Error()
		return
	}
	iface := ag.GetInterface()
	iface.Check() //nolint:errcheck  (a served request proves the dispatcher runs and has installed its SIGHUP handler)
	for _, nd := range []uint{3, 2, 4} {
		st.Def = nd
		st.WriteCfg()
		n0 := 0
		for _, e := range verifSnapshot() {
			if e.Kind == "exec.reload" {
				n0++
			}
		}
		syscall.Kill(os.Getpid(), syscall.SIGHUP) //nolint:errcheck
		deadline := time.Now().Add(20 * time.Second)
		for {
			n := 0
			for _, e := range verifSnapshot() {
				if e.Kind == "exec.reload" {
					n++
				}
			}
			if n > n0 {
				break
			}
			if time.Now().After(deadline) {
				R.Inconcl("reload event not seen within 20 s")
				return
			}
			time.Sleep(time.Millisecond)
		}
		iface.Check() //nolint:errcheck (a request behind the reload in the dispatcher)
		for _, u0 := range users {
			u := st.Users[u0.Name]
			_, before, _, _ := st.File(u.Name)
			ok, _, _, _ := iface.Authenticate(u.Name, u.Pw)
			c12Barrier(iface)
			R.Case(fmt.Sprintf("reload/%d/%d", nd, u.Set), true)
			R.Count("logins_after_reload", 1)
			if c12After(R, id, st, nd, u, before, 0, u.Pw, ok, ok && u.Set != nd, "iface-after-reload") {
				u.Set = nd
			}
		}
	}
	verifSetLogging(true)
}
