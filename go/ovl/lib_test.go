package main

import lib2 "github.com/whawty/auth/store"

func libNewDirFromConfig(cfg string) (*lib2.Dir, error) { return lib2.NewDirFromConfig(cfg) }
