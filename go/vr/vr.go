// Package vr is the result/evidence emitter shared by all monitors.
// A stage (one child process) creates one Result, reports every executed case
// to it and finally writes it as JSON to $VERIF_OUT; the python runner merges
// stages, applies the known-findings file and writes the evidence file.
package vr

import (
	"crypto/sha256"
	"encoding/hex"
	"encoding/json"
	"fmt"
	"math/rand"
	"os"
	"sort"
	"strconv"
	"sync"
	"time"
)

type Violation struct {
	Sig     string `json:"sig"`
	What    string `json:"what"`
	Case    string `json:"case,omitempty"`
	Witness any    `json:"witness,omitempty"`
}

type Result struct {
	mu           sync.Mutex
	Property     string         `json:"property"`
	Stage        string         `json:"stage"`
	Seed         int64          `json:"seed"`
	Tier         string         `json:"tier"`
	Evaluations  int            `json:"evaluations"`
	Distinct     int            `json:"distinct_nontrivial"`
	Rule         string         `json:"rule"`
	Samples      []any          `json:"samples"`
	Violations   []Violation    `json:"violations"`
	Inconclusive int            `json:"inconclusive"`
	InconclWhy   []string       `json:"inconclusive_why,omitempty"`
	Counters     map[string]int `json:"counters"`
	Extra        map[string]any `json:"extra"`
	WallS        float64        `json:"wall_s"`
	Fatal        string         `json:"fatal,omitempty"`

	distinct  map[[8]byte]struct{}
	start     time.Time
	maxSample int
	vioSigs   map[string]int
	mark      *os.File
	only      string
}

func Seed() int64 {
	if v := os.Getenv("VERIF_SEED"); v != "" {
		if n, err := strconv.ParseInt(v, 10, 64); err == nil {
			return n
		}
	}
	return 1
}

func Tier() string {
	if os.Getenv("VERIF_TIER") == "thorough" {
		return "thorough"
	}
	return "quick"
}

func Thorough() bool { return Tier() == "thorough" }

// Pick returns q in the quick tier and t in the thorough tier.
func Pick(q, t int) int {
	if Thorough() {
		return t
	}
	return q
}

func New(property, stage, rule string) *Result {
	r := &Result{Property: property, Stage: stage, Seed: Seed(), Tier: Tier(), Rule: rule,
		Counters: map[string]int{}, Extra: map[string]any{}, distinct: map[[8]byte]struct{}{},
		start: time.Now(), maxSample: 6, vioSigs: map[string]int{}, only: os.Getenv("VERIF_ONLY_CASE")}
	if p := os.Getenv("VERIF_MARK"); p != "" {
		r.mark, _ = os.OpenFile(p, os.O_CREATE|os.O_RDWR|os.O_TRUNC, 0600)
	}
	return r
}

// Rand returns a PRNG derived from the run seed and a stage-specific salt.
func (r *Result) Rand(salt string) *rand.Rand {
	h := sha256.Sum256([]byte(fmt.Sprintf("%d/%s/%s/%s", r.Seed, r.Property, r.Stage, salt)))
	var s int64
	for i := 0; i < 8; i++ {
		s = s<<8 | int64(h[i])
	}
	return rand.New(rand.NewSource(s))
}

// Want reports whether the case with this id should run (replay filter).
func (r *Result) Want(caseID string) bool { return r.only == "" || r.only == caseID }

// Mark records on disk which case is about to run, so that a process-fatal
// error (runtime throw, sanitizer abort) still leaves a witness.
func (r *Result) Mark(caseID string) {
	if r.mark != nil {
		b := make([]byte, 256)
		copy(b, caseID)
		r.mark.WriteAt(b, 0) //nolint:errcheck
	}
}

// Case counts one executed case. key identifies its content; nontrivial says
// whether it is non-trivial by the stage's rule.
func (r *Result) Case(key string, nontrivial bool) {
	h := sha256.Sum256([]byte(key))
	var k [8]byte
	copy(k[:], h[:8])
	r.mu.Lock()
	r.Evaluations++
	if nontrivial {
		if _, ok := r.distinct[k]; !ok {
			r.distinct[k] = struct{}{}
			r.Distinct++
		}
	}
	r.mu.Unlock()
}

func (r *Result) Sample(x any) {
	r.mu.Lock()
	if len(r.Samples) < r.maxSample {
		r.Samples = append(r.Samples, x)
	}
	r.mu.Unlock()
}

func (r *Result) Count(name string, n int) {
	r.mu.Lock()
	r.Counters[name] += n
	r.mu.Unlock()
}

func (r *Result) Get(name string) int {
	r.mu.Lock()
	defer r.mu.Unlock()
	return r.Counters[name]
}

func (r *Result) Set(name string, v any) {
	r.mu.Lock()
	r.Extra[name] = v
	r.mu.Unlock()
}

// Violate records a violation. sig identifies the kind of failure (call site /
// input class / history shape), never the property alone. At most 5 witnesses
// are kept per signature; the count is kept in counters.
func (r *Result) Violate(sig, what, caseID string, witness any) {
	r.mu.Lock()
	r.vioSigs[sig]++
	r.Counters["violation:"+sig]++
	if r.vioSigs[sig] <= 3 {
		r.Violations = append(r.Violations, Violation{Sig: sig, What: what, Case: caseID, Witness: witness})
	}
	r.mu.Unlock()
}

func (r *Result) NViolations() int {
	r.mu.Lock()
	defer r.mu.Unlock()
	n := 0
	for _, c := range r.vioSigs {
		n += c
	}
	return n
}

func (r *Result) Inconcl(why string) {
	r.mu.Lock()
	r.Inconclusive++
	if len(r.InconclWhy) < 10 {
		r.InconclWhy = append(r.InconclWhy, why)
	}
	r.mu.Unlock()
}

// Write emits the result to $VERIF_OUT (or stdout).
func (r *Result) Write() {
	r.mu.Lock()
	defer r.mu.Unlock()
	r.WallS = time.Since(r.start).Seconds()
	if r.Samples == nil {
		r.Samples = []any{}
	}
	if r.Violations == nil {
		r.Violations = []Violation{}
	}
	sort.SliceStable(r.Violations, func(i, j int) bool { return r.Violations[i].Sig < r.Violations[j].Sig })
	data, err := json.MarshalIndent(r, "", " ")
	if err != nil {
		data = []byte(fmt.Sprintf(`{"property":%q,"stage":%q,"fatal":%q}`, r.Property, r.Stage, "marshal: "+err.Error()))
	}
	if p := os.Getenv("VERIF_OUT"); p != "" {
		tmp := p + ".tmp"
		if err := os.WriteFile(tmp, data, 0644); err == nil {
			os.Rename(tmp, p) //nolint:errcheck
		}
	} else {
		os.Stdout.Write(append(data, '\n')) //nolint:errcheck
	}
}

// Hex is a helper for printing arbitrary bytes in witnesses.
func Hex(b []byte) string {
	if len(b) > 96 {
		return hex.EncodeToString(b[:48]) + "..(" + strconv.Itoa(len(b)) + "B).." + hex.EncodeToString(b[len(b)-16:])
	}
	return hex.EncodeToString(b)
}

// Q quotes a string for witnesses, shortening long ones.
func Q(s string) string {
	if len(s) > 120 {
		return strconv.Quote(s[:60]) + "..(" + strconv.Itoa(len(s)) + "B).." + strconv.Quote(s[len(s)-20:])
	}
	return strconv.Quote(s)
}

// Safe runs f and converts a panic into an error string.
func Safe(f func()) (panicked string) {
	defer func() {
		if p := recover(); p != nil {
			panicked = fmt.Sprint(p)
		}
	}()
	f()
	return ""
}
