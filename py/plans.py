"""Per-property plans: which stages to build and run, floors, level, assumptions."""
import os
import runner
from runner import finish, counters

PLANS = {}


def plan(pid):
    def deco(f):
        PLANS[pid] = f
        return f
    return deco


def T(ctx, quick, thorough):
    return quick if ctx.tier == 'quick' else thorough


def want(ctx, stage):
    return getattr(ctx, 'only_stage', None) in (None, stage)


COMMON_ASSUME = [
    'verdict is "held on the executions observed", not a proof; inputs/histories are seeded samples (VERIF_SEED)',
    'the Go toolchain, x/crypto primitives used by the reference models and the kernel behave as documented',
]


@plan('C01')
def c01(ctx, t0):
    hx = ctx.build_hx()
    res = []
    if want(ctx, 'history'):
        res.append(ctx.run_child('history', [hx, 'c01'], T(ctx, 300, 3000)))
    floors = {'auth_probes': (counters(res, 'auth_probes'), 100), 'nearmiss_probes': (counters(res, 'nearmiss_probes'), 100),
              'equivalent_key_probes': (counters(res, 'equivalent_key_probes'), 1)}
    return finish(ctx, 'exploration', res, COMMON_ASSUME + [
        'reference model refstore/refschema (written from doc/SCHEMA.md) is the oracle; key equivalence of PBKDF2-HMAC is modelled by ref.Canon',
        'record timestamps are compared against a [call, return] bracket in whole seconds'], floors, t0)


@plan('C02')
def c02(ctx, t0):
    hx = ctx.build_hx()
    res = []
    if want(ctx, 'mutants'):
        res.append(ctx.run_child('mutants', [hx, 'c02'], T(ctx, 400, 3000)))
    floors = {'must_accept_cases': (counters(res, 'must_accept_cases'), 8), 'must_reject_cases': (counters(res, 'must_reject_cases'), 1000),
              'update_on_unsupported': (counters(res, 'update_on_unsupported'), 300)}
    return finish(ctx, 'exploration', res, COMMON_ASSUME + [
        'sandwich rule: strict-valid => must accept; accept => permissive-valid; in between either answer is correct',
        '"never a hang" is judged by a 30 s then 90 s limit on a deterministic single call whose legitimate cost is < 1 s'], floors, t0)
