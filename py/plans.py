"""Per-property plans: which stages to build and run, floors, level, assumptions."""
import os
import runner
from runner import finish, counters

PLANS = {}


def plan(pid):
    def deco(f):
        PLANS[pid] = f
        return f
    return deco


def T(ctx, quick, thorough):
    return quick if ctx.tier == 'quick' else thorough


def want(ctx, stage):
    return getattr(ctx, 'only_stage', None) in (None, stage)


COMMON_ASSUME = [
    'verdict is "held on the executions observed", not a proof; inputs/histories are seeded samples (VERIF_SEED)',
    'the Go toolchain, x/crypto primitives used by the reference models and the kernel behave as documented',
]


@plan('C01')
def c01(ctx, t0):
    hx = ctx.build_hx()
    res = []
    if want(ctx, 'history'):
        res.append(ctx.run_child('history', [hx, 'c01'], T(ctx, 300, 3000)))
    if want(ctx, 'agent-history'):
        res.append(ovl_stage(ctx, 'agent-history', 'TestVerifC01Agent', T(ctx, 300, 2400)))
    if want(ctx, 'concurrent-writers'):
        res.append(ctx.run_child('concurrent-writers', [hx, 'c01conc'], T(ctx, 300, 1800)))
    floors = {'restamped_records': (counters(res, 'restamped_records'), 20), 'symlinked_records': (counters(res, 'symlinked_records'), 10), 'conc_overlapping_update_pairs': (counters(res, 'conc_overlapping_update_pairs'), 50), 'obstructed_ops': (counters(res, 'obstructed_ops'), 50), 'auth_probes': (counters(res, 'auth_probes'), 100), 'nearmiss_probes': (counters(res, 'nearmiss_probes'), 100),
              'equivalent_key_probes': (counters(res, 'equivalent_key_probes'), 1), 'agent_auth_probes': (counters(res, 'agent_auth_probes'), 1000)}
    return finish(ctx, 'exploration', res, COMMON_ASSUME + [
        'reference model refstore/refschema (written from doc/SCHEMA.md) is the oracle; key equivalence of PBKDF2-HMAC is modelled by ref.Canon',
        'record timestamps are compared against a [call, return] bracket in whole seconds'], floors, t0)


@plan('C02')
def c02(ctx, t0):
    hx = ctx.build_hx()
    res = []
    if want(ctx, 'mutants'):
        res.append(ctx.run_child('mutants', [hx, 'c02'], T(ctx, 400, 3000)))
    if want(ctx, 'agent'):
        ctx.build_agent()
        res.append(ovl_stage(ctx, 'agent', 'TestVerifC02Agent', T(ctx, 300, 900)))
    floors = {'must_accept_cases': (counters(res, 'must_accept_cases'), 8), 'must_reject_cases': (counters(res, 'must_reject_cases'), 1000),
              'update_on_unsupported': (counters(res, 'update_on_unsupported'), 300), 'agent_removes_of_unsupported': (counters(res, 'agent_removes_of_unsupported'), 40), 'cli_listings': (counters(res, 'cli_listings'), 2)}
    return finish(ctx, 'exploration', res, COMMON_ASSUME + [
        'sandwich rule: strict-valid => must accept; accept => permissive-valid; in between either answer is correct',
        '"never a hang" is judged by a 30 s then 90 s limit on a deterministic single call whose legitimate cost is < 1 s'], floors, t0)


@plan('C13')
def c13(ctx, t0):
    hx = ctx.build_hx()
    res = []
    if want(ctx, 'codec'):
        res.append(ctx.run_child('codec', [hx, 'c13'], T(ctx, 300, 2400)))
    if want(ctx, 'pam-encoder'):
        ctx.build_pamh()
        res.append(ctx.run_child('pam-encoder', [hx, 'c13pam'], T(ctx, 300, 1200)))
    floors = {'roundtrips': (counters(res, 'roundtrips'), 400), 'over_limit_encodes': (counters(res, 'over_limit_encodes'), 100),
              'fragmented_decodes': (counters(res, 'fragmented_decodes'), 2000), 'valid_requests': (counters(res, 'valid_requests'), 20),
              'corpus_files': (counters(res, 'corpus_files'), 5), 'retained_encodings_compared': (counters(res, 'retained_encodings_compared'), 1000), 'encoder_comparisons': (counters(res, 'encoder_comparisons'), 50)}
    return finish(ctx, 'exploration', res, COMMON_ASSUME + ['reference codec go/ref/wire.go is the oracle', 'zero-length reads are limited to 3 consecutive (bufio.Scanner gives up after 100, which is stdlib behaviour)'], floors, t0)


@plan('C05')
def c05(ctx, t0):
    hx = ctx.build_hx(race=True)
    res = []
    if want(ctx, 'server'):
        res.append(ctx.run_child('server', [hx, 'c05'], T(ctx, 400, 3000), race=True))
    if want(ctx, 'fd-exhaustion'):
        res.append(ctx.run_child('fd-exhaustion', [ctx.build_hx(), 'c05fd'], T(ctx, 300, 900)))
    floors = {'connections': (counters(res, 'connections'), 2000), 'valid_streams': (counters(res, 'valid_streams'), 300),
              'invalid_streams': (counters(res, 'invalid_streams'), 300), 'positive_replies': (counters(res, 'positive_replies'), 50), 'rounds_with_full_descriptor_table': (counters(res, 'rounds_with_full_descriptor_table'), 2)}
    return finish(ctx, 'exploration', res, COMMON_ASSUME + [
        'an abandoned request is modelled as the client ending the stream (half-close or close); a client that keeps an unfinished request open is not a finished byte stream',
        'callbacks are attributed to connections by a unique login per connection',
        'PAM-side decodability is modelled here as "reply text has at least 2 bytes"; the compiled module reads these replies in the C20 check'], floors, t0)


@plan('C14')
def c14(ctx, t0):
    hx = ctx.build_hx()
    res = []
    if want(ctx, 'records'):
        res.append(ctx.run_child('records', [hx, 'c14'], T(ctx, 300, 2400)))
    if want(ctx, 'agent-after-reload'):
        res.append(ovl_stage(ctx, 'agent-after-reload', 'TestVerifC14Agent', T(ctx, 300, 900)))
    floors = {'writes:hmac_sha256_scrypt': (counters(res, 'writes:hmac_sha256_scrypt'), 50), 'writes:argon2id': (counters(res, 'writes:argon2id'), 50),
              'writes:rewrite-same-password': (counters(res, 'writes:rewrite-same-password'), 10), 'files_scanned_for_secrets': (counters(res, 'files_scanned_for_secrets'), 40), 'records_after_reload': (counters(res, 'records_after_reload'), 15)}
    return finish(ctx, 'exploration', res, COMMON_ASSUME + ['digest recomputation uses x/crypto scrypt/argon2 + crypto/hmac directly from the generated YAML values (r,p omitted or <= 0 => 8,1)'], floors, t0)


@plan('C03')
def c03(ctx, t0):
    hx = ctx.build_hx()
    res = []
    if want(ctx, 'snapshot'):
        res.append(ctx.run_child('snapshot', [hx, 'c03'], T(ctx, 300, 1200)))
    if want(ctx, 'syscalls'):
        import sc_checks
        res.append(sc_checks.c03_syscall_stage(ctx))
    if want(ctx, 'frontends'):
        ctx.build_agent()
        res.append(ctx.run_child('frontends', [hx, 'c03fe'], T(ctx, 600, 1800)))
    floors = {'planted_auth_probes': (counters(res, 'planted_auth_probes'), 10), 'control_names': (counters(res, 'control_names'), 5),
              'delimited_calls': (counters(res, 'delimited_calls'), 150), 'path_syscalls_inspected': (counters(res, 'path_syscalls_inspected'), 200),
              'frontend_probes:sasl': (counters(res, 'frontend_probes:sasl'), 50), 'frontend_probes:ldap': (counters(res, 'frontend_probes:ldap'), 40), 'management_probes': (counters(res, 'management_probes'), 100)}
    return finish(ctx, 'exploration', res, COMMON_ASSUME + ['the monitor applies the grammar ^[A-Za-z0-9][-_.@A-Za-z0-9]*$ itself (go/ref NameValid)'], floors, t0)


@plan('C18')
def c18(ctx, t0):
    hx = ctx.build_hx()
    res = []
    if want(ctx, 'loader'):
        res.append(ctx.run_child('loader', [hx, 'c18'], T(ctx, 400, 3000)))
    if want(ctx, 'reload'):
        res.append(ovl_stage(ctx, 'reload', 'TestVerifC18Reload', T(ctx, 600, 3000)))
    if want(ctx, 'reload-nohooks'):
        res.append(ovl_stage(ctx, 'reload-nohooks', 'TestVerifC18ReloadNoHooks', T(ctx, 600, 3000)))
    if want(ctx, 'reload-binary'):
        ctx.build_agent()
        res.append(ctx.run_child('reload-binary', [hx, 'c18bin'], T(ctx, 600, 1800)))
    floors = {'expect:reject': (counters(res, 'expect:reject'), 100), 'expect:accept': (counters(res, 'expect:accept'), 10),
              'accepted_sets_exercised': (counters(res, 'accepted_sets_exercised'), 30), 'reloads': (counters(res, 'reloads'), 20), 'hook_store_switches': (counters(res, 'hook_store_switches'), 2), 'hook_runs_observed': (counters(res, 'hook_runs_observed'), 1),
              'background_requests_answered': (counters(res, 'background_requests_answered'), 100), 'state_probes': (counters(res, 'state_probes'), 100),
              'signals': (counters(res, 'signals'), 8), 'client_requests_answered': (counters(res, 'client_requests_answered'), 50)}
    return finish(ctx, 'exploration', res, COMMON_ASSUME + [
        'parameter values whose memory demand exceeds 256 MiB or whose run time is unbounded (scrypt cost 20..31, argon2id time/length near 2^32) are not generated: their outcome depends on the host',
        'duplicate parameter-set ids are not mentioned by the property and are left unasserted'], floors, t0)


def ovl_stage(ctx, name, test, timeout, race=True, extra_env=None):
    b = ctx.build_ovl(race=race)
    return ctx.run_child(name, [b, '-test.run', '^%s$' % test, '-test.timeout', '0', '-test.count', '1'], timeout, race=race, extra_env=extra_env)


@plan('C07')
def c07(ctx, t0):
    res = []
    if want(ctx, 'tokens'):
        res.append(ovl_stage(ctx, 'tokens', 'TestVerifC07', T(ctx, 600, 3000)))
    floors = {'presented': (counters(res, 'presented'), 5000), 'nonces_checked': (counters(res, 'nonces_checked'), 100000),
              'chosen_plaintexts': (counters(res, 'chosen_plaintexts'), 20), 'edge_ages': (counters(res, 'edge_ages'), 6), 'accepted': (counters(res, 'accepted'), 20)}
    return finish(ctx, 'exploration', res, COMMON_ASSUME + [
        'unforgeability is tested against the enumerated mutation classes; this is not a cryptographic argument about AES-GCM',
        'ages within a second of the lifetime edge are judged only when a wall-clock reading before and one after the check agree on the verdict (the system clock is assumed not to be stepped in between)',
        'time-window cases sit >= 3 s from the boundary and are re-run when the clock bracket around them exceeds 1 s',
        'the base64 text layer is not part of the claim: acceptance is judged on the decoded (nonce, ciphertext) under a lenient decoder'], floors, t0)


@plan('C10')
def c10(ctx, t0):
    res = []
    if want(ctx, 'progress'):
        res.append(ovl_stage(ctx, 'progress', 'TestVerifC10', T(ctx, 900, 5400)))
    if want(ctx, 'hostile-clients'):
        res.append(ovl_stage(ctx, 'hostile-clients', 'TestVerifC10Hostile', T(ctx, 600, 1200)))
    if want(ctx, 'fd-exhaustion'):
        ctx.build_agent()
        res.append(ctx.run_child('fd-exhaustion', [ctx.build_hx(), 'c10fd'], T(ctx, 600, 1800)))
    floors = {'requests_completed': (counters(res, 'requests_completed'), 5000),
              'upgrades_enqueued:local': (counters(res, 'upgrades_enqueued:local'), 50),
              'local_enqueue_at_full_queue': (counters(res, 'local_enqueue_at_full_queue'), 1),
              'rounds_with_full_descriptor_table': (counters(res, 'rounds_with_full_descriptor_table'), 2),
              'requests_during_login_stream': (counters(res, 'requests_during_login_stream'), 40), 'stream_logins_answered': (counters(res, 'stream_logins_answered'), 200),
              'stalled_connections': (counters(res, 'stalled_connections'), 300), 'stalled_clients_answered_after_completing': (counters(res, 'stalled_clients_answered_after_completing'), 200)}
    return finish(ctx, 'exploration', res, COMMON_ASSUME + [
        'starvation is decided on logical events: a request still unanswered after 1500 logins issued after it were answered',
        'liveness is restated as bounded progress: every issued request returns before the drain phase ends and one probe per request channel returns afterwards',
        'a violation is a proved block (dispatcher goroutine blocked at the same place in two dumps), never a timeout; the watchdog firing is inconclusive',
        'the Go scheduler and select choice are steered by load and delay failpoints, not controlled'], floors, t0)


@plan('C11')
def c11(ctx, t0):
    res = []
    if want(ctx, 'linearizability'):
        res.append(ovl_stage(ctx, 'linearizability', 'TestVerifC11', T(ctx, 900, 5400)))
    if want(ctx, 'backlog'):
        res.append(ovl_stage(ctx, 'backlog', 'TestVerifC11Backlog', T(ctx, 300, 600)))
    if want(ctx, 'binary-frontends'):
        ctx.build_agent()
        res.append(ctx.run_child('binary-frontends', [ctx.build_hx(), 'c11bin'], T(ctx, 300, 900)))
    floors = {'overlapping_same_user_write_pairs': (counters(res, 'overlapping_same_user_write_pairs'), 200),
              'histories_with_upgrade_after_later_update': (counters(res, 'histories_with_upgrade_after_later_update'), 1),
              'upgrades_executed': (counters(res, 'upgrades_executed'), 20), 'crosstalk_requests': (counters(res, 'crosstalk_requests'), 1000), 'backlog_requests': (counters(res, 'backlog_requests'), 10), 'racing_logins_accepted': (counters(res, 'racing_logins_accepted'), 3)}
    return finish(ctx, 'exploration', res, COMMON_ASSUME + [
        'histories are recorded at the client boundary (call before invoking, return after the reply) with one monotonic clock',
        'porcupine v1.3.0 decides linearizability of each recorded history against the sequential model in go/ovl/c11_test.go; a checker timeout is inconclusive',
        'schedules are steered (few users, many clients, delay failpoints) not controlled; the evidence reports how often the targeted upgrade-after-update pattern was reached'], floors, t0)


@plan('C08')
def c08(ctx, t0):
    import sc_checks
    res = []
    if want(ctx, 'crash'):
        res.append(sc_checks.c08_stage(ctx))
    if want(ctx, 'readers'):
        hx = ctx.build_hx()
        res.append(ctx.run_child('readers', [hx, 'c08readers'], T(ctx, 300, 1800)))
    floors = {'auth_reader_observations': (counters(res, 'auth_reader_observations'), 2000), 'auth_reader_versions_seen': (counters(res, 'auth_reader_versions_seen'), 20), 'kill_boundaries_hit': (counters(res, 'kill_boundaries_hit'), 60), 'model_states_distinct': (counters(res, 'model_states_distinct'), 60),
              'kill_states_matching_model': (counters(res, 'kill_states_matching_model'), 60), 'reader_observations': (counters(res, 'reader_observations'), 1000),
              'followup_operations_after_crash': (counters(res, 'followup_operations_after_crash'), 20)}
    return finish(ctx, 'fault_enumeration', res, COMMON_ASSUME + [
        'power-loss model as stated in the property: file data durable after fsync(file), directory entry changes durable after fsync(dir), rename atomic; a cross-directory rename is modelled as two independently losable entry operations',
        'kills land on syscall boundaries (strace injects SIGKILL on syscall entry); kill points inside a syscall and torn sector writes are not observable',
        'the simulator is cross-checked: its nothing-lost state at every boundary must equal the real post-kill directory'], floors, t0)


@plan('C09')
def c09(ctx, t0):
    import sc_checks
    res = []
    if want(ctx, 'durability'):
        res.append(sc_checks.c09_stage(ctx))
    if want(ctx, 'concurrent-durability'):
        res.append(sc_checks.c09_concurrent_stage(ctx))
    if want(ctx, 'command-line'):
        res.append(sc_checks.c09_cli_stage(ctx))
    if want(ctx, 'agent-upgrade'):
        ctx.build_agent()
        r = ctx.run_child('agent-upgrade', [ctx.build_hx(), 'c09agent'], T(ctx, 300, 900))
        res.append(sc_checks.c09_agent_postprocess(ctx, r, os.path.join(ctx.work, 'w-agent-upgrade')))
    floors = {'agent_renames_onto_final_names': (counters(res, 'agent_renames_onto_final_names'), 4), 'cli_entry_obligations': (counters(res, 'cli_entry_obligations'), 2), 'concurrent_entry_obligations': (counters(res, 'concurrent_entry_obligations'), 10), 'concurrent_ops_overlapping': (counters(res, 'concurrent_ops_overlapping'), 10), 'scenarios': (counters(res, 'scenarios'), 8), 'post_ack_states': (counters(res, 'post_ack_states'), 8), 'ordering_obligations': (counters(res, 'ordering_obligations'), 8)}
    return finish(ctx, 'fault_enumeration', res, COMMON_ASSUME + [
        'persistence model as stated in the property (fsync(file) for data, fsync(dir) for entries)',
        'decided on the syscalls one traced execution of each operation made; other code paths of the same operation are covered by the scenario list only'], floors, t0)


@plan('C15')
def c15(ctx, t0):
    import sc_checks
    res = []
    if want(ctx, 'faults'):
        res.append(sc_checks.c15_stage(ctx))
    if want(ctx, 'concurrent-adds'):
        res.append(ctx.run_child('concurrent-adds', [ctx.build_hx(), 'c15race'], T(ctx, 300, 1200)))
    if want(ctx, 'name-families'):
        res.append(ctx.run_child('name-families', [ctx.build_hx(), 'c15names'], T(ctx, 300, 1200)))
    if want(ctx, 'agent-backlog'):
        res.append(ovl_stage(ctx, 'agent-backlog', 'TestVerifC15Backlog', T(ctx, 300, 600)))
    if want(ctx, 'agent-readonly'):
        ctx.build_agent()
        r = ctx.run_child('agent-readonly', [ctx.build_hx(), 'c15agent'], T(ctx, 600, 1200))
        res.append(sc_checks.c15_agent_postprocess(ctx, r, os.path.join(ctx.work, 'w-agent-readonly')))
    if want(ctx, 'command-line'):
        ctx.build_agent()
        res.append(ctx.run_child('command-line', [ctx.build_hx(), 'c15cli'], T(ctx, 300, 600)))
    floors = {'cli_commands': (counters(res, 'cli_commands'), 40), 'cli_commands_on_missing_basedir': (counters(res, 'cli_commands_on_missing_basedir'), 12),
              'faults_injected': (counters(res, 'faults_injected'), 100), 'readonly_or_failing_calls': (counters(res, 'readonly_or_failing_calls'), 17),
              'requests_total': (counters(res, 'requests_total'), 80), 'agent_syscalls_inspected': (counters(res, 'agent_syscalls_inspected'), 1000),
              'pairs_with_one_failure': (counters(res, 'pairs_with_one_failure'), 10)}
    return finish(ctx, 'fault_enumeration', res, COMMON_ASSUME + [
        'faults are single syscall failures injected by strace at the syscall boundary (the syscall is not executed); multi-fault sequences are not explored',
        'errno set per syscall: ENOSPC/EIO/EACCES/EMFILE as applicable'], floors, t0)


@plan('C06')
def c06(ctx, t0):
    res = []
    if want(ctx, 'authz'):
        res.append(ovl_stage(ctx, 'authz', 'TestVerifC06', T(ctx, 600, 3600)))
    floors = {'cells': (counters(res, 'cells'), 1500), 'denied_cells': (counters(res, 'denied_cells'), 800), 'allowed_cells': (counters(res, 'allowed_cells'), 100),
              'sessions_issued': (counters(res, 'sessions_issued'), 10), 'walk_steps': (counters(res, 'walk_steps'), 3)}
    return finish(ctx, 'exploration', res, COMMON_ASSUME + [
        'reference authorisation table + sequential store model in go/ovl/c06_test.go; expired/future tokens are minted with the test-owned factory (same handlers as newWebHandler), a subset runs through newWebHandler itself',
        'bodies the JSON decoder accepts although they are unusual (extra field, trailing bytes, upper-case keys, 1 MiB padding) are judged like the valid body: if accepted, the authorisation rules apply'], floors, t0)


@plan('C12')
def c12(ctx, t0):
    res = []
    if want(ctx, 'upgrades'):
        res.append(ovl_stage(ctx, 'upgrades', 'TestVerifC12', T(ctx, 900, 5400)))
    floors = {'records_rewritten': (counters(res, 'records_rewritten'), 30), 'failed_logins': (counters(res, 'failed_logins'), 100),
              'logins_with_upgrades_off': (counters(res, 'logins_with_upgrades_off'), 100), 'remote_upgrades_observed': (counters(res, 'remote_upgrades_observed'), 5),
              'upgradeable_logins_policy_rejects': (counters(res, 'upgradeable_logins_policy_rejects'), 1), 'logins_after_reload': (counters(res, 'logins_after_reload'), 10)}
    return finish(ctx, 'exploration', res, COMMON_ASSUME + [
        'convergence is restated without timing: the local upgrade sits in the FIFO update queue, so after the login and one barrier update have returned the rewrite must have happened',
        'waiting for the asynchronous remote POST uses the remote.done hook event with a 20 s watchdog (expiry = inconclusive)',
        'the zxcvbn library is trusted for the policy verdict'], floors, t0)


@plan('C17')
def c17(ctx, t0):
    ctx.build_agent()
    res = []
    if want(ctx, 'policy'):
        res.append(ovl_stage(ctx, 'policy', 'TestVerifC17', T(ctx, 900, 5400)))
    if want(ctx, 'policy-after-reload'):
        res.append(ovl_stage(ctx, 'policy-after-reload', 'TestVerifC17Reload', T(ctx, 300, 900)))
    floors = {'policy_pass': (counters(res, 'policy_pass'), 50), 'policy_fail': (counters(res, 'policy_fail'), 50),
              'condition_strings:invalid': (counters(res, 'condition_strings:invalid'), 40), 'write_attempts:cli-add': (counters(res, 'write_attempts:cli-add'), 10),
              'write_attempts:http-update-oldpw': (counters(res, 'write_attempts:http-update-oldpw'), 5), 'after_reload_probes': (counters(res, 'after_reload_probes'), 100)}
    return finish(ctx, 'exploration', res, COMMON_ASSUME + [
        'the zxcvbn library is trusted: the property defines the policy by it; the reference calls zxcvbn.PasswordStrength(pw, [user, "whawty"]) itself and applies the configured comparison',
        'condition strings in a common number syntax other than plain decimal (1e9, 40.5, +3, 03, 0x..) may be refused or accepted, but if accepted must be enforced with the written value'], floors, t0)


@plan('C19')
def c19(ctx, t0):
    res = []
    if want(ctx, 'hooks'):
        res.append(ovl_stage(ctx, 'hooks', 'TestVerifC19', T(ctx, 900, 5400)))
    floors = {'timing_runs': (counters(res, 'timing_runs'), 30), 'rounds_observed': (counters(res, 'rounds_observed'), 40), 'eligibility_files_checked': (counters(res, 'eligibility_files_checked'), 40),
              'wiring_steps': (counters(res, 'wiring_steps'), 20), 'wiring_upgrades_observed': (counters(res, 'wiring_upgrades_observed'), 3), 'requests_completed_while_hook_hangs': (counters(res, 'requests_completed_while_hook_hangs'), 100),
              'distinct_event_sequences': (counters(res, 'distinct_event_sequences'), 6)}
    if ctx.tier == 'thorough':
        floors['boundary_order:second-notify-before-timer'] = (counters(res, 'boundary_order:second-notify-before-timer'), 1)
        floors['boundary_order:second-notify-after-timer'] = (counters(res, 'boundary_order:second-notify-after-timer'), 1)
        floors['kill_observed'] = (counters(res, 'kill_observed'), 1)
    return finish(ctx, 'exploration', res, COMMON_ASSUME + [
        'the guarantee is decided on the sequence-numbered event log of the hook goroutine (logical order), not on deadlines; the only timing rule is one-sided (a timer never fires early)',
        '"every change is followed by a start of every eligible hook" is checked after quiescence, i.e. after the timer event that follows the last notification (watchdog 20 x rate limit: expiry = inconclusive)',
        'the checks run as root: permission bits are evaluated as the code does (mode bits), not by the kernel'], floors, t0)


@plan('C16')
def c16(ctx, t0):
    ctx.build_agent()
    hx = ctx.build_hx()
    res = []
    if want(ctx, 'predicate'):
        res.append(ctx.run_child('predicate', [hx, 'c16'], T(ctx, 600, 3600)))
    if want(ctx, 'histories'):
        res.append(ovl_stage(ctx, 'histories', 'TestVerifC16', T(ctx, 600, 3600)))
    floors = {'reference_accepts': (counters(res, 'reference_accepts'), 100), 'reference_rejects': (counters(res, 'reference_rejects'), 100), 'init_calls': (counters(res, 'init_calls'), 50), 'large_directories': (counters(res, 'large_directories'), 20), 'concurrent_rounds': (counters(res, 'concurrent_rounds'), 50),
              'binary_commands_on_invalid_dirs': (counters(res, 'binary_commands_on_invalid_dirs'), 40), 'invariant_checks': (counters(res, 'invariant_checks'), 500), 'race_attempts': (counters(res, 'race_attempts'), 100)}
    return finish(ctx, 'exploration', res, COMMON_ASSUME + [
        'reference predicate in go/hx/c16.go with the sandwich rule for "holds a supported hash" (records without trailing newline are borderline)',
        'directories are built from valid user names only (the quantifier of the property); names outside the grammar belong to C03'], floors, t0)


@plan('C20')
def c20(ctx, t0):
    ctx.build_pamh()
    hx = ctx.build_hx()
    res = []
    if want(ctx, 'module'):
        res.append(ctx.run_child('module', [hx, 'c20'], T(ctx, 600, 3000)))
    if want(ctx, 'real-agent'):
        ctx.build_agent()
        res.append(ctx.run_child('real-agent', [hx, 'c20agent'], T(ctx, 400, 1200)))
    if want(ctx, 'memcheck'):
        res.append(ctx.run_child('memcheck', [hx, 'c20'], T(ctx, 900, 3000), extra_env={'VERIF_PAMH_VALGRIND': '1'}))
    floors = {'expected_success': (counters(res, 'expected_success'), 50), 'expected_failure': (counters(res, 'expected_failure'), 150),
              'requests_compared': (counters(res, 'requests_compared'), 100), 'class:reply-cut': (counters(res, 'class:reply-cut'), 20),
              'real_agent_cases': (counters(res, 'real_agent_cases'), 30), 'real_agent_store_accepts': (counters(res, 'real_agent_store_accepts'), 5)}
    return finish(ctx, 'exploration', res, COMMON_ASSUME + [
        'the module is compiled unmodified against ~40 lines of stub PAM headers (no libpam in the image); the stub runtime implements pam_get_user/get_item/set_item/prompt/vsyslog',
        'a clean ASan/UBSan run over the generated server behaviours is not a proof of memory safety (red-zone tools miss intra-object and far overflows)',
        'bounded time is decided logically (every socket read/write preceded by a finite-timeout select that reported readiness; select count bounded by bytes transferred); timing cases assert only when the server record is clearly on one side of the timeout',
        'descriptor numbers >= FD_SETSIZE are outside the property quantifier'], floors, t0)


@plan('C04')
def c04(ctx, t0):
    ctx.build_agent(race=True)   # the served binary is a race-detector build; its reports are collected below
    hx = ctx.build_hx()
    res = []
    if want(ctx, 'frontends'):
        racelog = os.path.join(ctx.work, 'race-agent')
        r = ctx.run_child('frontends', [hx, 'c04'], T(ctx, 900, 5400), extra_env={'VERIF_AGENT_BIN': 'whawty-auth-race', 'VERIF_AGENT_GORACE': 'halt_on_error=0 log_path=' + racelog})
        nrep, vio, herr = runner.collect_races(racelog)
        r['counters'] = r.get('counters') or {}
        r['counters']['agent_race_reports'] = nrep
        r['violations'] = (r.get('violations') or []) + vio
        res.append(r)
    if want(ctx, 'tls-and-activation'):
        res.append(ctx.run_child('tls-and-activation', [hx, 'c04tls'], T(ctx, 600, 1800), extra_env={'VERIF_AGENT_BIN': 'whawty-auth-race'}))
    floors = {'tls_verdicts:run:ldaps': (counters(res, 'tls_verdicts:run:ldaps'), 40), 'tls_verdicts:runsa:ldaps': (counters(res, 'tls_verdicts:runsa:ldaps'), 40),
              'tls_verdicts:runsa:sasl': (counters(res, 'tls_verdicts:runsa:sasl'), 30), 'tls_verdicts:run:basic-https': (counters(res, 'tls_verdicts:run:basic-https'), 30),
              'tls_verdicts:runsa:ldap-starttls': (counters(res, 'tls_verdicts:runsa:ldap-starttls'), 40), 'tls_store_accepts': (counters(res, 'tls_store_accepts'), 100),
              'tls_concurrent_verdicts': (counters(res, 'tls_concurrent_verdicts'), 100),
              'verdicts:sasl': (counters(res, 'verdicts:sasl'), 200), 'verdicts:basic': (counters(res, 'verdicts:basic'), 200), 'verdicts:api': (counters(res, 'verdicts:api'), 150),
              'verdicts:ldap': (counters(res, 'verdicts:ldap'), 200), 'verdicts:cli': (counters(res, 'verdicts:cli'), 30), 'store_accepts': (counters(res, 'store_accepts'), 100),
              'concurrent_requests': (counters(res, 'concurrent_requests'), 500), 'internal_error_probes': (counters(res, 'internal_error_probes'), 20)}
    return finish(ctx, 'exploration', res, COMMON_ASSUME + [
        'the reference verdict is store.Dir.Authenticate on the same directory, taken before and after each frontend call while the store is quiescent; the library itself is judged by C01/C02',
        'transport limits honoured by the generator: non-empty fields; SASL fields <= 256 bytes (longer ones must be denied); JSON strings are Unicode scalar values; basic-auth user names without ":"; CLI arguments NUL-free and not starting with "-"'], floors, t0)
