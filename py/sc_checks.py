"""C08 / C09 / C15 stages built on sctrace."""
import json
import os
import shutil
import subprocess
import time

import sctrace as sc

MUT_C08 = ['update-hashfile-symlink', 'update-tmp-otherfs', 'add-user-tmp-otherfs', 'init-scrypt', 'init-argon', 'add-user-scrypt', 'add-user-argon', 'add-admin', 'add-user-notmp',
           'update-noaux-scrypt', 'update-noaux-argon', 'update-aux100', 'update-aux5k', 'update-aux70k-oneline',
           'update-aux1m', 'update-aux-crlf-nonl', 'update-admin', 'update-notmp', 'add-user-tmp-is-file', 'update-tmp-is-file']
QUICK_C08 = ['update-tmp-otherfs', 'init-argon', 'add-user-scrypt', 'add-user-notmp', 'add-user-tmp-is-file', 'update-tmp-is-file', 'update-noaux-argon', 'update-aux5k', 'update-aux70k-oneline', 'update-aux-crlf-nonl', 'update-admin']
MUT_C09 = [x for x in MUT_C08 if 'tmp-is-file' not in x and 'dangling' not in x] + ['setadmin-up', 'setadmin-down', 'setadmin-same', 'remove-user', 'remove-admin', 'remove-nonexistent']
QUICK_C09 = ['update-hashfile-symlink', 'update-tmp-otherfs', 'init-scrypt', 'add-user-argon', 'add-admin', 'update-aux100', 'update-aux5k', 'update-aux-crlf-nonl', 'setadmin-up', 'setadmin-down', 'remove-user', 'remove-admin', 'remove-nonexistent']
FAIL_SEM = ['add-existing', 'update-nonexistent', 'setadmin-nonexistent', 'init-nonempty', 'add-user-tmp-is-file', 'update-tmp-is-file', 'update-tmp-dangling-symlink']
RO = ['ro-auth-ok', 'ro-auth-wrong', 'ro-auth-upgradeable', 'ro-auth-nonexistent', 'ro-exists', 'ro-list', 'ro-listfull', 'ro-check',
      'ro-auth-empty-reservation', 'ro-auth-empty-admin-reservation', 'ro-exists-empty-reservation', 'ro-list-residue', 'ro-listfull-residue', 'ro-check-residue', 'ro-auth-ok-residue']

BOUNDARY = {'openat', 'write', 'pwrite64', 'copy_file_range', 'fsync', 'fdatasync', 'renameat', 'renameat2', 'rename',
            'unlinkat', 'unlink', 'mkdirat', 'mkdir', 'close', 'ftruncate', 'linkat', 'fchmod'}


class Stage:
    def __init__(self, prop, name, rule, ctx):
        self.ctx = ctx
        self.r = {'property': prop, 'stage': name, 'evaluations': 0, 'distinct_nontrivial': 0, 'rule': rule, 'samples': [],
                  'violations': [], 'inconclusive': 0, 'inconclusive_why': [], 'counters': {}, 'extra': {}}
        self.keys = set()
        self.t0 = time.time()
        self.work = os.path.join(ctx.work, 'w-' + name)
        shutil.rmtree(self.work, ignore_errors=True)
        os.makedirs(self.work)
        self.hx = ctx.build_hx()
        self.nvio = {}
        ctx.env.setdefault('VERIF_SHM_TAG', os.path.basename(ctx.work))

    def case(self, key, nontrivial=True):
        self.r['evaluations'] += 1
        if nontrivial and key not in self.keys:
            self.keys.add(key)
            self.r['distinct_nontrivial'] += 1

    def count(self, k, n=1):
        self.r['counters'][k] = self.r['counters'].get(k, 0) + n

    def violate(self, sig, what, case, witness):
        self.nvio[sig] = self.nvio.get(sig, 0) + 1
        self.count('violation:' + sig)
        if self.nvio[sig] <= 3:
            self.r['violations'].append({'sig': sig, 'what': what, 'case': case, 'witness': witness})

    def inconcl(self, why):
        self.r['inconclusive'] += 1
        if len(self.r['inconclusive_why']) < 10:
            self.r['inconclusive_why'].append(why)

    def sample(self, s):
        if len(self.r['samples']) < 5:
            self.r['samples'].append(s)

    def done(self):
        self.r['_wall'] = time.time() - self.t0
        import glob
        for d in glob.glob('/dev/shm/verif-tmp-%s-*' % self.ctx.env.get('VERIF_SHM_TAG', 'none')):
            shutil.rmtree(d, ignore_errors=True)
        return self.r

    # -- helpers
    def env(self):
        return self.ctx.env

    def prep(self, scen, d):
        p = subprocess.run([self.hx, 'scprep', scen, d], env=self.env(), stdout=subprocess.PIPE, stderr=subprocess.STDOUT)
        if p.returncode != 0:
            raise RuntimeError('scprep failed: ' + p.stdout.decode())

    def oracle(self, scen, tdir, d, mode):
        p = subprocess.run([self.hx, 'scoracle', scen, tdir, d, mode], env=self.env(), stdout=subprocess.PIPE, stderr=subprocess.PIPE)
        try:
            return json.loads(p.stdout.decode().strip().splitlines()[-1])
        except Exception:
            return {'state': 'oracle-failed', 'problems': ['oracle process failed: rc=%d %s' % (p.returncode, p.stderr.decode()[-500:])]}

    def traced(self, scen, rdir, tag, inject=None, strsize=64):
        """Run scdrv under strace in run dir rdir (already prepared). Returns dict."""
        logp = os.path.join(rdir, 'trace-' + tag)
        resf = os.path.join(rdir, 'result-%s.json' % tag)
        if os.path.exists(resf):
            os.remove(resf)
        rc, out = sc.strace_run([self.hx, 'scdrv', scen, rdir, resf], logp, inject=inject, env=self.env(), strsize=strsize)
        path, sl, killed, bi, ei, status = sc.find_op_thread(logp)
        res = None
        if os.path.exists(resf):
            try:
                res = json.load(open(resf))
            except Exception:
                res = None
        return {'rc': rc, 'out': out, 'log': path, 'sys': sl, 'killed': killed, 'bi': bi, 'ei': ei, 'status': status, 'result': res}

    def cleanup_traces(self, rdir):
        for fn in os.listdir(rdir):
            if fn.startswith('trace-'):
                os.remove(os.path.join(rdir, fn))


def window(t):
    """syscalls strictly between BEGIN and END markers (or to the end if killed)."""
    sl = t['sys']
    if t['bi'] is None:
        return []
    hi = t['ei'] if t['ei'] is not None else len(sl)
    return sl[t['bi'] + 1:hi]


def boundaries(win):
    return [s for s in win if s.name in BOUNDARY and not s.unfinished]


# ==============================================================================================
def reference(st, scen):
    """Prepare template + reference run with full data capture; returns (tdir, rdir, trace, model_factory)."""
    tdir = os.path.join(st.work, scen, 'template')
    rdir = os.path.join(st.work, scen, 'ref')
    st.prep(scen, tdir)
    st.prep(scen, rdir)
    t = st.traced(scen, rdir, 'ref', strsize=2200000)
    return tdir, rdir, t


def new_model(tdir, rdir):
    """Model whose paths are those of the run dir, with initial content from the template."""
    m = sc.Model(os.path.join(tdir, 'base'))
    # re-root
    old = os.path.join(tdir, 'base')
    new = os.path.join(rdir, 'base')

    def rr(p):
        return new + p[len(old):]
    m.base = new
    m.durable = {rr(d): v for d, v in m.durable.items()}
    m.live = {rr(d): v for d, v in m.live.items()}
    m.pending = {rr(d): v for d, v in m.pending.items()}
    return m


def c08_stage(ctx):
    st = Stage('C08', 'crash', 'for each add/update/init scenario (both algorithms, with/without auxiliary data up to 1 MiB, with/without .tmp): '
               '(1) a reference system-call trace of a single-operation driver; (2) one real run killed (strace inject SIGKILL) on entry to every '
               'file-system-relevant syscall between the markers; the real post-kill directory is judged by a fresh-process recovery oracle; '
               '(3) an offline persistence model (file data durable after fsync(file), entry changes after fsync(dir)) enumerates every post-crash '
               'state at every syscall boundary (each pending entry operation kept/lost x unsynced data prefixes), each distinct state is materialised '
               'and judged by the same oracle; model kill-only states are cross-checked against the real kills. Non-trivial: crash point between the '
               'first and last mutating syscall; distinct by (scenario, tree content)', ctx)
    scens = QUICK_C08 if ctx.tier == 'quick' else MUT_C08
    for scen in scens:
        if getattr(ctx, 'only_case', None) and not ctx.only_case.startswith(scen):
            continue
        try:
            crash_scenario(st, scen, 'crash')
        except Exception as e:  # harness problem for this scenario
            import traceback
            st.r.setdefault('harness_error', 'scenario %s: %s' % (scen, traceback.format_exc()[-1500:]))
    return st.done()


def crash_scenario(st, scen, mode):
    tdir, rdir, t = reference(st, scen)
    if t['bi'] is None or t['ei'] is None:
        raise RuntimeError('markers not found in reference trace of ' + scen + ': ' + t['out'][-300:])
    win = window(t)
    bnds = boundaries(win)
    st.count('scenarios')
    st.count('reference_syscalls_between_markers', len(win))
    st.count('fs_boundaries', len(bnds) + 1)
    # ---- offline model over all boundaries
    m = new_model(tdir, rdir)
    # syscalls before BEGIN may open fds (config file) - irrelevant to the sandbox base
    states = {}  # key -> (desc, tree, boundary index)
    kill_states = {}
    first_mut = None
    last_mut = None
    descs = []
    bidx = 0
    for s in win:
        if s.name in BOUNDARY and not s.unfinished:
            # crash point: before this syscall
            kill_states[bidx] = m.kill_state()
            for desc, tree in m.crash_states():
                k = sc.tree_key(tree)
                if k not in states:
                    states[k] = (desc, tree, bidx, s.raw[:160])
            bidx += 1
        d = m.apply(s)
        if d and d.split()[0] in ('create', 'write', 'copy_file_range', 'rename', 'unlink', 'mkdir', 'truncate-open', 'ftruncate'):
            if first_mut is None:
                first_mut = bidx
            last_mut = bidx
        if d:
            descs.append(d)
    kill_states[bidx] = m.kill_state()
    final_states = {}
    for desc, tree in m.crash_states():
        k = sc.tree_key(tree)
        final_states[k] = (desc, tree)
        if k not in states:
            states[k] = (desc, tree, bidx, '(after the last syscall)')
    st.count('model_states_distinct', len(states))
    st.r['extra'].setdefault('op_syscall_sequence', {})[scen] = descs
    # judge each distinct model state
    items = list(states.items())

    def judge(item):
        k, (desc, tree, bi, nxt) = item
        d = os.path.join(st.work, scen, 'state-' + k[:16])
        sc.materialise(tree, d)
        v = st.oracle(scen, tdir, d, 'crash')
        shutil.rmtree(d, ignore_errors=True)
        return k, desc, tree, bi, nxt, v
    for k, desc, tree, bi, nxt, v in sc.pmap(judge, items):
        nontriv = first_mut is not None and first_mut <= bi <= (last_mut if last_mut is not None else bi) + 1
        st.case('%s/%s' % (scen, k), nontriv)
        st.count('model_state:' + v.get('state', '?'))
        if v.get('problems'):
            st.violate('c08:power-loss:%s:%s' % (scenario_class(scen), problem_class(v)),
                       'under the persistence model a crash before "%s" can leave: %s' % (nxt, '; '.join(v['problems'])[:400]),
                       '%s/model/%d' % (scen, bi), {'scenario': scen, 'boundary': bi, 'next_syscall': nxt, 'lost_and_kept': desc, 'state': v.get('state'), 'tree': sc.describe_tree(tree), 'problems': v['problems']})
    # ---- real kills at every boundary
    template_tree = sc.read_tree(os.path.join(tdir, 'base'))
    targets = [(i, s) for i, s in enumerate(bnds)]

    def kill(arg):
        i, s = arg
        kd = os.path.join(st.work, scen, 'kill-%d' % i)
        for attempt in range(3):
            st.prep(scen, kd)
            tk = st.traced(scen, kd, 'k', inject='%s:signal=KILL:when=%d' % (s.name, s.occ))
            landed = None
            if tk['killed'] and tk['sys']:
                w = window(tk)
                done = [x for x in w if x.name in BOUNDARY and not x.unfinished]
                last = tk['sys'][-1]
                if last.unfinished and last.name == s.name and len(done) == i:
                    landed = i
                else:
                    landed = ('elsewhere', len(done), last.name)
            if landed == i:
                tree = sc.read_tree(os.path.join(kd, 'base'))
                st.cleanup_traces(kd)
                v = st.oracle(scen, tdir, kd, 'crash')
                if not v.get('problems') and scen.startswith('update') and 'tmp-is-file' not in scen and 'otherfs' not in scen:
                    v['followup'] = followup_after_crash(st, scen, kd)
                shutil.rmtree(kd, ignore_errors=True)
                return i, s, True, tree, v
        shutil.rmtree(kd, ignore_errors=True)
        return i, s, False, None, None
    hit = 0
    for i, s, ok, tree, v in sc.pmap(kill, targets):
        if not ok:
            st.count('kill_boundaries_missed')
            continue
        hit += 1
        st.count('kill_boundaries_hit')
        nontriv = first_mut is not None and first_mut <= i
        st.case('%s/kill/%s' % (scen, sc.tree_key(tree)), nontriv)
        st.count('kill_state:' + v.get('state', '?'))
        # cross-check the simulator: real post-kill tree == model kill-only state at that boundary
        if sc.shape_key(tree, template_tree) != sc.shape_key(kill_states[i], template_tree):
            st.r.setdefault('harness_error', 'simulator mismatch in %s at boundary %d (%s): real=%s model=%s' % (
                scen, i, s.raw[:100], sc.describe_tree(tree), sc.describe_tree(kill_states[i])))
        else:
            st.count('kill_states_matching_model')
        fu = v.get('followup')
        if fu is not None:
            st.count('followup_operations_after_crash')
            st.case('%s/followup/%d' % (scen, i), True)
            if fu.get('problems'):
                st.violate('c08:operation-after-crash:%s:%s' % (scenario_class(scen), problem_class(fu)),
                           'after a process kill on entry to "%s" (permitted residue in the work area), the auxiliary lines of the user were shortened and the same operation was run again to completion: %s' % (s.raw[:120], '; '.join(fu['problems'])[:400]),
                           '%s/followup/%d' % (scen, i), {'scenario': scen, 'killed_at': s.raw[:300], 'state_after_followup': fu.get('state'), 'problems': fu['problems'], 'result': fu.get('result')})
        if v.get('problems'):
            st.violate('c08:process-kill:%s:%s' % (scenario_class(scen), problem_class(v)),
                       'process killed on entry to "%s": %s' % (s.raw[:160], '; '.join(v['problems'])[:400]),
                       '%s/kill/%d' % (scen, i), {'scenario': scen, 'boundary': i, 'killed_at': s.raw[:300], 'state': v.get('state'), 'tree': sc.describe_tree(tree), 'problems': v['problems']})
    st.sample({'scenario': scen, 'boundaries': len(bnds) + 1, 'killed_runs_landed': hit, 'model_states': len(states),
               'syscalls': descs[:14]})
    shutil.rmtree(os.path.join(st.work, scen), ignore_errors=True)
    return final_states


def followup_after_crash(st, scen, kd):
    """The crashed directory is used again: another tool shortens the user's auxiliary lines, then the same operation
    runs to completion. The result must be the complete new record with exactly the current auxiliary bytes
    (a stale work-area file must never leak into it)."""
    base = os.path.join(kd, 'base')
    for fn in os.listdir(base):
        if fn.split('.')[0] in ('alice', 'carol') and fn.endswith(('.user', '.admin')):
            p = os.path.join(base, fn)
            data = open(p, 'rb').read()
            i = data.find(b'\n')
            if i >= 0 and len(data) > i + 1:
                with open(p, 'wb') as f:
                    f.write(data[:i + 1] + b'u2f: c2hvcnQ=')   # shorter, and without a trailing newline
    tmpl = kd + '-before-followup'
    shutil.rmtree(tmpl, ignore_errors=True)
    shutil.copytree(kd, tmpl, symlinks=True)
    resf = os.path.join(kd, 'followup.json')
    subprocess.run([st.hx, 'scdrv', scen, kd, resf], env=st.env(), stdout=subprocess.PIPE, stderr=subprocess.STDOUT)
    res = None
    try:
        res = json.load(open(resf))
        os.remove(resf)
    except Exception:
        pass
    if res is None:
        shutil.rmtree(tmpl, ignore_errors=True)
        return {'state': 'no-result', 'problems': ['the follow-up operation produced no result'], 'result': None}
    mode = 'acked' if res.get('result') == 'ok' else 'failed'
    v = st.oracle(scen, tmpl, kd, mode)
    v['result'] = res
    if mode == 'failed':
        v['problems'] = v.get('problems') or []
        v['problems'].append('the follow-up operation failed: %s' % res.get('error'))
    shutil.rmtree(tmpl, ignore_errors=True)
    return v


def scenario_class(scen):
    for p in ('init', 'add', 'update', 'setadmin', 'remove', 'ro-'):
        if scen.startswith(p):
            return p.rstrip('-')
    return scen


def problem_class(v):
    ps = ' '.join(v.get('problems') or [])
    for key, cls in (('neither the complete old nor the complete new', 'torn-or-mixed-record'), ('third password', 'third-password'),
                     ('other file', 'other-file-touched'), ('outside the work area', 'residue-outside-tmp'), ('consistency check', 'check-broken'),
                     ('acknowledged', 'acknowledged-change-lost'), ('differs from the state before', 'store-changed'), ('leftover', 'tmp-residue'),
                     ('does not authenticate', 'password-mismatch'), ('authenticates', 'password-mismatch'), ('oracle', 'oracle-failed')):
        if key in ps:
            return cls
    return 'other'


# ==============================================================================================
def c09_stage(ctx):
    st = Stage('C09', 'durability', 'for each successful mutating operation (init, add, update with/without aux, set-admin both directions, remove) '
               'the syscall trace up to the END:ok marker is replayed into the persistence model; every post-crash state the model permits AFTER the '
               'acknowledgement (each not-yet-fsynced entry operation kept or lost, unsynced data prefixes) is materialised and must show the change '
               '(fresh-process oracle); plus an ordering monitor over the trace (file fsync after last write and before the rename; fsync(base) after '
               'the last entry operation and before the acknowledgement). Non-trivial: every state in which at least one not-yet-durable item exists, '
               'and every ordering obligation; distinct by (scenario, tree content)', ctx)
    scens = QUICK_C09 if ctx.tier == 'quick' else MUT_C09
    for scen in scens:
        if getattr(ctx, 'only_case', None) and not ctx.only_case.startswith(scen):
            continue
        try:
            durability_scenario(st, scen)
        except Exception:
            import traceback
            st.r.setdefault('harness_error', 'scenario %s: %s' % (scen, traceback.format_exc()[-1500:]))
    return st.done()


def c09_agent_postprocess(ctx, res, workdir):
    """Ordering monitor over the time-stamped thread logs of the agent run by `hx c09agent`."""
    bf = os.path.join(workdir, 'agent-base.txt')
    if not os.path.exists(bf):
        res['harness_error'] = 'c09agent left no trace information'
        return res
    base = open(bf).read().strip()
    tmpd = os.path.join(base, '.tmp')
    writes, syncs, renames = [], [], []
    for fn in sorted(os.listdir(workdir)):
        if not fn.startswith('agent-trace.'):
            continue
        sl, _ = sc.parse_thread_log(os.path.join(workdir, fn))
        for s in sl:
            if s.unfinished or s.ret is None or s.t0 is None or s.t1 is None:
                continue
            if s.name in ('write', 'pwrite64', 'writev', 'copy_file_range', 'sendfile') and s.ret > 0:
                for fd, path in sc.fds_of(s.args):
                    if os.path.dirname(os.path.normpath(path)) == tmpd:
                        writes.append((os.path.normpath(path), s.t0, s.t1))
            elif s.name in ('fsync', 'fdatasync') and s.ret == 0:
                fds = sc.fds_of(s.args)
                if fds:
                    syncs.append((os.path.normpath(fds[0][1]), s.t0, s.t1))
            elif s.name in ('rename', 'renameat', 'renameat2') and s.ret == 0:
                strs = sc.strings_of(s.args)
                if len(strs) >= 2:
                    renames.append((os.path.normpath(strs[0].decode('utf-8', 'replace')), os.path.normpath(strs[1].decode('utf-8', 'replace')), s.t0, s.t1, s.raw[:200]))
    res['counters'] = res.get('counters') or {}
    vio = []
    n = 0
    for (src, dst, r0, r1, raw) in renames:
        if os.path.dirname(dst) != base or os.path.dirname(src) != tmpd:
            continue
        n += 1
        ok = False
        for (p, f0, f1) in syncs:
            if p == src and f1 <= r0 and not any(wp == src and w1 > f0 and w0 < r0 for (wp, w0, w1) in writes):
                ok = True
                break
        if not ok:
            vio.append({'rename': raw, 'fsyncs_of_the_file': [(f0, f1) for (p, f0, f1) in syncs if p == src], 'writes_to_the_file': len([1 for (wp, _, _) in writes if wp == src])})
    res['counters']['agent_renames_onto_final_names'] = n
    if vio:
        res['violations'] = (res.get('violations') or []) + [{'sig': 'c09:agent:rename-before-data-durable:login-upgrade',
            'what': 'the agent renamed a freshly written record onto its final name although no fsync of that file had returned after its last write (%d of %d renames); after a power loss the user\'s acknowledged record can be empty or partial' % (len(vio), n),
            'case': 'upgrade/up0', 'witness': {'renames': vio[:5]}}]
    return res


def c09_cli_stage(ctx):
    """Command-line operations that create directories: every directory the command created must be durable in its parent
    before the command reports success."""
    st = Stage('C09', 'command-line', 'the built binary runs `init` (and `add`) under strace -ff -y on configurations whose base directory exists and is empty, '
               'does not exist yet (missing leaf, missing leaf and parent) or lacks the work area; if the command exits 0 every mkdir it made must be followed, before it '
               'exits, by a successful fsync of the directory that holds the new entry (otherwise the acknowledged store, or a directory above it, can be gone after a power '
               'loss), and the hash file must have been renamed into a directory that was fsynced afterwards. Non-trivial: every acknowledged command that created a '
               'directory or a hash file; distinct by (scenario, created path)', ctx)
    agent = ctx.build_agent()
    scen = [('init-existing-empty', 0), ('init-missing-leaf', 1), ('init-missing-two-levels', 2), ('add-without-tmp', 0)]
    for name, missing in scen:
        if getattr(ctx, 'only_case', None) and ctx.only_case != name:
            continue
        try:
            d = os.path.join(st.work, name)
            shutil.rmtree(d, ignore_errors=True)
            base = os.path.join(d, 'var', 'lib', 'store')
            os.makedirs(os.path.join(d, 'var') if missing == 2 else (os.path.join(d, 'var', 'lib') if missing == 1 else base))
            cfg = os.path.join(d, 'store.yml')
            with open(cfg, 'w') as f:
                f.write('basedir: "%s"\ndefault: 1\nparams:\n  - id: 1\n    argon2id:\n      time: 1\n      memory: 8\n      threads: 1\n      length: 32\n' % base)
            cmds = [[agent, '--store', cfg, 'init', 'root', 'Root-Quartz-Zebra-1']]
            if name == 'add-without-tmp':
                subprocess.run(cmds[0], env=st.env(), stdout=subprocess.PIPE, stderr=subprocess.STDOUT)
                shutil.rmtree(os.path.join(base, '.tmp'), ignore_errors=True)
                cmds = [[agent, '--store', cfg, 'add', 'alice', 'Alice-Quartz-Zebra-1']]
            logp = os.path.join(d, 'trace-cli')
            rc, out = sc.strace_run(cmds[0], logp, env=st.env(), strsize=256)
            st.count('cli_commands')
            st.count('cli_exit:%s:%s' % (name, rc))
            if rc != 0:
                st.case(name + '/refused', True)
                continue      # nothing acknowledged
            events = []       # (thread, idx, kind, path)
            for fn in sorted(os.listdir(d)):
                if not fn.startswith('trace-cli.'):
                    continue
                sl, _ = sc.parse_thread_log(os.path.join(d, fn))
                for s in sl:
                    if s.unfinished or s.ret is None or s.ret < 0:
                        continue
                    if s.name in ('mkdir', 'mkdirat'):
                        events.append((fn, s.idx, 'mkdir', os.path.normpath(sc.strings_of(s.args)[0].decode('utf-8', 'replace'))))
                    elif s.name in ('rename', 'renameat', 'renameat2'):
                        events.append((fn, s.idx, 'rename', os.path.normpath(sc.strings_of(s.args)[1].decode('utf-8', 'replace'))))
                    elif s.name in ('fsync', 'fdatasync') and s.ret == 0:
                        fds = sc.fds_of(s.args)
                        if fds:
                            events.append((fn, s.idx, 'fsync', os.path.normpath(fds[0][1])))
            # the command line is single-threaded for file-system work in practice, but goroutines may migrate: use per-thread order
            # when both events are in one thread, and "any later fsync in any thread" otherwise (threads of one process share the order
            # only through the program; the obligation is existence of the fsync at all)
            for (fn, idx, kind, path) in events:
                if kind == 'fsync' or not path.startswith(d):
                    continue
                if kind == 'rename' and os.path.dirname(path).endswith('.tmp'):
                    continue
                parent = os.path.dirname(path)
                ok = any(k == 'fsync' and p == parent and (f2 != fn or i2 > idx) for (f2, i2, k, p) in events)
                st.case('%s/%s/%s' % (name, kind, os.path.relpath(path, d)), True)
                st.count('cli_entry_obligations')
                if not ok:
                    st.violate('c09:command-line:%s-not-durable-in-its-parent:%s' % ('directory' if kind == 'mkdir' else 'hash-file', name),
                               '`%s` exited 0 but the entry %s it created was never followed by an fsync of %s: after a power loss the acknowledged store (or the whole directory) can be gone'
                               % (' '.join(cmds[0][3:5]), os.path.relpath(path, d), os.path.relpath(parent, d)), name,
                               {'scenario': name, 'created': os.path.relpath(path, d), 'events': [(k, os.path.relpath(p, d)) for (_, _, k, p) in events if p.startswith(d)][:40]})
            shutil.rmtree(d, ignore_errors=True)
        except Exception:
            import traceback
            st.r.setdefault('harness_error', 'cli %s: %s' % (name, traceback.format_exc()[-1500:]))
    # an update whose directory fsync fails is reported as an error; the operator repeats the command. The repeated command
    # is acknowledged, so by then the directory entry of the first attempt (or a new one) must have been made durable.
    name = 'update-retry-after-failed-directory-fsync'
    if not getattr(ctx, 'only_case', None) or ctx.only_case == name:
        try:
            d = os.path.join(st.work, name)
            shutil.rmtree(d, ignore_errors=True)
            base = os.path.join(d, 'store')
            os.makedirs(base)
            cfg = os.path.join(d, 'store.yml')
            with open(cfg, 'w') as f:
                f.write('basedir: "%s"\ndefault: 1\nparams:\n  - id: 1\n    argon2id:\n      time: 1\n      memory: 8\n      threads: 1\n      length: 32\n' % base)
            for c in (['init', 'root', 'Root-Quartz-Zebra-1'], ['add', 'alice', 'Alice-Quartz-Zebra-1']):
                subprocess.run([agent, '--store', cfg] + c, env=st.env(), stdout=subprocess.PIPE, stderr=subprocess.STDOUT)
            upd = [agent, '--store', cfg, 'update', 'alice', 'Alice-Quartz-Zebra-2']
            # -P restricts tracing (and with it the injection) to system calls on the base directory itself: only its fsync fails
            p1 = subprocess.run(['strace', '-f', '-o', os.path.join(d, 'first.log'), '-P', base, '-e', 'trace=fsync,fdatasync', '-e', 'inject=fsync,fdatasync:error=EIO'] + upd,
                                env=st.env(), stdout=subprocess.PIPE, stderr=subprocess.STDOUT)
            first_failed_sync = 'EIO' in open(os.path.join(d, 'first.log'), errors='replace').read()
            st.count('cli_commands')
            st.count('cli_exit:%s:first:%s' % (name, p1.returncode))
            if not first_failed_sync:
                st.inconcl('the directory fsync of the first update was not hit by the injection')
            elif p1.returncode != 0:
                logp = os.path.join(d, 'trace-retry')
                rc, out = sc.strace_run(upd, logp, env=st.env(), strsize=256)
                st.count('cli_commands')
                st.count('cli_exit:%s:retry:%s' % (name, rc))
                st.case(name + '/retry', True)
                st.count('cli_entry_obligations')
                if rc == 0:
                    synced = False
                    for fn in sorted(os.listdir(d)):
                        if fn.startswith('trace-retry.'):
                            for sx in sc.parse_thread_log(os.path.join(d, fn))[0]:
                                if sx.name in ('fsync', 'fdatasync') and sx.ret == 0:
                                    fds = sc.fds_of(sx.args)
                                    if fds and os.path.normpath(fds[0][1]) == base:
                                        synced = True
                    if not synced:
                        st.violate('c09:command-line:retry-after-failed-directory-fsync-acknowledged-without-fsync',
                                   'the first `update alice` failed at the fsync of the base directory (new record in place, not durable); the repeated command exited 0 without any fsync of the base directory: after a power loss the old password is back although the change was acknowledged',
                                   name, {'first_exit': p1.returncode, 'retry_exit': rc})
            shutil.rmtree(d, ignore_errors=True)
        except Exception:
            import traceback
            st.r.setdefault('harness_error', 'cli %s: %s' % (name, traceback.format_exc()[-1500:]))
    return st.done()


def c09_concurrent_stage(ctx):
    st = Stage('C09', 'concurrent-durability', 'rounds of 4-8 mutating operations (add, update, set-admin, remove; one user each) started at the same moment '
               'on separate OS threads of one process that share the store directory (one shared handle or one per thread), traced with strace -ff -ttt -T while the return '
               'of every fsync is delayed so that directory syncs of different operations are in flight together; for every operation that reported success, each of its '
               'entry changes under a final name (rename, unlink in the base directory) must be followed by a successful fsync of the base directory that was ENTERED after '
               'the entry change returned and that returned before the acknowledgement (same thread: trace order; other threads: strace time stamps). '
               'Non-trivial: an entry change of an operation whose window overlapped another operation\'s window; distinct by (round, operation)', ctx)
    rounds = 6 if ctx.tier == 'quick' else 40
    for r in range(rounds):
        cid = 'round%d' % r
        if getattr(ctx, 'only_case', None) and ctx.only_case != cid:
            continue
        try:
            concurrent_round(st, cid, ctx.seed * 1000 + r, 4 + (r % 5))
        except Exception:
            import traceback
            st.r.setdefault('harness_error', 'concurrent %s: %s' % (cid, traceback.format_exc()[-1500:]))
    return st.done()


def concurrent_round(st, cid, seed, n):
    rdir = os.path.join(st.work, cid)
    os.makedirs(rdir, exist_ok=True)
    logp = os.path.join(rdir, 'trace-c')
    rc, out = sc.strace_run([st.hx, 'scconc', os.path.join(rdir, 'store'), str(seed), str(n)], logp, inject='fsync:delay_exit=60000', env=st.env(),
                            strsize=64, extra=['-ttt', '-T'])
    if rc != 0:
        raise RuntimeError('scconc rc=%s %s' % (rc, out[-400:]))
    base = os.path.join(rdir, 'store', 'base')
    threads = []
    for fn in sorted(os.listdir(rdir)):
        if fn.startswith('trace-c.'):
            threads.append(sc.parse_thread_log(os.path.join(rdir, fn))[0])
    dirsyncs = []   # (thread index, idx, t0, t1)
    ops = []
    for ti, sl in enumerate(threads):
        cur = None
        for s in sl:
            if s.name in ('fsync', 'fdatasync') and s.ret == 0 and not s.unfinished:
                fds = sc.fds_of(s.args)
                if fds and os.path.normpath(fds[0][1]) == base:
                    dirsyncs.append((ti, s.idx, s.t0, s.t1))
            if s.name in ('faccessat', 'access', 'faccessat2') and 'verif-mark:C' in s.args:
                mark = sc.strings_of(s.args)[0].decode()
                parts = mark.split(':')
                if parts[1] == 'CBEGIN':
                    cur = {'thread': ti, 'bi': s.idx, 'begin': s.t0, 'i': parts[2], 'op': parts[3], 'user': parts[4], 'end': None, 'status': None}
                elif parts[1] == 'CEND' and cur is not None:
                    cur['ei'], cur['end'], cur['status'] = s.idx, s.t0, parts[2]
                    ops.append(cur)
                    cur = None
    if len(ops) != n:
        raise RuntimeError('%s: %d of %d operations found in the trace' % (cid, len(ops), n))
    st.count('concurrent_rounds')
    for o in ops:
        st.count('concurrent_ops')
        st.count('concurrent_result:%s:%s' % (o['op'], o['status']))
        overl = any(p is not o and p['begin'] < o['end'] and o['begin'] < p['end'] for p in ops)
        if overl:
            st.count('concurrent_ops_overlapping')
        if o['status'] != 'ok':
            continue
        sl = threads[o['thread']]
        for s in sl[o['bi'] + 1:o['ei']]:
            if s.unfinished or s.ret != 0:
                continue
            if s.name in ('rename', 'renameat', 'renameat2'):
                strs = sc.strings_of(s.args)
                tgt = strs[1].decode('utf-8', 'replace')
                kind = 'rename'
            elif s.name in ('unlink', 'unlinkat'):
                tgt = sc.strings_of(s.args)[0].decode('utf-8', 'replace')
                kind = 'unlink'
            else:
                continue
            if os.path.dirname(os.path.normpath(tgt)) != base:
                continue
            st.case('%s/%s/%s/%s' % (cid, o['i'], o['op'], kind), overl)
            st.count('concurrent_entry_obligations')
            covered = False
            for (ti, idx, f0, f1) in dirsyncs:
                if ti == o['thread']:
                    if s.idx < idx < o['ei']:
                        covered = True
                elif f0 is not None and f1 is not None and f0 >= s.t1 and f1 <= o['end']:
                    covered = True
                if covered:
                    break
            if not covered:
                st.violate('c09:concurrent:entry-change-not-covered-by-directory-fsync:%s:%s' % (o['op'], kind),
                           '%s of %s was acknowledged although no fsync of the base directory was entered after its %s of %s returned (and completed before the acknowledgement)'
                           % (o['op'], o['user'], kind, os.path.basename(tgt)), cid,
                           {'operation': {k: o[k] for k in ('i', 'op', 'user', 'begin', 'end')}, 'entry_change': s.raw, 'entry_returned_at': s.t1,
                            'directory_fsyncs': [{'thread': ti, 'entered': f0, 'returned': f1} for (ti, idx, f0, f1) in dirsyncs]})
    st.sample({'round': cid, 'operations': [(o['op'], o['user'], o['status']) for o in ops], 'directory_fsyncs': len(dirsyncs)})
    shutil.rmtree(rdir, ignore_errors=True)


def durability_scenario(st, scen, inject=None, tag=''):
    if inject is None:
        tdir, rdir, t = reference(st, scen)
    else:
        tdir = os.path.join(st.work, scen, 'template' + tag)
        rdir = os.path.join(st.work, scen, 'run' + tag)
        st.prep(scen, tdir)
        st.prep(scen, rdir)
        t = st.traced(scen, rdir, 'f', inject=inject, strsize=2200000)
    if t['bi'] is None or t['ei'] is None:
        raise RuntimeError('markers not found in reference trace of ' + scen)
    if inject is not None:
        st.count('fsync_fault_runs')
        st.count('fsync_fault_result:' + str(t['status']))
        if t['status'] != 'ok':
            shutil.rmtree(tdir, ignore_errors=True)
            shutil.rmtree(rdir, ignore_errors=True)
            return   # a reported failure is C15's business
    elif t['status'] != 'ok':
        if 'otherfs' in scen:
            # a work area on another file system: the operation may refuse (nothing acknowledged, nothing to check here)
            st.count('scenarios_refused_without_acknowledgement')
            return
        raise RuntimeError('reference operation of %s failed: %s' % (scen, t['result']))
    win = window(t)
    if inject is None and not scen.startswith('remove'):
        # every fsync of the operation is made to fail once: success may then only be reported if the change is durable anyway
        for fs in [x for x in win if x.name in ('fsync', 'fdatasync') and x.err is None]:
            durability_scenario(st, scen, inject='%s:error=EIO:when=%d' % (fs.name, fs.occ), tag='-fsyncfail%d' % fs.occ)
    m = new_model(tdir, rdir)
    st.count('scenarios')
    # ordering monitor
    last_write = {}   # ino -> index of last write
    last_sync = {}
    entry_ops = []    # (index, dir, desc)
    dir_syncs = []    # (index, dir)
    for idx, s in enumerate(win):
        fds = sc.fds_of(s.args)
        pre_fd = dict(m.fds)
        d = m.apply(s)
        if not d:
            continue
        kind = d.split()[0]
        if kind in ('write', 'copy_file_range') and fds:
            fd = fds[-1][0] if kind == 'copy_file_range' else fds[0][0]
            f = pre_fd.get(fd) or m.fds.get(fd)
            if f and 'ino' in f:
                last_write[f['ino']] = idx
        if kind == 'fsync':
            if d.startswith('fsync dir'):
                dir_syncs.append((idx, d.split()[-1]))
            elif fds and fds[0][0] in pre_fd and 'ino' in pre_fd[fds[0][0]]:
                last_sync[pre_fd[fds[0][0]]['ino']] = idx
        if kind in ('create', 'rename', 'unlink', 'mkdir'):
            entry_ops.append((idx, kind, d))
            if kind == 'rename':
                # the inode being renamed onto a final name must be durable
                strs = sc.strings_of(s.args)
                new = strs[1].decode('utf-8', 'replace')
                nd, nn = os.path.split(os.path.normpath(new))
                ino = m.live.get(nd, {}).get(nn)
                if isinstance(ino, int) and not new.startswith(os.path.join(m.base, '.tmp')):
                    st.case('%s/order/rename-after-fsync' % scen)
                    st.count('ordering_obligations')
                    lw = last_write.get(ino, -1)
                    ls = last_sync.get(ino, -1)
                    if lw >= 0 and ls < lw:
                        st.violate('c09:rename-before-data-durable:' + scenario_class(scen),
                                   'the new record becomes visible under its final name (%s) before its content was fsynced (last write at syscall %d, last fsync of that file at %d)' % (os.path.basename(new), lw, ls),
                                   scen + '/order', {'scenario': scen, 'syscalls': [x.raw[:200] for x in win if x.name in BOUNDARY]})
    base_ops = [e for e in entry_ops if True]
    if base_ops:
        st.case('%s/order/dirsync-after-entry-ops' % scen)
        st.count('ordering_obligations')
    # state enumeration after the acknowledgement
    npend = m.n_pending()
    st.count('pending_entry_ops_at_ack', npend)
    states = list(m.crash_states())
    st.count('post_ack_states', len(states))

    def judge(item):
        desc, tree = item
        k = sc.tree_key(tree)
        d = os.path.join(st.work, scen, 'state-' + k[:16])
        sc.materialise(tree, d)
        v = st.oracle(scen, tdir, d, 'acked')
        shutil.rmtree(d, ignore_errors=True)
        return k, desc, tree, v
    bad_seen = False
    for k, desc, tree, v in sc.pmap(judge, states):
        st.case('%s/%s' % (scen, k), True)
        st.count('post_ack_state:' + v.get('state', '?'))
        if v.get('problems'):
            bad_seen = True
            st.violate('c09:acknowledged-change-not-durable:%s%s' % (scen if scen.startswith(('setadmin', 'remove')) else scenario_class(scen), ':after-failed-fsync' if inject else ''),
                       'after the operation reported success, a power loss can leave: %s' % ('; '.join(v['problems'])[:400]),
                       scen + '/postack', {'scenario': scen, 'lost_and_kept': desc, 'state': v.get('state'), 'tree': sc.describe_tree(tree), 'problems': v['problems'],
                                           'entry_operations': [e[2] for e in entry_ops], 'directory_fsyncs': [d for _, d in dir_syncs]})
    st.sample({'scenario': scen, 'entry_operations': [e[2].replace(m.base, '<base>') for e in entry_ops], 'directory_fsyncs': len(dir_syncs),
               'pending_entry_ops_at_ack': npend, 'post_ack_states': len(states), 'any_state_missing_the_change': bad_seen})
    if inject is None:
        shutil.rmtree(os.path.join(st.work, scen), ignore_errors=True)


# ==============================================================================================
ERRNOS = {
    'openat': ['EACCES', 'EMFILE', 'ENOSPC', 'EIO'],
    'write': ['ENOSPC', 'EIO'],
    'copy_file_range': ['ENOSPC', 'EIO'],
    'fsync': ['EIO', 'ENOSPC'],
    'renameat': ['EACCES', 'ENOSPC', 'EIO'],
    'mkdirat': ['EACCES', 'ENOSPC'],
    'unlinkat': ['EACCES', 'EIO'],
    'read': ['EIO'],
    'close': ['EIO'],
    'newfstatat': ['EACCES', 'EIO'],
    'getrandom': ['EIO'],
}

MUT_RE = ('O_WRONLY', 'O_RDWR', 'O_CREAT', 'O_TRUNC', 'O_APPEND')
MUTATING_CALLS = {'write', 'pwrite64', 'writev', 'renameat', 'renameat2', 'rename', 'unlinkat', 'unlink', 'mkdirat', 'mkdir', 'rmdir',
                  'ftruncate', 'truncate', 'fchmod', 'fchmodat', 'chmod', 'linkat', 'link', 'symlinkat', 'symlink', 'utimensat',
                  'fchown', 'fchownat', 'chown', 'copy_file_range', 'fallocate', 'creat', 'mknodat', 'setxattr', 'fsetxattr'}


FD_CALLS = {'write', 'pwrite64', 'writev', 'ftruncate', 'fchmod', 'fchown', 'fallocate', 'fsetxattr', 'copy_file_range'}


def mutating_syscalls(win, root):
    """Syscalls in the window that mutate (or could mutate) something under root.
    fd-based calls are judged by the path strace annotates on the descriptor, path-based calls by their path arguments
    (never by data bytes that merely contain the path)."""
    out = []
    root = os.path.normpath(root)

    def under(p):
        p = os.path.normpath(p)
        return p == root or p.startswith(root + '/')
    for s in win:
        if s.err is not None and s.name not in ('openat', 'open'):
            continue
        if s.name in ('openat', 'open'):
            strs = sc.strings_of(s.args)
            flags = sc.STR_RE.sub('""', s.args)
            if strs and under(strs[0].decode('utf-8', 'surrogateescape')) and any(f in flags for f in MUT_RE):
                out.append(s)
        elif s.name in FD_CALLS:
            fds = sc.fds_of(s.args)
            tgt = fds[-1] if s.name == 'copy_file_range' and len(fds) >= 2 else (fds[0] if fds else None)
            if tgt and tgt[1].startswith('/') and under(tgt[1].replace('(deleted)', '')):
                out.append(s)
        elif s.name in MUTATING_CALLS:
            strs = [x.decode('utf-8', 'surrogateescape') for x in sc.strings_of(s.args)[:2]]
            if any(under(p) for p in strs if p.startswith('/')):
                out.append(s)
    return out


def c15_stage(ctx):
    st = Stage('C15', 'faults', '(a) no-fault runs of update/set-admin scenarios with hostile auxiliary data (binary, 70 KiB single line, CRLF, no trailing newline, '
               'lines that look like records): aux bytes and all other files byte-identical, set-admin keeps the inode; (b) EVERY SINGLE FAULT: for each mutating '
               'scenario, each syscall between the markers that can fail and each applicable errno (ENOSPC, EIO, EACCES, EMFILE) one run with that one failure '
               'injected by strace; if the operation reports failure the store must be byte-identical to before (fresh-process oracle); if it reports success the '
               'change must be complete; (c) semantically failing operations change nothing; (d) read-only calls issue no mutating syscall on the sandbox and '
               'leave it byte- and inode-identical. Non-trivial: every injected fault and every read-only/failed call; distinct by (scenario, syscall occurrence, errno)', ctx)
    quick = ctx.tier == 'quick'
    mut = ['add-user-scrypt', 'add-admin', 'add-user-notmp', 'init-argon', 'update-aux100', 'update-aux5k', 'update-aux-crlf-nonl', 'update-aux70k-oneline', 'setadmin-up', 'remove-user'] if quick else [x for x in MUT_C09 if 'otherfs' not in x and 'symlink' not in x]
    for scen in mut:
        if getattr(ctx, 'only_case', None) and not ctx.only_case.startswith(scen):
            continue
        try:
            fault_scenario(st, scen)
        except Exception:
            import traceback
            st.r.setdefault('harness_error', 'scenario %s: %s' % (scen, traceback.format_exc()[-1500:]))
    for scen in FAIL_SEM + RO:
        if getattr(ctx, 'only_case', None) and not ctx.only_case.startswith(scen):
            continue
        try:
            readonly_scenario(st, scen)
        except Exception:
            import traceback
            st.r.setdefault('harness_error', 'scenario %s: %s' % (scen, traceback.format_exc()[-1500:]))
    return st.done()


def fault_scenario(st, scen):
    tdir = os.path.join(st.work, scen, 'template')
    rdir = os.path.join(st.work, scen, 'ref')
    st.prep(scen, tdir)
    st.prep(scen, rdir)
    sc_user = None
    ino_before = {}
    for fn in os.listdir(os.path.join(rdir, 'base')):
        ino_before[fn] = os.stat(os.path.join(rdir, 'base', fn)).st_ino
    t = st.traced(scen, rdir, 'ref')
    if t['bi'] is None or t['ei'] is None or t['status'] != 'ok':
        raise RuntimeError('reference run of %s did not succeed: %s' % (scen, t['result']))
    win = window(t)
    st.count('scenarios')
    # (a) no-fault result: complete change, aux intact, others identical; set-admin keeps the inode
    v = st.oracle(scen, tdir, rdir, 'acked')
    st.case(scen + '/nofault')
    if v.get('problems'):
        st.violate('c15:operation-damaged-store:%s:%s' % (scenario_class(scen), problem_class(v)), 'after a successful %s: %s' % (scen, '; '.join(v['problems'])[:400]), scen + '/nofault', {'scenario': scen, 'problems': v['problems']})
    if scen.startswith('setadmin'):
        after = {fn: os.stat(os.path.join(rdir, 'base', fn)).st_ino for fn in os.listdir(os.path.join(rdir, 'base'))}
        moved = [(a, b) for a in ino_before for b in after if ino_before[a] == after[b] and a != b]
        st.count('setadmin_inode_checks')
        user_files_before = [a for a in ino_before if a.split('.')[0] in ('alice', 'carol')]
        for a in user_files_before:
            base = a.rsplit('.', 1)[0]
            now = [b for b in after if b.rsplit('.', 1)[0] == base]
            if now and after[now[0]] != ino_before[a]:
                st.violate('c15:setadmin-rewrote-file', 'set-admin replaced the file (inode changed) instead of renaming it: %s -> %s' % (a, now[0]), scen + '/nofault', {'before': ino_before, 'after': after, 'moved': moved})
    # (b) every single fault
    cands = []
    for s in win:
        if s.name in ERRNOS and not s.unfinished and s.err is None:
            # only syscalls that concern the sandbox or are part of the operation
            if s.name in ('newfstatat', 'openat', 'renameat', 'unlinkat', 'mkdirat') and '/base' not in s.args:
                continue
            for e in ERRNOS[s.name]:
                if e == 'ENOSPC' and s.name == 'openat' and 'O_CREAT' not in s.args:
                    continue
                cands.append((s, e))
    st.count('fault_candidates', len(cands))

    def inject(arg):
        s, e = arg
        fd = os.path.join(st.work, scen, 'f-%d-%s-%s' % (s.idx, s.name, e))
        st.prep(scen, fd)
        tf = st.traced(scen, fd, 'f', inject='%s:error=%s:when=%d' % (s.name, e, s.occ))
        w = window(tf)
        inj = [x for x in w if x.injected]
        res = tf['result']
        st.cleanup_traces(fd)
        if not inj or res is None:
            shutil.rmtree(fd, ignore_errors=True)
            return s, e, None, None, None
        mode = 'failed' if res.get('result') == 'error' else 'acked'
        v = st.oracle(scen, tdir, fd, mode)
        tree = sc.describe_tree(sc.read_tree(os.path.join(fd, 'base'))) if v.get('problems') else None
        shutil.rmtree(fd, ignore_errors=True)
        return s, e, res, v, tree
    for s, e, res, v, tree in sc.pmap(inject, cands):
        if res is None:
            st.inconcl('fault %s:%s@%d in %s did not land in the window' % (s.name, e, s.occ, scen))
            continue
        st.case('%s/%s#%d/%s' % (scen, s.name, s.occ, e))
        st.count('faults_injected')
        st.count('op_result_under_fault:' + res.get('result', '?'))
        if v.get('problems'):
            where = fault_site(s, win)
            if res.get('result') == 'error':
                st.violate('c15:failed-op-changed-store:op=%s:fault=%s(%s)@%s' % (scenario_class(scen), s.name, e if s.name != 'fsync' else 'any', where),
                           '%s reported failure (%s) after %s was made to fail with %s, but: %s' % (scen, (res.get('error') or '')[:120], s.raw[:140], e, '; '.join(v['problems'])[:300]),
                           '%s/%s#%d/%s' % (scen, s.name, s.occ, e), {'scenario': scen, 'fault': e, 'syscall': s.raw[:300], 'result': res, 'state': v.get('state'), 'tree': tree, 'problems': v['problems']})
            elif scenario_class(scen) != 'remove':  # remove has no way to report a failure
                st.violate('c15:success-reported-but-change-incomplete:op=%s:fault=%s@%s' % (scenario_class(scen), s.name, where),
                           '%s reported success although %s failed with %s, and: %s' % (scen, s.raw[:140], e, '; '.join(v['problems'])[:300]),
                           '%s/%s#%d/%s' % (scen, s.name, s.occ, e), {'scenario': scen, 'fault': e, 'syscall': s.raw[:300], 'result': res, 'state': v.get('state'), 'tree': tree, 'problems': v['problems']})
    st.sample({'scenario': scen, 'syscalls_between_markers': len(win), 'fault_candidates': len(cands)})
    shutil.rmtree(os.path.join(st.work, scen), ignore_errors=True)


def fault_site(s, win):
    """Stable description of where in the operation the faulted syscall sits."""
    renamed = any(x.name.startswith('rename') and x.idx < s.idx and x.err is None for x in win)
    what = 'other'
    a = s.args
    if '/.tmp/' in a:
        what = 'tempfile'
    elif '.user' in a or '.admin' in a:
        what = 'hashfile'
    elif '/.tmp' in a:
        what = 'tmpdir'
    elif '/base' in a:
        what = 'basedir'
    return '%s:%s' % (what, 'after-rename' if renamed else 'before-rename')


def readonly_scenario(st, scen):
    tdir = os.path.join(st.work, scen, 'template')
    rdir = os.path.join(st.work, scen, 'run')
    st.prep(scen, tdir)
    st.prep(scen, rdir)
    # make inode numbers comparable: the oracle compares run dir against itself before/after, so snapshot first
    snapdir = os.path.join(st.work, scen, 'before')
    shutil.copytree(os.path.join(rdir, 'base'), os.path.join(snapdir, 'base'), symlinks=True)
    before = {fn: (os.lstat(os.path.join(rdir, 'base', fn)).st_ino, os.lstat(os.path.join(rdir, 'base', fn)).st_mtime_ns) for fn in os.listdir(os.path.join(rdir, 'base'))}
    t = st.traced(scen, rdir, 'ro')
    if t['bi'] is None or t['ei'] is None:
        raise RuntimeError('markers not found for ' + scen)
    win = window(t)
    st.case(scen)
    st.count('readonly_or_failing_calls')
    expect_err = scen in FAIL_SEM
    if expect_err and t['status'] != 'err':
        st.violate('c15:semantic-failure-not-reported:' + scen, 'operation %s should fail but reported success' % scen, scen, {'result': t['result']})
    muts = mutating_syscalls(win, rdir)
    if scen.startswith('ro-') and muts:
        st.violate('c15:read-only-call-mutates:' + scen, 'a read-only call issued mutating system calls on the store: ' + '; '.join(x.raw[:160] for x in muts[:4]), scen, {'syscalls': [x.raw[:300] for x in muts[:10]]})
    st.count('syscalls_inspected', len(win))
    v = st.oracle(scen, snapdir, rdir, 'failed')
    after = {fn: (os.lstat(os.path.join(rdir, 'base', fn)).st_ino, os.lstat(os.path.join(rdir, 'base', fn)).st_mtime_ns) for fn in os.listdir(os.path.join(rdir, 'base'))}
    changed = [fn for fn in before if fn in after and before[fn] != after[fn] and fn != '.tmp']
    if v.get('problems') or changed or set(k for k in before if k != '.tmp') != set(k for k in after if k != '.tmp'):
        st.violate('c15:%s-call-changed-store:%s' % ('read-only' if scen.startswith('ro-') else 'failed', scen),
                   '%s left the store different: %s %s' % (scen, '; '.join(v.get('problems') or []), changed), scen, {'problems': v.get('problems'), 'inode_or_mtime_changed': changed})
    st.sample({'scenario': scen, 'result': t['result'], 'syscalls': len(win), 'mutating_syscalls_on_store': len(muts)})
    shutil.rmtree(os.path.join(st.work, scen), ignore_errors=True)


# ==============================================================================================
PATH_CALLS = {'openat', 'open', 'creat', 'renameat', 'renameat2', 'rename', 'unlinkat', 'unlink', 'mkdirat', 'mkdir', 'rmdir', 'linkat', 'link',
              'symlinkat', 'symlink', 'fchmodat', 'chmod', 'fchownat', 'chown', 'truncate', 'utimensat', 'execve', 'mknodat', 'mknod'}


def c03_syscall_stage(ctx):
    import re
    st = Stage('C03', 'syscalls', 'the store entry points are executed with the hostile name corpus (and a control group of valid names) in a driver process under strace; '
               'each call is delimited by marker syscalls; between the markers every path-taking syscall that creates, modifies, renames or deletes something, or opens a path '
               'ending in .user/.admin, must name <base>/<valid name>.user|.admin or an entry of <base>/.tmp; anything else (inside or outside the sandbox root) is a violation. '
               'Non-trivial: every delimited call with a hostile name; distinct by (name, operation)', ctx)
    root = os.path.join(st.work, 'root')
    out = os.path.join(st.work, 'cases.json')
    logp = os.path.join(st.work, 'trace')
    env = dict(st.env())
    rc, o = sc.strace_run([st.hx, 'c03drv', root, out], logp, env=env, strsize=6000, timeout=600)
    if not os.path.exists(out):
        st.r['harness_error'] = 'c03drv produced no result: rc=%s %s' % (rc, o[-500:])
        return st.done()
    info = json.load(open(out))
    base = os.path.normpath(info['base'])
    cases = {c['Case']: c for c in info['cases']}
    # find the op thread
    path, sl, killed, bi, ei, status = sc.find_op_thread(logp)
    if path is None:
        st.r['harness_error'] = 'no marker found in the trace'
        return st.done()
    valid_re = re.compile(r'^[A-Za-z0-9][-_.@A-Za-z0-9]*\.(user|admin)$')

    def allowed(p):
        p = os.path.normpath(p)
        d, f = os.path.split(p)
        if p == os.path.join(base, '.tmp') or d == os.path.join(base, '.tmp'):
            return True
        return d == base and bool(valid_re.match(f))
    cur = None
    nseg = 0
    for s in sl:
        if s.name in ('faccessat', 'access', 'faccessat2') and 'verif-mark:' in s.args:
            strs = sc.strings_of(s.args)
            tag = strs[0].decode('utf-8', 'replace').split('verif-mark:', 1)[1]
            kind, cid = tag.split(':', 1)
            if kind == 'BEGIN':
                cur = cid
                nseg += 1
                c = cases.get(cid, {})
                st.case('%s|%s' % (c.get('Name'), c.get('Op')), not c.get('Valid', False))
                st.count('delimited_calls')
            else:
                cur = None
            continue
        if cur is None or s.name not in PATH_CALLS or s.unfinished:
            continue
        st.count('path_syscalls_inspected')
        strs = [x.decode('utf-8', 'surrogateescape') for x in sc.strings_of(s.args)]
        if not strs:
            continue
        c = cases.get(cur, {})
        paths = strs[:2] if s.name.startswith(('rename', 'link', 'symlink')) else strs[:1]
        for p in paths:
            if not p.startswith('/'):
                p = os.path.join(os.path.dirname(root), p)
            mutating = s.name not in ('openat', 'open') or any(f in s.args for f in MUT_RE)
            credential = p.endswith('.user') or p.endswith('.admin')
            if s.name in ('openat', 'open') and not mutating and not credential:
                continue   # e.g. opening the base directory for fsync
            if (s.err is None) and not allowed(p):
                what = 'opens as a credential' if (s.name in ('openat', 'open') and not mutating) else 'mutates'
                st.violate('c03:syscall-outside-allowed-paths:%s:%s:%s' % (s.name, c.get('Op'), c.get('Class')),
                           'during %s(%r) the process %s %s' % (c.get('Op'), c.get('Name'), what, p), cur,
                           {'name': c.get('Name'), 'class': c.get('Class'), 'op': c.get('Op'), 'syscall': s.raw[:400], 'result_reported': c.get('Result')})
            elif (s.err is not None) and not allowed(p) and not c.get('Valid', False) and s.err not in ('ENOENT', 'ENAMETOOLONG', 'ENOTDIR', 'EINVAL'):
                st.count('attempted_but_failed_outside_paths')
    st.sample({'delimited_calls': nseg, 'base': base, 'example': [x.raw[:160] for x in sl if x.name in PATH_CALLS][:6]})
    # the same path rule over single-operation scenarios with valid names, incl. an unusable work area
    for scen in ['add-user-scrypt', 'add-user-notmp', 'update-aux100', 'update-aux5k', 'setadmin-up', 'remove-user', 'init-argon',
                 'add-user-tmp-is-file', 'update-tmp-is-file', 'update-tmp-dangling-symlink']:
        rdir = os.path.join(st.work, 'sc-' + scen)
        st.prep(scen, rdir)
        t = st.traced(scen, rdir, 'p', strsize=300)
        if t['bi'] is None or t['ei'] is None:
            continue
        b2 = os.path.normpath(os.path.join(rdir, 'base'))

        def allowed2(p):
            p = os.path.normpath(p)
            d, f = os.path.split(p)
            if p == os.path.join(b2, '.tmp') or d == os.path.join(b2, '.tmp'):
                return True
            return d == b2 and bool(valid_re.match(f))
        st.case('scenario|' + scen, True)
        st.count('delimited_calls')
        for x in window(t):
            if x.name not in PATH_CALLS or x.unfinished or x.err is not None:
                continue
            st.count('path_syscalls_inspected')
            strs = [y.decode('utf-8', 'surrogateescape') for y in sc.strings_of(x.args)]
            paths = strs[:2] if x.name.startswith(('rename', 'link', 'symlink')) else strs[:1]
            for p in paths:
                mutating = x.name not in ('openat', 'open') or any(f in sc.STR_RE.sub('""', x.args) for f in MUT_RE)
                credential = p.endswith('.user') or p.endswith('.admin')
                if x.name in ('openat', 'open') and not mutating and not credential:
                    continue
                if p.startswith('/') and not allowed2(p):
                    st.violate('c03:syscall-outside-allowed-paths:%s:%s' % (x.name, scen), 'during %s the process creates/modifies/opens %s' % (scen, p), 'scenario/' + scen,
                               {'scenario': scen, 'syscall': x.raw[:400]})
        shutil.rmtree(rdir, ignore_errors=True)
    shutil.rmtree(st.work, ignore_errors=True)
    return st.done()


def c15_agent_postprocess(ctx, res, workdir):
    """Inspect the strace logs of the agent run by `hx c15agent` for mutating syscalls on the store."""
    bf = os.path.join(workdir, 'agent-base.txt')
    if not os.path.exists(bf):
        res['harness_error'] = 'c15agent left no trace information'
        return res
    base = open(bf).read().strip()
    nlogs = 0
    nsys = 0
    vio = []
    for fn in sorted(os.listdir(workdir)):
        if not fn.startswith('agent-trace.'):
            continue
        nlogs += 1
        sl, _ = sc.parse_thread_log(os.path.join(workdir, fn))
        nsys += len(sl)
        for s in mutating_syscalls(sl, base):
            vio.append(s.raw[:300])
    res['counters'] = res.get('counters') or {}
    res['counters']['agent_thread_logs'] = nlogs
    res['counters']['agent_syscalls_inspected'] = nsys
    if vio:
        res['violations'] = (res.get('violations') or []) + [{'sig': 'c15:agent-read-only-request-mutates-store', 'what': 'while serving only read-only / refused requests the agent issued mutating system calls on the store: ' + '; '.join(vio[:3]), 'case': 'agent', 'witness': {'syscalls': vio[:20]}}]
    return res
