"""Runner: builds from /repo's working tree, runs stages, merges, judges, writes evidence."""
import glob
import hashlib
import json
import os
import shutil
import subprocess
import sys
import time

VERIF = os.path.abspath(os.path.join(os.path.dirname(os.path.abspath(__file__)), '..'))
REPO = os.environ.get('VERIF_REPO', '/repo')
WORKROOT = os.path.join(VERIF, '.work')
MODPATH = 'github.com/whawty/auth'
OVL_PREFIX = 'zz_verif'

GOENV = {
    'GOFLAGS': '-mod=mod', 'GOPROXY': 'off', 'GOSUMDB': 'off', 'GOTOOLCHAIN': 'local',
    'CARGO_NET_OFFLINE': 'true', 'PIP_NO_INDEX': '1',
}


def log(*a):
    print('[check]', *a, file=sys.stderr, flush=True)


class HarnessError(Exception):
    pass


class Ctx:
    def __init__(self, prop, tier, seed):
        self.prop = prop
        self.tier = tier
        self.seed = seed
        self.work = os.path.join(WORKROOT, '%s-%s-%d' % (prop, tier, os.getpid()))
        self.env = dict(os.environ)
        self.env.update(GOENV)
        self.env['VERIF_SEED'] = str(seed)
        self.env['VERIF_TIER'] = tier
        self.env.pop('VERIF_OUT', None)
        self.only_case = None
        self._built = {}

    # ------------------------------------------------------------------ build
    def prepare(self):
        shutil.rmtree(self.work, ignore_errors=True)
        os.makedirs(os.path.join(self.work, 'bin'), exist_ok=True)
        # modfile = /repo/go.mod + porcupine; regenerated on every run
        mod = open(os.path.join(REPO, 'go.mod')).read()
        mod += '\nrequire github.com/anishathalye/porcupine v1.3.0\n'
        open(os.path.join(self.work, 'go.mod'), 'w').write(mod)
        shutil.copy(os.path.join(REPO, 'go.sum'), os.path.join(self.work, 'go.sum'))
        # overlay: /verif/go/{vr,ref,hx} -> /repo/zz_verif/..., /verif/go/ovl/*_test.go -> cmd/whawty-auth
        repl = {}
        for sub in ('vr', 'ref', 'hx'):
            for f in sorted(glob.glob(os.path.join(VERIF, 'go', sub, '*.go'))):
                repl[os.path.join(REPO, OVL_PREFIX, sub, os.path.basename(f))] = f
        for f in sorted(glob.glob(os.path.join(VERIF, 'go', 'ovl', '*.go'))):
            repl[os.path.join(REPO, 'cmd', 'whawty-auth', 'zz_verif_' + os.path.basename(f))] = f
        self.overlay = os.path.join(self.work, 'overlay.json')
        json.dump({'Replace': repl}, open(self.overlay, 'w'), indent=1)

    def _go(self, args, what):
        t0 = time.time()
        p = subprocess.run(['go'] + args, cwd=REPO, env=self.env, stdout=subprocess.PIPE, stderr=subprocess.STDOUT, text=True)
        if p.returncode != 0:
            raise HarnessError('%s failed:\n%s' % (what, p.stdout[-4000:]))
        log('%s built in %.1fs' % (what, time.time() - t0))

    def build_hx(self, race=False):
        key = 'hx-race' if race else 'hx'
        if key not in self._built:
            out = os.path.join(self.work, 'bin', key)
            args = ['build', '-tags', 'verif', '-overlay', self.overlay, '-modfile', os.path.join(self.work, 'go.mod'), '-o', out]
            if race:
                args.append('-race')
            args.append(MODPATH + '/' + OVL_PREFIX + '/hx')
            self._go(args, key)
            self._built[key] = out
        return self._built[key]

    def build_ovl(self, race=True):
        key = 'ovl-race' if race else 'ovl'
        if key not in self._built:
            out = os.path.join(self.work, 'bin', key + '.test')
            args = ['test', '-c', '-vet=off', '-tags', 'verif', '-overlay', self.overlay, '-modfile', os.path.join(self.work, 'go.mod'), '-o', out]
            if race:
                args.append('-race')
            args.append('./cmd/whawty-auth')
            self._go(args, key)
            self._built[key] = out
        return self._built[key]

    def build_agent(self, race=False, tags='verif'):
        key = 'whawty-auth' + ('-race' if race else '') + ('' if tags else '-notag')
        if key not in self._built:
            out = os.path.join(self.work, 'bin', key)
            args = ['build', '-o', out]
            if tags:
                args += ['-tags', tags]
            if race:
                args.append('-race')
            args.append('./cmd/whawty-auth')
            self._go(args, key)
            self._built[key] = out
        return self._built[key]

    def build_pamh(self):
        """pam/pam_whawty.c from /repo, unmodified, with ASan+UBSan, stub PAM headers and syscall wrappers."""
        if 'pamh' not in self._built:
            out = os.path.join(self.work, 'bin', 'pamh')
            t0 = time.time()
            cmd = ['clang', '-g', '-O1', '-fsanitize=address,undefined', '-fno-sanitize-recover=all', '-fno-omit-frame-pointer',
                   '-I', os.path.join(VERIF, 'pam', 'stubs'), '-o', out, os.path.join(REPO, 'pam', 'pam_whawty.c'),
                   os.path.join(VERIF, 'pam', 'harness.c'), '-Wl,--wrap=select,--wrap=read,--wrap=write,--wrap=send']
            p = subprocess.run(cmd, stdout=subprocess.PIPE, stderr=subprocess.STDOUT, text=True)
            if p.returncode != 0:
                raise HarnessError('pamh build failed:\n' + p.stdout[-3000:])
            log('pamh built in %.1fs' % (time.time() - t0))
            self._built['pamh'] = out
            # uninstrumented build for valgrind memcheck (thorough tier)
            plain = os.path.join(self.work, 'bin', 'pamh-plain')
            cmd2 = ['clang', '-gdwarf-4', '-O0', '-I', os.path.join(VERIF, 'pam', 'stubs'), '-o', plain, os.path.join(REPO, 'pam', 'pam_whawty.c'),
                    os.path.join(VERIF, 'pam', 'harness.c'), '-Wl,--wrap=select,--wrap=read,--wrap=write,--wrap=send']
            p2 = subprocess.run(cmd2, stdout=subprocess.PIPE, stderr=subprocess.STDOUT, text=True)
            if p2.returncode != 0:
                raise HarnessError('pamh-plain build failed:\n' + p2.stdout[-3000:])
        return self._built['pamh']

    # ------------------------------------------------------------------ run
    def run_child(self, name, argv, timeout, extra_env=None, cwd=None, race=False):
        """Run a stage child that writes a vr.Result JSON to $VERIF_OUT. Returns the dict."""
        out = os.path.join(self.work, 'out-%s.json' % name)
        logf = os.path.join(self.work, 'log-%s.txt' % name)
        mark = os.path.join(self.work, 'mark-%s' % name)
        env = dict(self.env)
        env['VERIF_OUT'] = out
        env['VERIF_MARK'] = mark
        env['VERIF_WORK'] = os.path.join(self.work, 'w-' + name)
        env['VERIF_BIN'] = os.path.join(self.work, 'bin')
        env['VERIF_DIR'] = VERIF
        env['VERIF_REPO'] = REPO
        if self.only_case:
            env['VERIF_ONLY_CASE'] = self.only_case
        if extra_env:
            env.update(extra_env)
        racelog = os.path.join(self.work, 'race-%s' % name)
        if race:
            env['GORACE'] = 'halt_on_error=0 log_path=%s' % racelog
        os.makedirs(env['VERIF_WORK'], exist_ok=True)
        for f in (out, mark):
            if os.path.exists(f):
                os.remove(f)
        t0 = time.time()
        cmd = ['timeout', '-s', 'QUIT', '-k', '20', str(int(timeout))] + argv
        with open(logf, 'w') as lf:
            p = subprocess.run(cmd, cwd=cwd or self.work, env=env, stdout=lf, stderr=subprocess.STDOUT)
        dt = time.time() - t0
        res = None
        if os.path.exists(out):
            try:
                res = json.load(open(out))
            except Exception as e:  # noqa
                res = None
        tail = ''
        try:
            with open(logf, 'rb') as lf:
                lf.seek(0, 2)
                n = lf.tell()
                lf.seek(max(0, n - 6000))
                tail = lf.read().decode('utf-8', 'replace')
        except Exception:
            pass
        markv = ''
        if os.path.exists(mark):
            markv = open(mark, 'rb').read().split(b'\0')[0].decode('utf-8', 'replace')
        log('stage %s: rc=%d %.1fs' % (name, p.returncode, dt))
        if res is None:
            res = {'property': self.prop, 'stage': name, 'evaluations': 0, 'distinct_nontrivial': 0, 'samples': [],
                   'violations': [], 'inconclusive': 0, 'counters': {}, 'extra': {}, 'rule': ''}
            if p.returncode == 124 or p.returncode == 137:
                res['harness_error'] = 'stage %s: watchdog expired after %ds (inconclusive); last case %r' % (name, timeout, markv)
            else:
                res['child_died'] = {'rc': p.returncode, 'last_case': markv, 'log_tail': tail[-3000:]}
        if race:
            nrep, vio, herr = collect_races(racelog)
            res['counters'] = res.get('counters') or {}
            res['counters']['race_reports'] = nrep
            res['violations'] = (res.get('violations') or []) + vio
            if herr:
                res['harness_error'] = herr
            # a race-detector build exits 66 when reports were printed; not a crash
            if res.get('child_died') and p.returncode == 66 and os.path.exists(out):
                res.pop('child_died')
        res['_rc'] = p.returncode
        res['_wall'] = dt
        res['_log'] = logf
        res['_mark'] = markv
        res['_log_tail'] = tail
        return res


def collect_races(prefix):
    """Parse GORACE log files; returns (n_reports, violations, harness_error).
    Reports are deduplicated by the pair of innermost repository frames (harness frames stripped)."""
    import re
    reports = []
    for f in sorted(glob.glob(prefix + '.*')):
        txt = open(f, errors='replace').read()
        for blk in txt.split('=================='):
            if 'WARNING: DATA RACE' in blk:
                reports.append(blk)

    def repo_frames(text):
        out = []
        for m in re.finditer(r'^\s+((?:github\.com/whawty/auth)\S*?)\(\)\s*$', text, re.M):
            fn = m.group(1)
            if '/zz_verif/' in fn:
                continue
            short = fn.split('/')[-1]          # e.g. whawty-auth.(*store).update
            name = short.split('.', 1)[1] if '.' in short else short
            name = name.lstrip('(*')
            if re.match(r'(TestVerif|c\d\d|ovl|verif)', name):
                continue
            out.append(fn.replace('github.com/whawty/auth/', ''))
        return out

    vio = {}
    herr = None
    for blk in reports:
        stacks = re.split(r'\n\s*\n', blk)
        tops = []
        for st in stacks:
            if st.lstrip().startswith('Goroutine'):
                continue  # creation stacks
            fr = repo_frames(st)
            if fr:
                tops.append(fr[0])
        if tops:
            sig = 'race:' + '|'.join(sorted(set(tops))[:3])
            vio.setdefault(sig, {'sig': sig, 'what': 'data race reported by the Go race detector in repository code: ' + ' <-> '.join(sorted(set(tops))[:3]), 'witness': blk.strip()[:3000]})
        else:
            herr = 'race report without repository frames (harness race?): ' + blk.strip()[:800]
    return len(reports), list(vio.values()), herr


# ---------------------------------------------------------------------- judging
def load_known():
    p = os.path.join(VERIF, 'known-findings.json')
    if not os.path.exists(p):
        return []
    return json.load(open(p))


def validate_evidence(ev):
    c = ev['coverage']
    assert c['evaluations'] >= 1 and c['distinct_nontrivial'] >= 2 and len(c['samples']) >= 1 and isinstance(c['rule'], str)


def finish(ctx, level, stage_results, assumptions, floors=None, t0=None):
    """Merge stage results, apply known findings, write evidence, print verdict lines; return exit code."""
    prop = ctx.prop
    known = [k for k in load_known() if k.get('property') == prop and k.get('status') == 'known']
    cov = {'evaluations': 0, 'distinct_nontrivial': 0, 'rule': '', 'samples': [], 'stages': {}}
    rules = []
    violations = []
    harness_errors = []
    inconclusive = 0
    for r in stage_results:
        st = r.get('stage', '?')
        cov['evaluations'] += int(r.get('evaluations', 0))
        cov['distinct_nontrivial'] += int(r.get('distinct_nontrivial', 0))
        if r.get('rule'):
            rules.append('[%s] %s' % (st, r['rule']))
        for s in (r.get('samples') or [])[:4]:
            cov['samples'].append({'stage': st, 'case': s})
        inconclusive += int(r.get('inconclusive', 0))
        cov['stages'][st] = {
            'evaluations': r.get('evaluations', 0), 'distinct_nontrivial': r.get('distinct_nontrivial', 0),
            'inconclusive': r.get('inconclusive', 0), 'inconclusive_why': r.get('inconclusive_why', []),
            'observed': r.get('counters', {}), 'extra': r.get('extra', {}), 'wall_s': round(r.get('_wall', r.get('wall_s', 0)), 2),
        }
        for v in r.get('violations') or []:
            v = dict(v)
            v['stage'] = st
            violations.append(v)
        if r.get('child_died'):
            cd = r['child_died']
            violations.append({'stage': st, 'sig': '%s:%s:process-died' % (prop.lower(), st),
                               'what': 'stage process died (rc=%s) while executing case %r' % (cd['rc'], cd['last_case']),
                               'case': cd['last_case'], 'witness': {'log_tail': cd['log_tail']}})
        if r.get('harness_error'):
            harness_errors.append(r['harness_error'])
        if r.get('fatal'):
            harness_errors.append('stage %s: %s' % (st, r['fatal']))
    cov['rule'] = ' || '.join(rules)
    cov['inconclusive'] = inconclusive
    replaying = bool(getattr(ctx, 'only_case', None) or getattr(ctx, 'only_stage', None))
    if replaying:
        floors = None   # a replay runs one case: observation floors do not apply
    # floors: minimum observations, else harness failure (exit 2)
    for name, (got, want) in (floors or {}).items():
        if got < want:
            harness_errors.append('observation floor not met: %s = %s < %s' % (name, got, want))
    if cov['evaluations'] > 0 and inconclusive * 50 > cov['evaluations']:
        harness_errors.append('too many inconclusive cases: %d of %d' % (inconclusive, cov['evaluations']))

    matched_known = []
    unlisted = []
    for v in violations:
        hit = None
        for k in known:
            if k['signature'] == v['sig']:
                hit = k
                break
        if hit:
            matched_known.append((hit, v))
        else:
            unlisted.append(v)
    cov['known_findings_matched'] = sorted({k['signature'] for k, _ in matched_known})
    cov['violation_signatures'] = sorted({v['sig'] for v in violations})

    ev = {
        'property_id': prop, 'tier': ctx.tier, 'seed': ctx.seed, 'level': level, 'coverage': cov,
        'assumptions': assumptions, 'wall_s': round(time.time() - (t0 or time.time()), 2),
        'violations': len(unlisted),
    }
    if harness_errors:
        cov['harness_errors'] = harness_errors
    if not replaying:   # a replay never rewrites the evidence of the full run
        os.makedirs(os.path.join(VERIF, 'evidence'), exist_ok=True)
        evp = os.path.join(VERIF, 'evidence', prop + '.json')
        with open(evp + '.tmp', 'w') as f:
            json.dump(ev, f, indent=1, default=str)
        os.replace(evp + '.tmp', evp)

    seen = set()
    for k, v in matched_known:
        if k['signature'] in seen:
            continue
        seen.add(k['signature'])
        print('KNOWN-FINDING: property=%s %s [%s]' % (prop, k.get('what', v.get('what', '')), k['signature']))
    rc = 0
    if unlisted:
        rdir = os.path.join(VERIF, 'replays', prop)
        os.makedirs(rdir, exist_ok=True)
        seen = set()
        for v in unlisted:
            if v['sig'] in seen:
                continue
            seen.add(v['sig'])
            h = hashlib.sha256(v['sig'].encode()).hexdigest()[:10]
            rp = os.path.join(rdir, '%s-%s-seed%d.json' % (ctx.tier, h, ctx.seed))
            json.dump({'property': prop, 'tier': ctx.tier, 'seed': ctx.seed, 'stage': v.get('stage'), 'case': v.get('case'),
                       'signature': v['sig'], 'what': v.get('what'), 'witness': v.get('witness')}, open(rp, 'w'), indent=1, default=str)
            print('VIOLATION property=%s replay=%s' % (prop, rp))
            print('  signature: %s' % v['sig'])
            print('  what: %s' % (v.get('what') or '')[:600])
        rc = 1
    elif harness_errors:
        for e in harness_errors:
            print('HARNESS-ERROR property=%s %s' % (prop, e))
        rc = 2
    else:
        print('%s property=%s tier=%s seed=%d evaluations=%d distinct_nontrivial=%d inconclusive=%d' % (
            'REPLAY-HELD' if replaying else 'HELD', prop, ctx.tier, ctx.seed, cov['evaluations'], cov['distinct_nontrivial'], inconclusive))
    sys.stdout.flush()
    return rc


def counters(results, name):
    return sum(int((r.get('counters') or {}).get(name, 0)) for r in results)


def main(argv):
    import plans
    if len(argv) < 2:
        print(__doc__ or 'usage: check <ID> <quick|thorough> [--replay f]')
        return 2
    prop, tier = argv[0], argv[1]
    if tier not in ('quick', 'thorough'):
        print('tier must be quick or thorough')
        return 2
    seed = int(os.environ.get('VERIF_SEED', '1') or '1')
    ctx = Ctx(prop, tier, seed)
    if len(argv) >= 4 and argv[2] == '--replay':
        rp = json.load(open(argv[3]))
        ctx.seed = int(rp.get('seed', seed))
        ctx.tier = rp.get('tier', tier)
        ctx.env['VERIF_SEED'] = str(ctx.seed)
        ctx.env['VERIF_TIER'] = ctx.tier
        ctx.only_case = rp.get('case') or None
        ctx.only_stage = rp.get('stage')
    else:
        ctx.only_stage = os.environ.get('VERIF_ONLY_STAGE') or None   # development aid: one stage, no floors, evidence untouched
    if prop not in plans.PLANS:
        print('no plan for', prop)
        return 2
    t0 = time.time()
    try:
        ctx.prepare()
        rc = plans.PLANS[prop](ctx, t0)
    except HarnessError as e:
        print('HARNESS-ERROR property=%s %s' % (prop, e))
        rc = 2
    finally:
        if not os.environ.get('VERIF_KEEP'):
            shutil.rmtree(ctx.work, ignore_errors=True)
    return rc
