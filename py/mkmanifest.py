#!/usr/bin/env python3
"""Regenerates /verif/MANIFEST.json from the table below (run after adding a check)."""
import json, os, sys
V = os.path.abspath(os.path.join(os.path.dirname(os.path.abspath(__file__)), '..'))
sys.path.insert(0, os.path.join(V, 'py'))

CHECKS = {
 # id: (category, engine, technique, level text, level_note, design_ref)
 'C01': ('exploration', 'hx+ovl', 'reference-model monitor over seeded operation histories (differential oracle after every step)',
         'Every step of thousands of seeded multi-user histories is compared with a sequential reference model (exists/authenticate/list/list-full, admin flag, last-changed bracket, upgradeable flag) and probed with near-miss passwords judged by an independent model of the PBKDF2 key equivalence. A second stage replays such histories through the agent request interface (upgrades off/local) and checks verdict, admin flag, last-changed and list after every operation. Exploration is the right level: the quantifier is over all histories and byte strings, which can only be sampled.',
         'Trusts the reference model (go/ref), x/crypto primitives, and that sampled histories are representative; held on the executions observed.', '5 C01'),
 'C02': ('exploration', 'hx+ovl', 'sandwich oracle (strict/permissive independent record parser + digest recomputation) over systematic record mutants and a parameter-set shape matrix; the schema rules for unsupported files also through the agent interface and the command line',
         'Systematic mutants of reference-written records for every parameter set are authenticated with right/empty/wrong passwords and put through list, list-full, add, update and remove; verdicts are judged by an independent schema implementation with a strict and a permissive reading, so only answers outside the latitude the schema leaves are flagged. Canonical foreign-written records must authenticate.',
         'Trusts go/ref (independent scrypt+HMAC / argon2id recomputation); hang detection uses a 30 s/90 s limit on a deterministic call.', '5 C02'),
 'C05': ('exploration', 'hx', 'trace monitor on a raw unix-socket client + callback recorder (incl. slow callbacks), judged by a reference wire decoder; Go race detector on the same runs; descriptor-exhaustion stage under a low RLIMIT_NOFILE; callbacks failing with OS-style transient errors (Temporary()/Timeout(), wrapped errno, deadline / context errors)',
         'Thousands of scripted byte streams (valid, truncated at every byte, over-long, padded, random) under scripted fragmentations, pauses and end modes are sent to the real sasl.Server; a monitor attributes every callback invocation to its connection and checks call count, argument equality, the one-part-then-EOF reply shape, the OK-only-if-approved rule and decodability of every reply by the bundled client decoder, for scripted callback outcomes with messages up to 70000 bytes; 64-way concurrent phase under -race.',
         'Trusts go/ref/wire.go; a request kept open forever is not a finished byte stream (nothing asserted); the compiled PAM module reads real replies in the C20 check.', '5 C05'),
 'C13': ('exploration', 'hx+pamh', 'differential oracle against a reference codec; scripted io.Readers for fragment independence; retained-result monitor (bytes returned by Marshal compared after later and concurrent encodes)',
         'All 5^4 length combinations at the limit values x 3 content classes for the request encoder (exhaustive over that finite grid), response messages around the limits, decoder-vs-reference on mutated encodings / random bytes / the repository fuzz corpus, and every input re-decoded under 1-byte, 2-way, k-way, zero-length-read and data-with-EOF fragmentations, which must equal the one-piece result.',
         'Trusts go/ref/wire.go. The PAM encoder clause is decided by the pam-encoder stage: the compiled module (with short writes injected) talks to a recording server and the bytes are compared with sasl.Request.Marshal.', '5 C13'),
 'C14': ('exploration', 'hx+ovl', 'strict reference parser + independent digest recomputation over records written under generated YAML configurations, and over records an agent writes after SIGHUP reloads',
         'Every record written by add/update (incl. same-password rewrites of back-dated records, default switches) under hundreds of generated YAML parameter sets is parsed strictly and its digest recomputed with x/crypto primitives directly from the YAML values; salt sizes, salt reuse across the whole run, timestamp brackets, base64 form and absence of passwords / HMAC keys from the directory are monitored.',
         'Trusts x/crypto scrypt/argon2 and crypto/hmac as the independent implementation.', '5 C14'),
 'C03': ('exploration', 'hx+sctrace', 'whole-tree snapshot monitor around every call with hostile names; syscall path monitor (strace) over a driver process',
         'Every hostile user name of a generated corpus is passed to every store entry point on a sandbox with a sibling store and decoys; results must be failures and whole-tree snapshots (content, type, mode, inode) must be identical; planted invalid-named files with valid hashes must never list, authenticate or count as the required admin; a control group of valid names must keep working. Stage 2 runs the same calls (and single-operation scenarios incl. an unusable work area) under strace and checks every path-taking syscall between marker syscalls against the allowed paths; stage 3 submits the corpus and planted invalid-named files through every frontend and the API management endpoints of the running binary.',
         'Trusts the snapshot walker and the grammar implementation in go/ref; paths reached through symlinks are not in the sandbox.', '5 C03'),
 'C07': ('exploration', 'ovl', 'in-package monitor with an issued-token table and a lenient reference decoder; race detector',
         'Every single-bit flip, character substitution, truncation, extension and splice of issued tokens, other-instance tokens and chosen plaintexts sealed with the factory key are presented; acceptance is allowed only for decoded content equal to an issued (nonce, ciphertext) pair and must return the issued identity; nonce uniqueness over 10^5..2*10^6 sequential plus 16-way concurrent issuances under -race.',
         'Not a cryptographic argument about AES-GCM; time-window cases keep a 3 s margin and are re-run on clock stalls.', '5 C07'),
 'C10': ('exploration', 'ovl+hx', 'bounded-progress monitor with goroutine-dump analysis proving a permanent block; delay failpoints; race detector; logical starvation monitor under a never-empty login queue (request unanswered after 1500 later logins were answered); stalled-connection stage with proved block of the accept loop (goroutine dumps)',
         'Mixed request load from 4-64 clients over all upgrade modes (off/local/remote healthy, unreachable, stalled), hook directories with hanging scripts, all frontends; the monitor requires every request to return and a probe per request channel afterwards, and reports a violation only when two goroutine dumps prove the dispatcher blocked at the same place. Queue-occupancy histogram at upgrade enqueue shows the risky state (queue full) was reached. A second stage exhausts the descriptors of the running binary (low RLIMIT_NOFILE) and requires it to keep accepting afterwards.',
         'Liveness restated as bounded progress; schedules are steered, not enumerated.', '5 C10'),
 'C11': ('exploration', 'ovl+hx', 'porcupine linearizability check of client-boundary histories against a sequential store model; final-state conservation checks; race detector; answer-vs-effect monitor under a 12 s request backlog; web-update-vs-login races against the built binary',
         'Hundreds to thousands of short concurrent histories with unique written values, recorded at the client boundary over all frontends, with sequential final reads after a FIFO barrier, are checked with porcupine (partitioned by user); the final directory must match the linearized state; 64-way cross-talk phase; all under -race with varied dispatcher failpoints. Evidence counts histories in which an upgrade executed after a later update (the harmful pattern).',
         'Trusts porcupine v1.3.0 and the sequential model; checker timeouts are inconclusive.', '5 C11'),
 'C18': ('exploration', 'hx+ovl', 'must-accept/must-reject predicates over structurally mutated YAML; accepted sets exercised (hash+verify); reload monitor',
         'Hundreds of YAML documents derived from valid configurations by field deletion, duplication, type change, unknown keys and numeric edges are loaded; the verdict must match the rule the generator broke, and every accepted parameter set must hash-and-verify or fail with an error (panic/hang = violation). Reload stages (in-process with real SIGHUPs, and black-box against the binary) identify the configuration being served from behaviour after good reloads, unloadable documents and configurations whose directory fails the check, with background clients running through all of them.',
         'Parameter values needing > 256 MiB or unbounded time are not generated; duplicate ids unasserted.', '5 C18'),
 'C08': ('fault_enumeration', 'sctrace+hx', 'real SIGKILL at every syscall boundary (strace injection) + offline persistence-model enumeration of post-crash states, each judged by a fresh-process recovery oracle; concurrent raw readers; Authenticate readers against a writer process that re-hashes an unchanged password under alternating parameter sets (every verdict must be positive)',
         'For every add/update/init scenario the operation is killed for real on entry to every file-system-relevant syscall (boundary coverage is measured and every boundary is hit), and an offline model of the stated persistence semantics enumerates, at every boundary, every combination of lost/kept pending directory operations and unsynced data prefixes; each distinct state is materialised and judged by a fresh process (old-complete / new-complete / absent / empty reservation, passwords, other files, consistency check, residue). The simulator is cross-checked against the real post-kill directories. A separate writer process is raced by raw readers.',
         'Relative to the persistence model written in the property; kill points inside a syscall and torn sector writes are not observable; exhaustive over the boundaries of the traced executions, not over all executions.', '5 C08'),
 'C09': ('fault_enumeration', 'sctrace', 'persistence-model enumeration of post-acknowledgement crash states from the recorded syscall trace + write/fsync/rename ordering monitor; time-stamped multi-thread traces with delayed fsync returns; mkdir/fsync monitor over the command line',
         'For every successful mutating operation the recorded syscalls are replayed into the persistence model and every state reachable after the acknowledgement (any subset of not-yet-fsynced entry operations lost) is materialised and must show the change; an ordering monitor checks fsync(file) before the rename and fsync(base) before the acknowledgement.',
         'Relative to the stated persistence model and the syscalls of one traced execution per scenario.', '5 C09'),
 'C15': ('fault_enumeration', 'sctrace+hx+ovl', 'every-single-fault injection at syscall level (strace error injection) with a fresh-process byte-identity oracle; syscall monitor for read-only calls; directory-diff monitor over name families; answer-vs-effect monitor under a request backlog; whole-sandbox snapshot monitor (bytes, inodes, file and directory mtimes) around the command line\'s read-only / failing commands incl. a configuration whose base directory does not exist; stores carrying the residue of interrupted operations',
         'For each mutating scenario every syscall between the markers that can fail is made to fail once with each applicable errno (ENOSPC, EIO, EACCES, EMFILE); a reported failure must leave the store byte-identical, a reported success must be complete; hostile auxiliary data must survive updates byte for byte, set-admin must keep the inode; semantically failing and read-only calls must issue no mutating syscall on the store and leave it byte- and inode-identical. A second stage runs the binary under strace -ff while only read-only / refused requests arrive on all frontends (SASL, LDAP bind/search/modify/add/delete, refused HTTP) and searches every thread log for mutating syscalls on the store.',
         'Single faults only; the fault is injected at the syscall boundary (the syscall does not execute). Known findings listed in known-findings.json.', '5 C15'),
 'C06': ('exploration', 'ovl', 'reference authorisation table + sequential store model as oracle over the enumerated endpoint x credential x target x body-shape matrix, with byte-level directory snapshots around every request; concurrent wrong- and right-password logins (no session for a wrong password, every session names its requester)',
         'The matrix (about 1800 cells per state incl. expired/future/tampered/other-instance/demoted-admin/removed-user tokens, case-variant and invalid names, malformed bodies, ambiguous update credentials) is evaluated in several store states reached by random walks of allowed requests; refused requests must return a non-success status, disclose no list and leave the directory byte-identical; allowed ones must have exactly the model effect.',
         'Handlers are driven in-process (httptest) with a test-owned session factory (the only way to mint expired tokens) plus a subset through newWebHandler itself.', '5 C06'),
 'C12': ('exploration', 'ovl', 'before/after record monitor (strict reference parser + digest recomputation) around logins on every frontend, with a FIFO barrier instead of waiting; directory snapshots incl. inodes; master-side request recorder for remote mode; stale work files of every plausible name planted before upgrade logins',
         'Library: upgradeable flag for every record x default x password. Agent: logins with right/wrong/near-miss passwords over all five frontends on stores mixing 4 parameter sets, every default (also switched by SIGHUP), with and without policy: record byte-identical or strict record under the default for exactly the login password with same extension and auxiliary bytes; must be rewritten on an idle agent when policy allows; converges; failed logins and upgrades-off change nothing (inode level); remote mode posts user + old password only and never touches the slave directory.',
         'Convergence restated with a FIFO barrier; remote POST awaited through the remote.done hook with a watchdog.', '5 C12'),
 'C17': ('exploration', 'ovl', 'reference policy (zxcvbn called directly) as oracle over all write paths incl. the built binary, with directory snapshots, also after SIGHUP reloads; sandwich oracle over condition strings',
         'Every write path (interface init/add/update, HTTP add/update by admin, own session and old password, CLI init/add/update of the binary, login-triggered upgrade) x condition kinds/thresholds x a password corpus x user names: refused exactly when the reference verdict fails, refused requests leave the directory identical; about 85 malformed or borderline condition strings and unknown types must stop constructor, NewStore and the binary, or be enforced with the written value.',
         'zxcvbn library trusted (the property defines the policy by it).', '5 C17'),
 'C19': ('exploration', 'ovl', 'online trace-specification checker over the sequence-numbered hook event log (notify/timer/round/exec/kill) plus boundary observations written by the hook scripts themselves; notification counting around login-triggered hash upgrades (one notification iff the record was rewritten)',
         'Notification timing patterns around the rate-limit timer (incl. a second change arriving while a round is being started, both notify/timer orders at the boundary) are driven against an in-package HooksCaller with a short rate limit; rules on the logical event order: every send is followed by a start of every eligible hook, rounds only after notify(pending=0) or timer(pending>1), at most two rounds between timer events, timer never early, each round starts exactly the eligible set; eligibility over all file-type/permission layouts incl. a directory made world-writable after start; agent wiring counts exactly one notification per successful mutation; a hanging hook never delays requests (thorough: killed not before 60 s).',
         'Decided on logical events; the abstract-model exploration mentioned in the anchors is replaced by driven timing patterns (evidence lists the distinct event sequences observed).', '5 C19'),
 'C16': ('exploration', 'hx+ovl', 'reference consistency predicate (sandwich on "supported") over generated directories; directory-invariant monitor after every operation of generated agent histories; exit-status monitor on the built binary',
         'Thousands of generated directories (extensions, contents, duplicates across extensions, .tmp variants, shuffled creation order, 1-40 entries) are judged by Check and by a reference predicate; Init must succeed exactly on empty directories and yield a valid store; after every completed operation of sequential agent histories (and a concurrent login/set-admin race with large auxiliary data) the directory invariants must hold; every command of the binary except init/check must exit 3 on invalid directories without changing them and run with --do-check=false.',
         'Directories are built from valid names only (the property quantifier).', '5 C16'),
 'C20': ('exploration', 'pamh+hx', 'AddressSanitizer + UBSan build of the unmodified C module driven by a scripted misbehaving server; syscall-wrapper monitor (select/read/write) for the bounded-time rule; exact reply-prefix oracle; long-lived-process cases (more failed logins than FD_SETSIZE before the agent is back) with descriptor accounting',
         'The module is compiled from /repo with clang -fsanitize=address,undefined against stub PAM headers and run against a scripted unix-socket server over ~420 cases (all option subsets x password sources, user/password lengths 0..4096, reply grammar incl. over-long and mis-announced lengths, replies cut at every byte, dribble, early close, silence and delays on both sides of the timeout, short reads/writes and EINTR injected by wrappers): PAM_SUCCESS exactly when the readable reply begins with OK, request bytes equal the saslauthd encoding of the clipped fields, every socket read/write preceded by a finite select, no sanitizer report. Further stages: the same build against the real agent binary (verdict = store verdict for the clipped fields) and, in the thorough tier, an uninstrumented build under valgrind memcheck.',
         'Stub PAM runtime; sanitizers are not a proof of memory safety; fds >= FD_SETSIZE out of scope.', '5 C20'),
 'C04': ('exploration', 'hx', 'differential monitor: every frontend of the running binary against store.Dir.Authenticate on the same quiescent directory; the same differential monitor on the TLS listeners (HTTPS, LDAPS, LDAP StartTLS) and on an agent started through systemd-style socket activation (runsa)',
         'The built binary serves a saslauthd socket, HTTP and LDAP on loopback port 0 (addresses parsed from its output); generated credential pairs with bytes special to one transport, boundary lengths, name variants and hostile names are submitted through SASL, basic-auth, API (plain and fully \\u-escaped JSON), LDAP bind and the CLI, and every verdict is compared with the store verdict taken before and after; store states advance through CLI/API management operations; induced store errors must be denials; a 32-way concurrent phase checks that verdicts are not swapped.',
         'The store verdict is the oracle (the library itself is judged by C01/C02); transport limits honoured by the generator as listed in the assumptions.', '5 C04'),
}

def main():
    ids = [json.loads(l)['id'] for l in open(os.path.join(V, 'properties.jsonl'))]
    hooks_commits = []
    hc = os.path.join(V, 'hooks-commits.txt')
    if os.path.exists(hc):
        hooks_commits = [l.split()[0] for l in open(hc) if l.strip() and not l.startswith('#')]
    na_reasons = {}
    nap = os.path.join(V, 'not-applicable.json')
    if os.path.exists(nap):
        na_reasons = json.load(open(nap))
    m = {
        'version': 1,
        'setup_cmd': 'cd /verif && bin/setup',
        'hooks': {
            'guard': 'verif',
            'enable': 'go build/test -tags verif (cmd/whawty-auth/verif_on.go); harness code is injected with -overlay, nothing is copied into /repo',
            'baseline_off_cmd': 'cd /repo && GOFLAGS=-mod=mod GOPROXY=off GOSUMDB=off GOTOOLCHAIN=local go test -json -vet=off -count=1 -timeout 25m ./...',
            'source_commits': hooks_commits,
            'add_only': True,
        },
        'engines': [
            {'name': 'hx', 'path': 'go/hx', 'kind_free_text': 'black-box Go harness compiled into the repo module via -overlay (public API of store/ and sasl/, raw socket / HTTP / LDAP / CLI clients, reference models in go/ref)', 'serves_properties': []},
            {'name': 'ovl', 'path': 'go/ovl', 'kind_free_text': 'in-package test files overlaid into cmd/whawty-auth (package main), built with -race and -tags verif; porcupine for linearizability', 'serves_properties': []},
            {'name': 'sctrace', 'path': 'py/sctrace.py', 'kind_free_text': 'strace-based syscall monitor, fault/kill injector and offline persistence-model checker', 'serves_properties': []},
            {'name': 'pamh', 'path': 'pam', 'kind_free_text': 'pam_whawty.c built unmodified with clang ASan+UBSan against stub PAM headers, syscall wrappers and scripted servers', 'serves_properties': []},
            {'name': 'run', 'path': 'bin/check', 'kind_free_text': 'python runner: rebuild from /repo working tree, child process per stage, known-findings, evidence', 'serves_properties': ids},
        ],
        'checks': [],
        'notes': 'All checks: bin/check <ID> <tier>; seed via VERIF_SEED. Exit 0 held / 1 violation / 2 harness failure or observation floor not met. See DESIGN.md.',
        'not_applicable': [],
    }
    for i in ids:
        if i in CHECKS:
            cat, eng, tech, text, note, ref = CHECKS[i]
            m['checks'].append({
                'property_id': i, 'quick_cmd': 'bin/check %s quick' % i, 'thorough_cmd': 'bin/check %s thorough' % i,
                'evidence_file': '/verif/evidence/%s.json' % i, 'replay_cmd_template': 'bin/check %s quick --replay {path}' % i,
                'engine': eng, 'level_claimed': {'category': cat, 'text': text, 'design_ref': 'DESIGN.md section ' + ref},
                'level_note': note, 'technique': tech})
            for e in m['engines']:
                if e['name'] in eng.split('+'):
                    e['serves_properties'].append(i)
        else:
            m['not_applicable'].append({'property_id': i, 'reason': na_reasons.get(i, 'check under construction (not yet registered)')})
    json.dump(m, open(os.path.join(V, 'MANIFEST.json'), 'w'), indent=1)
    print('MANIFEST: %d checks, %d not claimed' % (len(m['checks']), len(m['not_applicable'])))

if __name__ == '__main__':
    main()
