"""sctrace: strace-based syscall monitor, kill/fault injector and offline persistence-model checker.

Used by C08 (crash atomicity), C09 (durability of acknowledged changes), C15 (single-fault
atomicity, read-only calls) and C03 (path monitor). See DESIGN.md 2.1 / 5.
"""
import concurrent.futures
import hashlib
import json
import os
import re
import shutil
import subprocess

FS_MUTATING = {'openat', 'open', 'creat', 'write', 'pwrite64', 'writev', 'copy_file_range', 'sendfile', 'fsync', 'fdatasync',
               'renameat', 'renameat2', 'rename', 'unlinkat', 'unlink', 'mkdirat', 'mkdir', 'rmdir', 'ftruncate', 'truncate',
               'fchmod', 'fchmodat', 'chmod', 'linkat', 'link', 'symlinkat', 'symlink', 'close', 'read', 'pread64',
               'fchown', 'fchownat', 'chown', 'utimensat', 'sync_file_range', 'fallocate'}

LINE_RE = re.compile(r'^(\w+)\((.*)$', re.S)
TS_RE = re.compile(r'^(\d+\.\d+) ')
DUR_RE = re.compile(r' <(\d+\.\d+)>$')


class Sys:
    __slots__ = ('name', 'args', 'ret', 'err', 'raw', 'unfinished', 'injected', 'idx', 'occ', 't0', 't1')

    def __repr__(self):
        return '%s(%s) = %s %s' % (self.name, self.args[:120], self.ret, self.err or '')


def parse_thread_log(path):
    """Parse one per-thread strace log (-ff). Returns (list of Sys, killed: bool)."""
    out = []
    killed = False
    with open(path, errors='replace') as f:
        for line in f:
            line = line.rstrip('\n')
            if line.startswith('+++ killed by SIGKILL'):
                killed = True
                continue
            if line.startswith('+++') or line.startswith('---'):
                continue
            t0 = t1 = None
            mt = TS_RE.match(line)       # -ttt prefix
            if mt:
                t0 = float(mt.group(1))
                line = line[mt.end():]
                md = DUR_RE.search(line)  # -T suffix
                if md:
                    t1 = t0 + float(md.group(1))
                    line = line[:md.start()]
            m = LINE_RE.match(line)
            if not m:
                continue
            s = Sys()
            s.t0, s.t1 = t0, t1
            s.name = m.group(1)
            rest = m.group(2)
            s.raw = line if len(line) < 600 else line[:600] + '...'
            s.unfinished = False
            s.injected = '(INJECTED)' in rest[-40:]
            # split at the last ") = "
            k = rest.rfind(') = ')
            if k < 0:
                s.args = rest
                s.ret = None
                s.err = None
                s.unfinished = True
            else:
                s.args = rest[:k]
                tail = rest[k + 4:].strip()
                mm = re.match(r'^(-?\d+|0x[0-9a-f]+|\?)(<[^>]*>)?(?:\s+(E\w+))?', tail)
                if mm and mm.group(1) == '?':
                    s.unfinished = True
                if mm:
                    try:
                        s.ret = int(mm.group(1), 0) if mm.group(1) != '?' else None
                    except ValueError:
                        s.ret = None
                    s.err = mm.group(3)
                    if mm.group(2):
                        s.args += ' =>' + mm.group(2)
                else:
                    s.ret, s.err = None, None
            out.append(s)
    occ = {}
    for i, s in enumerate(out):
        s.idx = i
        occ[s.name] = occ.get(s.name, 0) + 1
        s.occ = occ[s.name]
    return out, killed


def unescape(cstr):
    """Decode a strace C string body (between the quotes)."""
    out = bytearray()
    i = 0
    n = len(cstr)
    while i < n:
        c = cstr[i]
        if c != '\\':
            out += c.encode('utf-8', 'surrogateescape')
            i += 1
            continue
        i += 1
        c = cstr[i]
        if c == 'x':
            out.append(int(cstr[i + 1:i + 3], 16))
            i += 3
        elif c in '01234567':
            j = i
            while j < n and j < i + 3 and cstr[j] in '01234567':
                j += 1
            out.append(int(cstr[i:j], 8))
            i = j
        else:
            out.append({'n': 10, 't': 9, 'r': 13, 'v': 11, 'f': 12, '\\': 92, '"': 34, 'a': 7, 'b': 8, 'e': 27}.get(c, ord(c)))
            i += 1
    return bytes(out)


STR_RE = re.compile(r'"((?:[^"\\]|\\.)*)"(\.\.\.)?')
FD_RE = re.compile(r'(-?\d+)<([^>]*)>')


def strings_of(args):
    return [unescape(m.group(1)) for m in STR_RE.finditer(args)]


def fds_of(args):
    return [(int(m.group(1)), m.group(2)) for m in FD_RE.finditer(STR_RE.sub('""', args))]


def find_op_thread(logprefix):
    """Return (path, syscalls, killed, begin_idx, end_idx, end_status) of the thread that issued the BEGIN marker."""
    d = os.path.dirname(logprefix)
    b = os.path.basename(logprefix)
    for fn in sorted(os.listdir(d)):
        if not fn.startswith(b + '.'):
            continue
        p = os.path.join(d, fn)
        with open(p, errors='replace') as f:
            txt = f.read(1 << 22) if os.path.getsize(p) < (1 << 22) else None
        if txt is not None and 'verif-mark:BEGIN' not in txt:
            continue
        sl, killed = parse_thread_log(p)
        bi = ei = None
        status = None
        for s in sl:
            if s.name in ('faccessat', 'access', 'faccessat2') and 'verif-mark:' in s.args:
                if 'verif-mark:BEGIN' in s.args and bi is None:
                    bi = s.idx
                elif 'verif-mark:END' in s.args:
                    ei = s.idx
                    status = 'ok' if 'END:ok' in s.args else 'err'
        if bi is not None:
            return p, sl, killed, bi, ei, status
    return None, [], False, None, None, None


def strace_run(argv, logprefix, inject=None, cwd=None, env=None, timeout=120, strsize=64, extra=None):
    for fn in os.listdir(os.path.dirname(logprefix)):
        if fn.startswith(os.path.basename(logprefix) + '.'):
            os.remove(os.path.join(os.path.dirname(logprefix), fn))
    cmd = ['strace', '-ff', '-y', '-s', str(strsize), '-o', logprefix]
    if inject:
        cmd += ['-e', 'inject=' + inject]
    if extra:
        cmd += extra
    cmd += argv
    try:
        p = subprocess.run(cmd, cwd=cwd, env=env, stdout=subprocess.PIPE, stderr=subprocess.STDOUT, timeout=timeout)
        return p.returncode, p.stdout.decode('utf-8', 'replace')
    except subprocess.TimeoutExpired:
        return -999, 'timeout'


# ---------------------------------------------------------------------------------------------
# persistence model

class Inode:
    def __init__(self, ino, data=b'', synced=True):
        self.ino = ino
        self.cur = bytearray(data)
        self.synced = bytes(data) if synced else b''
        self.ever_synced = synced


class Model:
    """Tracks namespace + file contents through a syscall sequence; enumerates post-crash states."""

    def __init__(self, base):
        self.base = base
        self.inodes = {}
        self.next_ino = 1
        self.durable = {}   # dir -> {name: ino | ('dir',)}
        self.live = {}      # current (volatile) namespace
        self.pending = {}   # dir -> list of ops ('link', name, ino) / ('unlink', name) / ('mkdir', name)
        self.fds = {}       # fd -> dict(ino=?, dir=?, off=int)
        for root, dirs, files in os.walk(base, followlinks=True):   # <base>/.tmp may be a link to another file system
            self.durable[root] = {}
            self.pending[root] = []
            for d in dirs:
                self.durable[root][d] = ('dir',)
            for fn in files:
                with open(os.path.join(root, fn), 'rb') as f:
                    data = f.read()
                ino = self._new_inode(data, True)
                self.durable[root][fn] = ino
        self.live = {d: dict(m) for d, m in self.durable.items()}

    def _new_inode(self, data=b'', synced=False):
        i = self.next_ino
        self.next_ino += 1
        self.inodes[i] = Inode(i, data, synced)
        return i

    def _split(self, path):
        path = os.path.normpath(path)
        return os.path.dirname(path), os.path.basename(path)

    def inside(self, path):
        p = os.path.normpath(path)
        return p == self.base or p.startswith(self.base + '/')

    def apply(self, s):
        """Apply one completed, successful syscall. Returns a short description if it is fs-relevant."""
        n = s.name
        if s.ret is None or (s.err is not None) or (isinstance(s.ret, int) and s.ret < 0):
            return None
        strs = strings_of(s.args)
        fds = fds_of(s.args)
        if n == 'openat':
            path = strs[0].decode('utf-8', 'surrogateescape')
            if not self.inside(path):
                return None
            flags = s.args
            d, name = self._split(path)
            fd = s.ret
            ent = self.live.get(d, {}).get(name)
            if os.path.normpath(path) in self.live:   # a directory
                self.fds[fd] = {'dir': os.path.normpath(path)}
                return None
            if ent is None:
                if 'O_CREAT' not in flags:
                    return None
                ino = self._new_inode(b'', False)
                self.live.setdefault(d, {})[name] = ino
                self.pending.setdefault(d, []).append(('link', name, ino))
                self.fds[fd] = {'ino': ino, 'off': 0}
                return 'create %s' % path
            self.fds[fd] = {'ino': ent, 'off': 0}
            if 'O_TRUNC' in flags and isinstance(ent, int):
                self.inodes[ent].cur = bytearray()
                return 'truncate-open %s' % path
            return None
        if n == 'mkdirat':
            path = strs[0].decode('utf-8', 'surrogateescape')
            if not self.inside(path):
                return None
            d, name = self._split(path)
            self.live.setdefault(d, {})[name] = ('dir',)
            self.live.setdefault(os.path.normpath(path), {})
            self.durable.setdefault(os.path.normpath(path), {})
            self.pending.setdefault(os.path.normpath(path), [])
            self.pending.setdefault(d, []).append(('mkdir', name))
            return 'mkdir %s' % path
        if n in ('write', 'pwrite64'):
            if not fds or fds[0][0] not in self.fds or 'ino' not in self.fds[fds[0][0]]:
                return None
            f = self.fds[fds[0][0]]
            data = strs[0][:s.ret] if strs else b''
            if len(data) < s.ret:
                raise ValueError('write data truncated in trace (increase -s)')
            ino = self.inodes[f['ino']]
            off = f['off']
            if len(ino.cur) < off:
                ino.cur.extend(b'\0' * (off - len(ino.cur)))
            ino.cur[off:off + len(data)] = data
            f['off'] += s.ret
            return 'write %d bytes' % s.ret
        if n == 'read':
            if fds and fds[0][0] in self.fds and 'off' in self.fds[fds[0][0]]:
                self.fds[fds[0][0]]['off'] += s.ret
            return None
        if n == 'copy_file_range':
            if len(fds) < 2 or fds[0][0] not in self.fds or fds[1][0] not in self.fds:
                return None
            fi, fo = self.fds[fds[0][0]], self.fds[fds[1][0]]
            src = self.inodes[fi['ino']]
            data = bytes(src.cur[fi['off']:fi['off'] + s.ret])
            dst = self.inodes[fo['ino']]
            off = fo['off']
            dst.cur[off:off + len(data)] = data
            fi['off'] += s.ret
            fo['off'] += s.ret
            return 'copy_file_range %d bytes' % s.ret if s.ret else None
        if n in ('fsync', 'fdatasync'):
            if not fds or fds[0][0] not in self.fds:
                return None
            f = self.fds[fds[0][0]]
            if 'dir' in f:
                d = f['dir']
                for op in self.pending.get(d, []):
                    self._apply_entry(self.durable.setdefault(d, {}), op)
                self.pending[d] = []
                return 'fsync dir %s' % d
            ino = self.inodes[f['ino']]
            ino.synced = bytes(ino.cur)
            ino.ever_synced = True
            return 'fsync file'
        if n in ('renameat', 'renameat2', 'rename'):
            old = strs[0].decode('utf-8', 'surrogateescape')
            new = strs[1].decode('utf-8', 'surrogateescape')
            if not self.inside(old) and not self.inside(new):
                return None
            od, on = self._split(old)
            nd, nn = self._split(new)
            ino = self.live.get(od, {}).pop(on, None)
            self.live.setdefault(nd, {})[nn] = ino
            if od == nd:
                self.pending.setdefault(nd, []).append(('rename', on, nn, ino))
            else:
                self.pending.setdefault(nd, []).append(('link', nn, ino))
                self.pending.setdefault(od, []).append(('unlink', on))
            return 'rename %s -> %s' % (old, new)
        if n in ('unlinkat', 'unlink'):
            path = strs[0].decode('utf-8', 'surrogateescape')
            if not self.inside(path):
                return None
            d, name = self._split(path)
            self.live.get(d, {}).pop(name, None)
            self.pending.setdefault(d, []).append(('unlink', name))
            return 'unlink %s' % path
        if n == 'close':
            if fds and fds[0][0] in self.fds:
                del self.fds[fds[0][0]]
            return None
        if n in ('ftruncate',):
            return 'ftruncate'
        return None

    @staticmethod
    def _apply_entry(ns, op):
        if op[0] == 'link':
            ns[op[1]] = op[2]
        elif op[0] == 'unlink':
            ns.pop(op[1], None)
        elif op[0] == 'mkdir':
            ns[op[1]] = ('dir',)
        elif op[0] == 'rename':
            ns.pop(op[1], None)
            ns[op[2]] = op[3]

    def n_pending(self):
        return sum(len(v) for v in self.pending.values())

    def crash_states(self, max_states=4000):
        """Enumerate post-crash states permitted by the persistence model at the current point.
        Yields (description, tree) where tree = {relative path: bytes | None(dir)}."""
        dirs = sorted(self.pending.keys() | self.durable.keys())
        plist = [(d, i) for d in dirs for i in range(len(self.pending.get(d, [])))]
        npend = len(plist)
        seen = set()
        count = 0
        for mask in range(1 << npend):
            ns = {d: dict(self.durable.get(d, {})) for d in dirs}
            kept = []
            for bit, (d, i) in enumerate(plist):
                if mask >> bit & 1:
                    self._apply_entry(ns[d], self.pending[d][i])
                    kept.append('%s:%s' % (os.path.relpath(d, self.base), ' '.join(str(x) for x in self.pending[d][i][:2])))
            # reachable inodes with unsynced data
            reach = set()
            for d in ns:
                for name, v in ns[d].items():
                    if isinstance(v, int):
                        reach.add(v)
            dirty = [i for i in sorted(reach) if bytes(self.inodes[i].cur) != self.inodes[i].synced]
            choices = []
            for i in dirty:
                ino = self.inodes[i]
                s, c = ino.synced, bytes(ino.cur)
                if c.startswith(s):
                    lo = len(s)
                    ks = sorted({lo, len(c), lo + (len(c) - lo) // 2, min(len(c), lo + 1), max(lo, len(c) - 1), min(len(c), lo + 50)})
                    choices.append([(i, c[:k], 'ino%d:%d/%d' % (i, k, len(c))) for k in ks])
                else:
                    choices.append([(i, s, 'ino%d:synced' % i), (i, c, 'ino%d:current' % i)])

            def rec(k, chosen):
                nonlocal count
                if k == len(choices):
                    tree = {}
                    for d in ns:
                        rd = os.path.relpath(d, self.base)
                        # only directories that are themselves reachable
                        if rd != '.':
                            parent, nm = os.path.split(d)
                            if ns.get(parent, {}).get(nm) != ('dir',):
                                continue
                            tree[rd] = None
                        for name, v in ns[d].items():
                            rp = os.path.normpath(os.path.join(rd, name))
                            if isinstance(v, int):
                                tree[rp] = chosen.get(v, bytes(self.inodes[v].cur) if v not in chosen else chosen[v])
                            elif v == ('dir',):
                                tree.setdefault(rp, None)
                    key = tree_key(tree)
                    if key not in seen:
                        seen.add(key)
                        count += 1
                        yield_list.append(('kept=[%s] data=[%s]' % ('; '.join(kept), ', '.join(chosen_desc)), tree))
                    return
                for (i, data, desc) in choices[k]:
                    chosen[i] = data
                    chosen_desc.append(desc)
                    rec(k + 1, chosen)
                    chosen_desc.pop()
                    del chosen[i]

            yield_list = []
            chosen_desc = []
            rec(0, {})
            for item in yield_list:
                yield item
            if count > max_states:
                return

    def kill_state(self):
        """The state after a process kill at this point (nothing lost)."""
        tree = {}
        for d in self.live:
            rd = os.path.relpath(d, self.base)
            if rd != '.':
                tree[rd] = None
            for name, v in self.live[d].items():
                rp = os.path.normpath(os.path.join(rd, name))
                if isinstance(v, int):
                    tree[rp] = bytes(self.inodes[v].cur)
                elif v == ('dir',):
                    tree.setdefault(rp, None)
        return tree


def tree_key(tree):
    """Content key of a tree, with names under .tmp normalised (they are random)."""
    h = hashlib.sha256()
    items = []
    for p, v in tree.items():
        if p.startswith('.tmp/'):
            p = '.tmp/*'
        items.append((p, hashlib.sha256(v).hexdigest() if v is not None else 'dir'))
    for it in sorted(items):
        h.update(repr(it).encode())
    return h.hexdigest()


def shape_key(tree, template):
    """Run-independent key: file contents that equal a template file are named after it, other contents are
    described by (length of first line, hash of everything after the first line, total length): salts and
    timestamps differ between runs, lengths and auxiliary bytes do not."""
    inv = {}
    for p, v in template.items():
        if v is not None:
            inv.setdefault(bytes(v), p)
    items = []
    for p, v in tree.items():
        if p.startswith('.tmp/'):
            p = '.tmp/*'
        if v is None:
            items.append((p, 'dir'))
        elif bytes(v) in inv:
            items.append((p, 'same-as:' + inv[bytes(v)]))
        else:
            i = v.find(b'\n')
            first = v[:i + 1] if i >= 0 else v
            rest = v[i + 1:] if i >= 0 else b''
            items.append((p, 'new:%d:%s:%d' % (len(first), hashlib.sha256(rest).hexdigest()[:12], len(v))))
    return repr(sorted(items))


def read_tree(base):
    tree = {}
    for root, dirs, files in os.walk(base, followlinks=True):
        rd = os.path.relpath(root, base)
        for d in dirs:
            tree[os.path.normpath(os.path.join(rd, d))] = None
        for fn in files:
            with open(os.path.join(root, fn), 'rb') as f:
                tree[os.path.normpath(os.path.join(rd, fn))] = f.read()
    return tree


def materialise(tree, dest):
    shutil.rmtree(dest, ignore_errors=True)
    base = os.path.join(dest, 'base')
    os.makedirs(base)
    for p, v in sorted(tree.items()):
        fp = os.path.join(base, p)
        if v is None:
            os.makedirs(fp, exist_ok=True)
        else:
            os.makedirs(os.path.dirname(fp), exist_ok=True)
            with open(fp, 'wb') as f:
                f.write(v)
            os.chmod(fp, 0o600)


def describe_tree(tree):
    out = {}
    for p, v in sorted(tree.items()):
        if v is None:
            out[p] = 'dir'
        else:
            out[p] = '%d bytes: %r' % (len(v), v[:80])
    return out


def pmap(fn, items, workers=16):
    with concurrent.futures.ThreadPoolExecutor(max_workers=workers) as ex:
        return list(ex.map(fn, items))
