/* Harness for pam/pam_whawty.c (compiled UNMODIFIED from /repo): a stub PAM runtime, syscall wrappers
 * (select/read/write via -Wl,--wrap) that count calls, check that every socket read/write is preceded by a
 * select with a finite timeout that reported readiness, and optionally cap transfer sizes / inject EINTR.
 *
 * usage: pamh <cases-file>
 * case line (TAB separated): id user_hex pw_hex pwsrc opts sock wcap rcap eintr wdelay_ms errno0
 *   eintr >= 100: a signal storm - the next (eintr-100) select calls are each interrupted after 0.3 x their timeout
 *           (the harness sleeps that long, at most 300 ms, and returns EINTR); "overwait" counts selects entered
 *           after more than twice the timeout had already been waited for the same transfer
 *   errno0: value of errno when pam_sm_authenticate is entered (what an earlier, unrelated system call of the host
 *           application left behind); -1 = leave as is
 *   wdelay_ms: sleep this long before the first write on the socket (models the process being descheduled)
 *   pwsrc: stack | conv | conv-fail | conv-null | conv-again | none(no authtok, use_first_pass)   user_hex "-" = pam_get_user fails
 *   opts: comma separated module options (without sock=), e.g. debug,try_first_pass,timeout=1
 * output line: id rc selects reads writes unguarded nonfinite maxsel_timeout_s elapsed_ms authtok_set
 */
#define _GNU_SOURCE
#include <stdio.h>
#include <stdlib.h>
#include <string.h>
#include <errno.h>
#include <time.h>
#include <unistd.h>
#include <sys/select.h>
#include <sys/socket.h>
#include <sys/stat.h>
#include <sys/resource.h>
#include <fcntl.h>
#include <sys/types.h>
#include <security/pam_modules.h>
#include <security/pam_ext.h>

struct pam_handle {
  const char *user;      /* NULL => pam_get_user fails */
  char *authtok;         /* item on the stack */
  const char *conv_pw;   /* what the conversation returns */
  int conv_mode;         /* 0 ok, 1 fail, 2 null, 3 again */
  int authtok_set;       /* pam_set_item(PAM_AUTHTOK) called */
  int logs;
};

int pam_get_user(pam_handle_t *pamh, const char **user, const char *prompt) {
  (void)prompt;
  if (!pamh->user) return PAM_SYSTEM_ERR;
  *user = pamh->user;
  return PAM_SUCCESS;
}
int pam_get_item(const pam_handle_t *pamh, int item_type, const void **item) {
  if (item_type != PAM_AUTHTOK) return PAM_SYSTEM_ERR;
  *item = pamh->authtok;
  return PAM_SUCCESS;
}
int pam_set_item(pam_handle_t *pamh, int item_type, const void *item) {
  if (item_type != PAM_AUTHTOK) return PAM_SYSTEM_ERR;
  free(pamh->authtok);
  pamh->authtok = item ? strdup((const char *)item) : NULL;
  pamh->authtok_set++;
  return PAM_SUCCESS;
}
const char *pam_strerror(pam_handle_t *pamh, int errnum) { (void)pamh; (void)errnum; return "stub-error"; }
void pam_vsyslog(const pam_handle_t *pamh, int priority, const char *fmt, va_list args) {
  /* format into a heap buffer of exactly the needed size so that ASan sees over-reads of %s arguments */
  (void)priority;
  va_list c; va_copy(c, args);
  int n = vsnprintf(NULL, 0, fmt, c); va_end(c);
  if (n < 0) return;
  char *b = malloc((size_t)n + 1);
  vsnprintf(b, (size_t)n + 1, fmt, args);
  ((pam_handle_t *)pamh)->logs++;
  free(b);
}
int pam_prompt(pam_handle_t *pamh, int style, char **response, const char *fmt, ...) {
  (void)style; (void)fmt;
  switch (pamh->conv_mode) {
    case 1: return PAM_CONV_ERR;
    case 2: *response = NULL; return PAM_SUCCESS;
    case 3: return PAM_CONV_AGAIN;
  }
  *response = strdup(pamh->conv_pw ? pamh->conv_pw : "");
  return PAM_SUCCESS;
}

/* ---- syscall wrappers ---- */
static long n_select, n_read, n_write, n_unguarded, n_nonfinite;
static long wcap, rcap, wdelay_ms;
static unsigned eintr_mask; /* bit0: first select, bit1: first write, bit2: first read get EINTR */
static long eintr_storm, n_overwait;
static double waited; /* seconds of interrupted waiting since the last byte was transferred */
static int ready_r[FD_SETSIZE], ready_w[FD_SETSIZE];
static double max_sel_timeout;

int __real_select(int nfds, fd_set *r, fd_set *w, fd_set *e, struct timeval *tv);
ssize_t __real_read(int fd, void *buf, size_t n);
ssize_t __real_write(int fd, const void *buf, size_t n);
ssize_t __real_send(int fd, const void *buf, size_t n, int flags);

static int is_sock(int fd) { struct stat st; return fd >= 0 && fstat(fd, &st) == 0 && S_ISSOCK(st.st_mode); }

#define SPIN_LIMIT 200000 /* no case transfers more than ~70000 bytes; the module is spinning */
static const char *cur_case = "";

int __wrap_select(int nfds, fd_set *r, fd_set *w, fd_set *e, struct timeval *tv) {
  n_select++;
  if (n_select > SPIN_LIMIT) {
    printf("SPIN\t%s\t%ld\t%ld\t%ld\n", cur_case, n_select, n_read, n_write); fflush(stdout);
    _exit(95);
  }
  if (!tv) n_nonfinite++;
  else { double t = tv->tv_sec + tv->tv_usec / 1e6; if (t > max_sel_timeout) max_sel_timeout = t; }
  if (eintr_mask & 1) { eintr_mask &= ~1u; errno = EINTR; return -1; }
  if (eintr_storm > 0 && tv) {
    double t = tv->tv_sec + tv->tv_usec / 1e6;
    if (t > 0 && waited > 2 * t) n_overwait++;
    double nap = 0.3 * t; if (nap > 0.3) nap = 0.3;
    usleep((useconds_t)(nap * 1e6));
    waited += 0.3 * t;
    eintr_storm--;
    errno = EINTR;
    return -1;
  }
  int ret = __real_select(nfds, r, w, e, tv);
  if (ret > 0) {
    for (int fd = 0; fd < nfds && fd < FD_SETSIZE; fd++) {
      if (r && FD_ISSET(fd, r)) ready_r[fd] = 1;
      if (w && FD_ISSET(fd, w)) ready_w[fd] = 1;
    }
  }
  return ret;
}
ssize_t __wrap_read(int fd, void *buf, size_t n) {
  if (!is_sock(fd)) return __real_read(fd, buf, n);
  n_read++;
  if (fd < FD_SETSIZE) { if (!ready_r[fd]) n_unguarded++; ready_r[fd] = 0; }
  if (eintr_mask & 4) { eintr_mask &= ~4u; errno = EINTR; return -1; }
  if (rcap > 0 && (long)n > rcap) n = (size_t)rcap;
  ssize_t got = __real_read(fd, buf, n);
  if (got > 0) waited = 0;
  return got;
}
ssize_t __wrap_write(int fd, const void *buf, size_t n) {
  if (!is_sock(fd)) return __real_write(fd, buf, n);
  n_write++;
  if (wdelay_ms > 0) { usleep((useconds_t)wdelay_ms * 1000); wdelay_ms = 0; }
  if (fd < FD_SETSIZE) { if (!ready_w[fd]) n_unguarded++; ready_w[fd] = 0; }
  if (eintr_mask & 2) { eintr_mask &= ~2u; errno = EINTR; return -1; }
  if (wcap > 0 && (long)n > wcap) n = (size_t)wcap;
  return __real_write(fd, buf, n);
}

/* send() on the socket is treated like write() (a repaired module uses send(..., MSG_NOSIGNAL)) */
ssize_t __wrap_send(int fd, const void *buf, size_t n, int flags) {
  n_write++;
  if (wdelay_ms > 0) { usleep((useconds_t)wdelay_ms * 1000); wdelay_ms = 0; }
  if (fd >= 0 && fd < FD_SETSIZE) { if (!ready_w[fd]) n_unguarded++; ready_w[fd] = 0; }
  if (eintr_mask & 2) { eintr_mask &= ~2u; errno = EINTR; return -1; }
  if (wcap > 0 && (long)n > wcap) n = (size_t)wcap;
  ssize_t put = __real_send(fd, buf, n, flags);
  if (put > 0) waited = 0;
  return put;
}

static int count_fds(void) {
  int n = 0; struct rlimit rl; long lim = 4096;
  if (getrlimit(RLIMIT_NOFILE, &rl) == 0 && (long)rl.rlim_cur < lim) lim = (long)rl.rlim_cur;
  for (int fd = 0; fd < lim; fd++) if (fcntl(fd, F_GETFD) != -1) n++;
  return n;
}

static char *unhex(const char *h) {
  size_t n = strlen(h) / 2;
  char *b = calloc(n + 1, 1);
  for (size_t i = 0; i < n; i++) { unsigned v; sscanf(h + 2 * i, "%2x", &v); b[i] = (char)v; }
  return b;
}

int main(int argc, char **argv) {
  if (argc < 2) return 2;
  FILE *f = fopen(argv[1], "r");
  if (!f) return 2;
  char *line = NULL; size_t cap = 0;
  while (getline(&line, &cap, f) > 0) {
    char *fields[12]; int nf = 0;
    char *p = line; line[strcspn(line, "\n")] = 0;
    while (nf < 12) { fields[nf++] = p; char *t = strchr(p, '\t'); if (!t) break; *t = 0; p = t + 1; }
    if (nf < 9) continue;
    wdelay_ms = nf >= 10 ? atol(fields[9]) : 0;
    /* announce the case before running it: a sanitizer abort still leaves the witness */
    printf("BEGIN\t%s\n", fields[0]); fflush(stdout);
    cur_case = fields[0];
    int errno0 = nf >= 11 ? atoi(fields[10]) : -1;
    struct pam_handle ph; memset(&ph, 0, sizeof(ph));
    char *user = strcmp(fields[1], "-") ? unhex(fields[1]) : NULL;
    char *pw = unhex(fields[2]);
    ph.user = user;
    if (!strcmp(fields[3], "stack")) ph.authtok = strdup(pw);
    else if (!strcmp(fields[3], "conv")) ph.conv_pw = pw;
    else if (!strcmp(fields[3], "conv-fail")) ph.conv_mode = 1;
    else if (!strcmp(fields[3], "conv-null")) ph.conv_mode = 2;
    else if (!strcmp(fields[3], "conv-again")) ph.conv_mode = 3;
    const char *av[32]; int ac = 0;
    char *opts = strdup(fields[4]);
    for (char *o = strtok(opts, ","); o && ac < 30; o = strtok(NULL, ",")) if (*o) av[ac++] = o;
    char sockopt[512];
    if (strcmp(fields[5], "-")) { snprintf(sockopt, sizeof sockopt, "sock=%s", fields[5]); av[ac++] = sockopt; }
    wcap = atol(fields[6]); rcap = atol(fields[7]); eintr_mask = (unsigned)atoi(fields[8]);
    eintr_storm = 0; n_overwait = 0; waited = 0;
    if (eintr_mask >= 100) { eintr_storm = (long)eintr_mask - 100; eintr_mask = 0; }
    n_select = n_read = n_write = n_unguarded = n_nonfinite = 0; max_sel_timeout = 0;
    memset(ready_r, 0, sizeof ready_r); memset(ready_w, 0, sizeof ready_w);
    /* a long-lived application: <prefail> earlier logins while the agent was not reachable (socket path missing) */
    long prefail = nf >= 12 ? atol(fields[11]) : 0, prefail_ok = 0;
    int fds_before = count_fds();
    if (prefail > 0) {
      struct rlimit rl;
      if (getrlimit(RLIMIT_NOFILE, &rl) == 0 && rl.rlim_cur < (rlim_t)prefail + 200) {
        rl.rlim_cur = rl.rlim_max < (rlim_t)prefail + 200 ? rl.rlim_max : (rlim_t)prefail + 200; setrlimit(RLIMIT_NOFILE, &rl);
      }
      getrlimit(RLIMIT_NOFILE, &rl);
      if (rl.rlim_cur < (rlim_t)prefail + 100) prefail = 0; /* cannot model it here */
      const char *av2[32]; int ac2 = 0;
      for (int i = 0; i < ac; i++) if (strncmp(av[i], "sock=", 5)) av2[ac2++] = av[i];
      av2[ac2++] = "sock=/nonexistent-verif/whawty.sock";
      for (long i = 0; i < prefail; i++) {
        struct pam_handle p2; memset(&p2, 0, sizeof(p2));
        p2.user = user; p2.authtok = strdup("pw");
        if (pam_sm_authenticate(&p2, (int)PAM_SILENT, ac2, av2) == PAM_SUCCESS) prefail_ok++;
        free(p2.authtok);
      }
      n_select = n_read = n_write = n_unguarded = n_nonfinite = 0; max_sel_timeout = 0;
    }
    int fds_mid = count_fds();
    struct timespec t0, t1; clock_gettime(CLOCK_MONOTONIC, &t0);
    int flags = strstr(fields[4], "PAM_SILENT") ? (int)PAM_SILENT : 0;
    if (errno0 >= 0) errno = errno0;
    int rc = pam_sm_authenticate(&ph, flags, ac, av);
    clock_gettime(CLOCK_MONOTONIC, &t1);
    long ms = (t1.tv_sec - t0.tv_sec) * 1000 + (t1.tv_nsec - t0.tv_nsec) / 1000000;
    int fds_after = count_fds();
    printf("END\t%s\t%d\t%ld\t%ld\t%ld\t%ld\t%ld\t%.0f\t%ld\t%d\t%ld\t%ld\t%ld\t%d\t%d\n", fields[0], rc, n_select, n_read, n_write, n_unguarded, n_nonfinite, max_sel_timeout, ms, ph.authtok_set, n_overwait, prefail, prefail_ok, fds_mid - fds_before, fds_after - fds_mid);
    fflush(stdout);
    free(user); free(pw); free(opts); free(ph.authtok);
  }
  free(line);
  fclose(f);
  return 0;
}
